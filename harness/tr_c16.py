"""T1 readers for C16 (fail-closed).  Reads, from /repo's current source:

* req_compile/utils.py  req_iter_from_lines : comment prefix, continuation character (the
  three places it is written must agree), the include flags tuple, the option prefix, the
  --hash prefix, the join separator, the default directory, the two indices/thresholds, and
  the shape of the `continuation or not full_line` guard;
* private/compiler.py   parse_index_urls    : for every `if line.startswith((..)): S.add(
  sanitize(line[len(LIT):]))` the prefixes, len(LIT) and the target set; sanitize's
  partition character and strip set; the order of the returned tuple;
* req_compile/cmdline.py add_repo_args / compile_main / norm_index_url : the option table of
  the parser the collected tokens are re-parsed with (flags, dest, action, normalising type),
  the extra -e/--editable option, whether parse_args (strict) is used, which dests of the
  re-parse are read back, and the rstrip argument of norm_index_url.
"""
from __future__ import annotations

import ast
from typing import Any, Dict, List, Optional, Tuple

import translate as T
from translate import TranslateError


def _codes(s: str) -> str:
    for ch in s:
        if ord(ch) > 127:
            raise TranslateError(f"non-ASCII character in literal {s!r}")
    return "[" + "; ".join(str(ord(c)) for c in s) + "]"


def _cstr(s: str) -> str:
    """Coq string term for an ASCII literal (any byte): built from character codes."""
    if all(32 <= ord(ch) < 127 and ch != '"' for ch in s):
        return '"' + s + '"'
    return f"(str_of_codes {_codes(s)})"


def _is_name(n: ast.AST, name: str) -> bool:
    return isinstance(n, ast.Name) and n.id == name


def _const_str(n: ast.AST) -> str:
    if isinstance(n, ast.Constant) and isinstance(n.value, str):
        return n.value
    raise TranslateError(f"string literal expected: {ast.dump(n)[:120]}")


def _method_calls(f: ast.AST, obj: str, meth: str) -> List[ast.Call]:
    out = []
    for n in ast.walk(f):
        if (isinstance(n, ast.Call) and isinstance(n.func, ast.Attribute) and n.func.attr == meth
                and _is_name(n.func.value, obj)):
            out.append(n)
    return out


def _one(xs: List[Any], what: str) -> Any:
    if len(xs) != 1:
        raise TranslateError(f"expected exactly one {what}, found {len(xs)}")
    return xs[0]


def _sub0(n: ast.AST, obj: str, idx: int) -> bool:
    return (isinstance(n, ast.Subscript) and _is_name(n.value, obj)
            and isinstance(n.slice, ast.Constant) and n.slice.value == idx)


_STR_METHODS = {"strip", "lstrip", "rstrip", "join", "format", "lower", "upper"}


def _pure_str(e: ast.AST) -> bool:
    """effect-free argument of a log call, as T._pure, plus the str methods strip/join/format/... of such values and
    `x or y` (T.parse keeps a log line with such an argument; for the reader of req_iter_from_lines it is still only a
    log line: these methods of str values have no effect, and a subscript that could raise is evaluated again by the
    modelled statement that follows)"""
    if T._pure(e):
        return True
    if isinstance(e, ast.Call) and isinstance(e.func, ast.Attribute) and e.func.attr in _STR_METHODS and not e.keywords:
        return _pure_str(e.func.value) and all(_pure_str(a) for a in e.args)
    if isinstance(e, ast.BoolOp):
        return all(_pure_str(v) for v in e.values)
    if isinstance(e, ast.Subscript):
        return _pure_str(e.value) and _pure_str(e.slice)
    return False


def _is_lenient_log(st: ast.AST) -> bool:
    if not (isinstance(st, ast.Expr) and isinstance(st.value, ast.Call) and isinstance(st.value.func, ast.Attribute)):
        return False
    fn = st.value.func
    if fn.attr not in T.LOG_METHODS:
        return False
    recv = ast.unparse(fn.value)
    if not (recv in ("LOG", "logger", "logging", "log", "_LOG", "_logger") or recv.startswith("logging.getLogger(")):
        return False
    return all(_pure_str(a) for a in st.value.args) and all(_pure_str(k.value) for k in st.value.keywords)


class _DropLogs(ast.NodeTransformer):
    def generic_visit(self, node):
        node = super().generic_visit(node)
        for field in ("body", "orelse", "finalbody"):
            b = getattr(node, field, None)
            if isinstance(b, list) and b and isinstance(b[0], ast.stmt):
                nb = [st for st in b if not _is_lenient_log(st)]
                setattr(node, field, nb if (nb or field != "body") else [ast.Pass()])
        return node


def read_req_iter() -> Dict[str, Any]:
    f = _DropLogs().visit(T.func(T.parse("req_compile/utils.py"), "req_iter_from_lines"))
    r: Dict[str, Any] = {}
    # req_line = req_line.strip()
    strips = [c for c in _method_calls(f, "req_line", "strip") if not c.args]
    _one(strips, "req_line.strip()")
    # the loop body must start with: strip; if not req_line: continue; if startswith('#'): continue
    loop = _one([n for n in ast.walk(f) if isinstance(n, ast.For) and _is_name(n.target, "req_line")], "for req_line loop")
    body = loop.body
    if len(body) < 8:
        raise TranslateError("loop body of req_iter_from_lines too short")
    s0 = body[0]
    if not (isinstance(s0, ast.Assign) and _is_name(s0.targets[0], "req_line") and s0.value is strips[0]):
        raise TranslateError("first statement is not `req_line = req_line.strip()`")
    s1 = body[1]
    if not (isinstance(s1, ast.If) and isinstance(s1.test, ast.UnaryOp) and isinstance(s1.test.op, ast.Not)
            and _is_name(s1.test.operand, "req_line") and len(s1.body) == 1 and isinstance(s1.body[0], ast.Continue) and not s1.orelse):
        raise TranslateError("second statement is not `if not req_line: continue`")
    s2 = body[2]
    sw = _method_calls(s2, "req_line", "startswith")
    if not (isinstance(s2, ast.If) and len(sw) == 1 and s2.test is sw[0] and len(s2.body) == 1
            and isinstance(s2.body[0], ast.Continue) and not s2.orelse):
        raise TranslateError("third statement is not `if req_line.startswith(..): continue`")
    r["comment_prefix"] = _const_str(_one(sw[0].args, "startswith arg"))
    # if continuation or not full_line: full_line += req_line.rstrip(C)
    s3 = body[3]
    ok = (isinstance(s3, ast.If) and isinstance(s3.test, ast.BoolOp) and isinstance(s3.test.op, ast.Or)
          and len(s3.test.values) == 2 and _is_name(s3.test.values[0], "continuation")
          and isinstance(s3.test.values[1], ast.UnaryOp) and isinstance(s3.test.values[1].op, ast.Not)
          and _is_name(s3.test.values[1].operand, "full_line") and not s3.orelse and len(s3.body) == 1
          and isinstance(s3.body[0], ast.AugAssign) and isinstance(s3.body[0].op, ast.Add)
          and _is_name(s3.body[0].target, "full_line"))
    if not ok:
        raise TranslateError("the `if continuation or not full_line: full_line += ...` guard has an unrecognised shape")
    rs = _one(_method_calls(s3, "req_line", "rstrip"), "req_line.rstrip(..)")
    if s3.body[0].value is not rs:
        raise TranslateError("full_line += is not req_line.rstrip(..)")
    c1 = _const_str(_one(rs.args, "rstrip arg"))
    # if C in req_line: if req_line[-1] != C: raise ValueError ; continuation = True; continue
    s4 = body[4]
    ok = (isinstance(s4, ast.If) and isinstance(s4.test, ast.Compare) and len(s4.test.ops) == 1
          and isinstance(s4.test.ops[0], ast.In) and _is_name(s4.test.comparators[0], "req_line") and not s4.orelse
          and len(s4.body) == 3)
    if not ok:
        raise TranslateError("the continuation test has an unrecognised shape")
    c2 = _const_str(s4.test.left)
    inner = s4.body[0]
    ok = (isinstance(inner, ast.If) and isinstance(inner.test, ast.Compare) and len(inner.test.ops) == 1
          and isinstance(inner.test.ops[0], ast.NotEq) and _sub_neg1(inner.test.left) and len(inner.body) == 1
          and isinstance(inner.body[0], ast.Raise) and not inner.orelse)
    if not ok:
        raise TranslateError("the `req_line[-1] != ..: raise` test has an unrecognised shape")
    c3 = _const_str(inner.test.comparators[0])
    exc = inner.body[0].exc
    if not (isinstance(exc, ast.Call) and _is_name(exc.func, "ValueError")):
        raise TranslateError("mid-line continuation marker does not raise ValueError")
    a1, a2 = s4.body[1], s4.body[2]
    if not (isinstance(a1, ast.Assign) and _is_name(a1.targets[0], "continuation") and isinstance(a1.value, ast.Constant)
            and a1.value.value is True and isinstance(a2, ast.Continue)):
        raise TranslateError("continuation branch is not `continuation = True; continue`")
    if not (c1 == c2 == c3 and len(c1) == 1):
        raise TranslateError(f"continuation characters disagree: {c1!r} {c2!r} {c3!r}")
    r["cont"] = c1
    s5 = body[5]
    if not (isinstance(s5, ast.Assign) and _is_name(s5.targets[0], "continuation") and isinstance(s5.value, ast.Constant)
            and s5.value.value is False):
        raise TranslateError("`continuation = False` not found after the continuation branch")
    s6 = body[6]
    sp = _method_calls(s6, "full_line", "split")
    if not (isinstance(s6, ast.Assign) and _is_name(s6.targets[0], "line_parts") and len(sp) == 1 and s6.value is sp[0]
            and not sp[0].args and not sp[0].keywords):
        raise TranslateError("`line_parts = full_line.split()` not found")
    # if line_parts[0].startswith(P): shlex.split(_COMMENT_RE.sub("", full_line)); --requirement=FILE
    g7 = body[7]
    gt = g7.test if isinstance(g7, ast.If) else None
    if not (gt is not None and isinstance(gt, ast.Call) and isinstance(gt.func, ast.Attribute) and gt.func.attr == "startswith"
            and _sub0(gt.func.value, "line_parts", 0) and len(gt.args) == 1 and not g7.orelse and len(g7.body) == 3):
        raise TranslateError("the option-line grammar block (`if line_parts[0].startswith(..): line_parts = shlex.split(..)`) was not found")
    grammar_prefix = _const_str(gt.args[0])
    inner_if = g7.body[2]
    try:
        grammar_flags = T.literal(inner_if.test.values[1].comparators[0])
    except Exception:
        raise TranslateError("the `--requirement=FILE` test of the option-line grammar block has an unrecognised shape")
    expected = (
        "if line_parts[0].startswith({p!r}):\n"
        "    line_parts = shlex.split(_COMMENT_RE.sub('', full_line))\n"
        "    flag, has_value, value = line_parts[0].partition('=')\n"
        "    if has_value and flag in {f!r}:\n"
        "        line_parts[:1] = [flag, value]\n").format(p=grammar_prefix, f=grammar_flags)
    if ast.dump(T.parse_src(expected).body[0]) != ast.dump(g7):
        raise TranslateError("the option-line grammar block differs from the recognised shape")
    cre = T.module_const(T.parse("req_compile/utils.py"), "_COMMENT_RE")
    if ast.dump(cre) != ast.dump(T.parse_src("re.compile(r'(^|\\s+)#.*$')").body[0].value):
        raise TranslateError("_COMMENT_RE is not re.compile(r'(^|\\s+)#.*$')")
    body = body[:7] + body[8:]
    s7 = body[7]
    if not (isinstance(s7, ast.If) and isinstance(s7.test, ast.Compare) and isinstance(s7.test.ops[0], ast.In)
            and _sub0(s7.test.left, "line_parts", 0)):
        raise TranslateError("`if line_parts[0] in (...)` not found")
    flags = T.literal(s7.test.comparators[0])
    if not (isinstance(flags, tuple) and flags and all(isinstance(x, str) for x in flags)):
        raise TranslateError("include flags are not a tuple of strings")
    r["include_flags"] = list(flags)
    if tuple(grammar_flags) != tuple(flags):
        raise TranslateError("the include flags of the grammar block and of the include test disagree")
    # include argument: os.path.join(relative_dir or D, line_parts[K].strip())
    joins = [n for n in ast.walk(s7) if isinstance(n, ast.Call) and isinstance(n.func, ast.Attribute) and n.func.attr == "join"
             and isinstance(n.func.value, ast.Attribute) and n.func.value.attr == "path"]
    j = _one(joins, "os.path.join in the include branch")
    if len(j.args) != 2:
        raise TranslateError("os.path.join has not two arguments")
    d = j.args[0]
    if not (isinstance(d, ast.BoolOp) and isinstance(d.op, ast.Or) and _is_name(d.values[0], "relative_dir")):
        raise TranslateError("first join argument is not `relative_dir or ..`")
    r["default_dir"] = _const_str(d.values[1])
    p = j.args[1]
    if not (isinstance(p, ast.Call) and isinstance(p.func, ast.Attribute) and p.func.attr == "strip" and not p.args
            and isinstance(p.func.value, ast.Subscript) and _is_name(p.func.value.value, "line_parts")
            and isinstance(p.func.value.slice, ast.Constant) and isinstance(p.func.value.slice.value, int)):
        raise TranslateError("second join argument is not `line_parts[K].strip()`")
    r["include_arg_index"] = p.func.value.slice.value
    inc = s7.body[0] if len(s7.body) == 1 else None
    ok = (isinstance(inc, ast.For) and isinstance(inc.target, ast.Name) and not inc.orelse and isinstance(inc.iter, ast.Call)
          and _is_name(inc.iter.func, "req_iter_from_file") and len(inc.iter.args) == 2 and not inc.iter.keywords
          and inc.iter.args[0] is j and _is_name(inc.iter.args[1], "parameters") and len(inc.body) == 1
          and isinstance(inc.body[0], ast.Expr) and isinstance(inc.body[0].value, ast.Yield)
          and _is_name(inc.body[0].value.value, inc.target.id))
    if not ok:
        raise TranslateError("the include branch is not `for req in req_iter_from_file(os.path.join(..), parameters): yield req`")
    # elif line_parts[0].startswith(P): parameters.extend(line_parts)
    if not (len(s7.orelse) == 1 and isinstance(s7.orelse[0], ast.If)):
        raise TranslateError("elif branch missing")
    e = s7.orelse[0]
    t = e.test
    if not (isinstance(t, ast.Call) and isinstance(t.func, ast.Attribute) and t.func.attr == "startswith"
            and _sub0(t.func.value, "line_parts", 0)):
        raise TranslateError("`elif line_parts[0].startswith(..)` not found")
    r["option_prefix"] = _const_str(_one(t.args, "startswith arg"))
    if grammar_prefix != r["option_prefix"]:
        raise TranslateError("the option prefix of the grammar block and of the option branch disagree")
    ext = e.body[0]
    if not (len(e.body) == 1 and isinstance(ext, ast.Expr) and isinstance(ext.value, ast.Call)
            and isinstance(ext.value.func, ast.Attribute) and ext.value.func.attr == "extend"
            and _is_name(ext.value.func.value, "parameters") and len(ext.value.args) == 1
            and _is_name(ext.value.args[0], "line_parts")):
        raise TranslateError("option branch is not `parameters.extend(line_parts)`")
    # else: try: if len(line_parts) > N: for idx, part in enumerate(line_parts): if part.startswith(H): full_line = SEP.join(line_parts[:idx]); break
    if not (len(e.orelse) == 1 and isinstance(e.orelse[0], ast.Try)):
        raise TranslateError("requirement branch is not a try block")
    tr = e.orelse[0]
    if not (len(tr.body) == 2 and isinstance(tr.body[0], ast.If)):
        raise TranslateError("requirement branch has an unrecognised shape")
    g = tr.body[0]
    tt = g.test
    if not (isinstance(tt, ast.Compare) and isinstance(tt.ops[0], ast.Gt) and isinstance(tt.left, ast.Call)
            and _is_name(tt.left.func, "len") and _is_name(tt.left.args[0], "line_parts")
            and isinstance(tt.comparators[0], ast.Constant) and isinstance(tt.comparators[0].value, int)):
        raise TranslateError("`len(line_parts) > N` not found")
    r["hash_min_parts"] = tt.comparators[0].value
    fl = g.body[0]
    if not (len(g.body) == 1 and isinstance(fl, ast.For) and isinstance(fl.iter, ast.Call) and _is_name(fl.iter.func, "enumerate")
            and _is_name(fl.iter.args[0], "line_parts") and len(fl.iter.args) == 1 and len(fl.body) == 1):
        raise TranslateError("hash scan loop has an unrecognised shape")
    hi = fl.body[0]
    hs = _method_calls(hi, "part", "startswith")
    if not (isinstance(hi, ast.If) and len(hs) == 1 and hi.test is hs[0] and len(hi.body) == 2 and isinstance(hi.body[1], ast.Break)):
        raise TranslateError("hash test has an unrecognised shape")
    r["hash_prefix"] = _const_str(_one(hs[0].args, "startswith arg"))
    asg = hi.body[0]
    ok = (isinstance(asg, ast.Assign) and _is_name(asg.targets[0], "full_line") and isinstance(asg.value, ast.Call)
          and isinstance(asg.value.func, ast.Attribute) and asg.value.func.attr == "join"
          and len(asg.value.args) == 1 and isinstance(asg.value.args[0], ast.Subscript)
          and _is_name(asg.value.args[0].value, "line_parts") and isinstance(asg.value.args[0].slice, ast.Slice)
          and asg.value.args[0].slice.lower is None and _is_name(asg.value.args[0].slice.upper, "idx")
          and asg.value.args[0].slice.step is None)
    if not ok:
        raise TranslateError("`full_line = SEP.join(line_parts[:idx])` not found")
    r["hash_join"] = _const_str(asg.value.func.value)
    y = tr.body[1]
    if not (isinstance(y, ast.Expr) and isinstance(y.value, ast.Yield) and isinstance(y.value.value, ast.Call)
            and _is_name(y.value.value.func, "parse_requirement") and _is_name(y.value.value.args[0], "full_line")):
        raise TranslateError("`yield parse_requirement(full_line)` not found")
    for h in tr.handlers:
        if not (h.body and isinstance(h.body[-1], ast.Raise) and h.body[-1].exc is None):
            raise TranslateError("an except handler of the requirement branch does not re-raise")
    if tr.finalbody or tr.orelse:
        raise TranslateError("try block has finally/else")
    rest = body[8:]
    if not (len(rest) == 1 and isinstance(rest[0], ast.Assign) and _is_name(rest[0].targets[0], "full_line")
            and isinstance(rest[0].value, ast.Constant) and rest[0].value.value == ""):
        raise TranslateError('loop does not end with `full_line = ""`')
    # req_iter_from_file: dirname of the file name is the relative dir
    ff = T.func(T.parse("req_compile/utils.py"), "req_iter_from_file")
    dn = [n for n in ast.walk(ff) if isinstance(n, ast.Call) and isinstance(n.func, ast.Attribute) and n.func.attr == "dirname"]
    d0 = _one(dn, "os.path.dirname in req_iter_from_file")
    if not _is_name(d0.args[0], "reqfile_name"):
        raise TranslateError("dirname is not taken of reqfile_name")
    return r


def _sub_neg1(n: ast.AST) -> bool:
    return (isinstance(n, ast.Subscript) and _is_name(n.value, "req_line") and isinstance(n.slice, ast.UnaryOp)
            and isinstance(n.slice.op, ast.USub) and isinstance(n.slice.operand, ast.Constant) and n.slice.operand.value == 1)


def read_bazel() -> Dict[str, Any]:
    f = T.func(T.parse("private/compiler.py"), "parse_index_urls")
    san = T.func(f, "sanitize")
    part = [n for n in ast.walk(san) if isinstance(n, ast.Call) and isinstance(n.func, ast.Attribute) and n.func.attr == "partition"]
    strp = [n for n in ast.walk(san) if isinstance(n, ast.Call) and isinstance(n.func, ast.Attribute) and n.func.attr == "strip"]
    pc = _const_str(_one(_one(part, "partition call").args, "partition arg"))
    if len(pc) != 1:
        raise TranslateError("partition separator is not one character")
    sc = _const_str(_one(_one(strp, "strip call").args, "strip arg"))
    if len(san.body) != 2 or not isinstance(san.body[1], ast.Return) or san.body[1].value is not strp[0]:
        raise TranslateError("sanitize is not `text,_,_ = text.partition(c); return text.strip(chars)`")
    a0 = san.body[0]
    if not (isinstance(a0, ast.Assign) and isinstance(a0.targets[0], ast.Tuple) and _is_name(a0.targets[0].elts[0], "text")
            and a0.value is part[0]):
        raise TranslateError("sanitize does not keep the part before the separator")
    loop = _one([n for n in ast.walk(f) if isinstance(n, ast.For) and _is_name(n.target, "line")], "for line loop")
    it = loop.iter
    if not (isinstance(it, ast.Call) and isinstance(it.func, ast.Attribute) and it.func.attr == "splitlines"
            and _is_name(it.func.value, "content") and not it.args):
        raise TranslateError("loop is not over content.splitlines()")
    if not (loop.body and ast.dump(loop.body[0]) == ast.dump(T.parse_src("line = line.strip()").body[0])):
        raise TranslateError("the scanner loop does not start with `line = line.strip()`")
    rules = []
    for st in loop.body[1:]:
        ok = (isinstance(st, ast.If) and not st.orelse and len(st.body) == 1 and isinstance(st.test, ast.Call)
              and isinstance(st.test.func, ast.Attribute) and st.test.func.attr == "startswith" and _is_name(st.test.func.value, "line")
              and len(st.test.args) == 1)
        if not ok:
            raise TranslateError("a statement of the scanner loop is not `if line.startswith(..): ..`")
        pre = T.literal(st.test.args[0])
        pre = [pre] if isinstance(pre, str) else list(pre)
        if not all(isinstance(x, str) and x for x in pre):
            raise TranslateError("scanner prefixes are not non-empty strings")
        ex = st.body[0]
        ok = (isinstance(ex, ast.Expr) and isinstance(ex.value, ast.Call) and isinstance(ex.value.func, ast.Attribute)
              and ex.value.func.attr == "add" and isinstance(ex.value.func.value, ast.Name) and len(ex.value.args) == 1)
        if not ok:
            raise TranslateError("scanner branch is not `S.add(..)`")
        target = ex.value.func.value.id
        sc_call = ex.value.args[0]
        ok = (isinstance(sc_call, ast.Call) and _is_name(sc_call.func, "sanitize") and len(sc_call.args) == 1
              and isinstance(sc_call.args[0], ast.Subscript) and _is_name(sc_call.args[0].value, "line")
              and isinstance(sc_call.args[0].slice, ast.Slice) and sc_call.args[0].slice.upper is None
              and sc_call.args[0].slice.step is None)
        if not ok:
            raise TranslateError("scanner branch is not `S.add(sanitize(line[len(..):]))`")
        lo = sc_call.args[0].slice.lower
        if isinstance(lo, ast.Call) and _is_name(lo.func, "len") and len(lo.args) == 1:
            cut = len(_const_str(lo.args[0]))
        elif isinstance(lo, ast.Constant) and isinstance(lo.value, int) and lo.value >= 0:
            cut = lo.value
        else:
            raise TranslateError("slice start of the scanner is not len(<literal>)")
        rules.append((pre, cut, target))
    ret = [n for n in f.body if isinstance(n, ast.Return)]
    rv = _one(ret, "return of parse_index_urls").value
    if not (isinstance(rv, ast.Tuple) and all(isinstance(e, ast.Name) for e in rv.elts) and len(rv.elts) == 3):
        raise TranslateError("parse_index_urls does not return a 3-tuple of names")
    order = [e.id for e in rv.elts]
    for _, _, tgt in rules:
        if tgt not in order:
            raise TranslateError(f"scanner target {tgt} is not returned")
    return {"rules": [(p, c, order.index(t)) for p, c, t in rules], "comment": pc, "strip": sc, "order": order}


def _kw(call: ast.Call, name: str) -> Optional[ast.expr]:
    for k in call.keywords:
        if k.arg == name:
            return k.value
    return None


def _read_add_argument(call: ast.Call) -> Tuple[List[str], str, int, bool]:
    flags = [_const_str(a) for a in call.args]
    if not flags or not all(x.startswith("-") for x in flags):
        raise TranslateError("add_argument without option strings")
    known = {"action", "dest", "default", "metavar", "help", "type"}
    for k in call.keywords:
        if k.arg not in known:
            raise TranslateError(f"add_argument keyword {k.arg} not supported")
    act = _kw(call, "action")
    kind = 1
    if act is not None:
        a = _const_str(act)
        if a == "append":
            kind = 0
        elif a == "store_true":
            kind = 2
        elif a == "store":
            kind = 1
        else:
            raise TranslateError(f"action {a} not supported")
    dest = _kw(call, "dest")
    if dest is not None:
        d = _const_str(dest)
    else:
        longs = [x for x in flags if x.startswith("--")]
        d = (longs[0][2:] if longs else flags[0][1:]).replace("-", "_")
    ty = _kw(call, "type")
    norm = False
    if ty is not None:
        if _is_name(ty, "norm_index_url"):
            norm = True
        elif _is_name(ty, "str"):
            norm = False
        else:
            raise TranslateError("unsupported type= in add_argument")
    return flags, d, kind, norm


def read_cli() -> Dict[str, Any]:
    mod = T.parse("req_compile/cmdline.py")
    f = T.func(mod, "add_repo_args")
    table = []
    grp = None
    for st in f.body:
        if isinstance(st, ast.Expr) and isinstance(st.value, ast.Constant):
            continue
        if isinstance(st, ast.Assign) and isinstance(st.value, ast.Call) and isinstance(st.value.func, ast.Attribute) \
                and st.value.func.attr == "add_argument_group" and _is_name(st.value.func.value, "parser"):
            grp = st.targets[0].id
            continue
        if (isinstance(st, ast.Expr) and isinstance(st.value, ast.Call) and isinstance(st.value.func, ast.Attribute)
                and st.value.func.attr == "add_argument" and isinstance(st.value.func.value, ast.Name)
                and st.value.func.value.id in (grp, "parser")):
            table.append(_read_add_argument(st.value))
            continue
        raise TranslateError("unrecognised statement in add_repo_args")
    cm = T.func(mod, "compile_main")
    blk = None
    for n in ast.walk(cm):
        if isinstance(n, ast.If) and _is_name(n.test, "extra_parameters"):
            blk = n
    if blk is None or blk.orelse:
        raise TranslateError("`if extra_parameters:` block not found")
    b = blk.body
    ok = (isinstance(b[0], ast.Assign) and isinstance(b[0].value, ast.Call) and isinstance(b[0].value.func, ast.Attribute)
          and b[0].value.func.attr == "ArgumentParser" and not b[0].value.args and not b[0].value.keywords)
    if not ok:
        raise TranslateError("re-parse parser is not a plain argparse.ArgumentParser()")
    pname = b[0].targets[0].id
    if not (isinstance(b[1], ast.Expr) and isinstance(b[1].value, ast.Call) and _is_name(b[1].value.func, "add_repo_args")
            and _is_name(b[1].value.args[0], pname)):
        raise TranslateError("add_repo_args(parser) not found in the re-parse block")
    i = 2
    while (i < len(b) and isinstance(b[i], ast.Expr) and isinstance(b[i].value, ast.Call) and isinstance(b[i].value.func, ast.Attribute)
           and b[i].value.func.attr == "add_argument" and _is_name(b[i].value.func.value, pname)):
        table.append(_read_add_argument(b[i].value))
        i += 1
    pa = b[i]
    ok = (isinstance(pa, ast.Assign) and isinstance(pa.value, ast.Call) and isinstance(pa.value.func, ast.Attribute)
          and _is_name(pa.value.func.value, pname) and pa.value.func.attr in ("parse_args", "parse_known_args")
          and len(pa.value.args) == 1 and _is_name(pa.value.args[0], "extra_parameters"))
    if not ok:
        raise TranslateError("parse_args(extra_parameters) not found")
    strict = pa.value.func.attr == "parse_args"
    rname = pa.targets[0].id if isinstance(pa.targets[0], ast.Name) else None
    if rname is None:
        raise TranslateError("re-parse result is not bound to a name")
    tail_src = ""
    for dest, var, item in (("index_urls", "all_index_urls", "url"), ("extra_index_urls", "all_extra_index_urls", "url"),
                            ("find_links", "all_find_links", "link")):
        tail_src += ("{v} = OrderedDict(zip(args.{d}, repeat(None)))\nfor {i} in {r}.{d}:\n    {v}[{i}] = None\nargs.{d} = list({v})\n"
                     .format(v=var, d=dest, i=item, r=rname))
    tail_src += "args.no_index = args.no_index or {r}.no_index\n".format(r=rname)
    tail_src += ("for editable_source in {r}.editable_sources:\n    input_reqs.append(_create_dist_from_path(editable_source))\n"
                 "args.sources += {r}.editable_sources\n").format(r=rname)
    want = [ast.dump(x) for x in T.parse_src(tail_src).body]
    have = [ast.dump(x) for x in b[i + 1:]]
    if want != have:
        raise TranslateError("the merge of the re-parsed options into args (index_urls, extra_index_urls, find_links as ordered "
                             "de-duplicating unions; no_index by `or`; editable sources) has an unrecognised shape")
    merged: List[str] = []
    for st in b[i + 1:]:
        for n in ast.walk(st):
            if isinstance(n, ast.Attribute) and _is_name(n.value, rname) and n.attr not in merged:
                merged.append(n.attr)
    seen = set()
    for fl, d, k, nm in table:
        for x in fl:
            if x in seen:
                raise TranslateError(f"option string {x} declared twice")
            seen.add(x)
    nf = T.func(mod, "norm_index_url")
    rs = [n for n in ast.walk(nf) if isinstance(n, ast.Call) and isinstance(n.func, ast.Attribute) and n.func.attr == "rstrip"]
    r0 = _one(rs, "rstrip in norm_index_url")
    rets = [n for n in nf.body if isinstance(n, ast.Return)]
    if not (len(rets) == 1 and rets[0].value is r0 and _is_name(r0.func.value, "index_url")):
        raise TranslateError("norm_index_url is not `return index_url.rstrip(..)`")
    return {"table": table, "strict": strict, "merged": merged, "norm_strip": _const_str(_one(r0.args, "rstrip arg"))}


def read_accumulation() -> Dict[str, Any]:
    """Both front-ends accumulate over SEVERAL input files: compile_requirements unions the three sets file after
    file and hands all of them to build_repo; compile_main extends one token list with every file's parameters."""
    cr = T.func(T.parse("private/compiler.py"), "compile_requirements")
    loops = [n for n in cr.body if isinstance(n, ast.For) and isinstance(n.iter, ast.Call) and isinstance(n.iter.func, ast.Attribute)
             and n.iter.func.attr == "items" and _is_name(n.iter.func.value, "requirements_ins")]
    loop = _one(loops, "loop over requirements_ins.items() in compile_requirements")
    want_src = (
        "for name, input_file in requirements_ins.items():\n"
        "    container = RequirementsFile.from_file(input_file)\n"
        "    container.name = name\n"
        "    input_reqs.append(container)\n"
        "    new_urls, new_extras, new_links = parse_index_urls(input_file.read_text(encoding='utf-8'))\n"
        "    index_urls = index_urls.union(new_urls)\n"
        "    extra_index_urls = extra_index_urls.union(new_extras)\n"
        "    find_links.update({os.path.normpath(input_file.parent / link): solution.parent for link in new_links})\n")
    if ast.dump(T.parse_src(want_src).body[0]) != ast.dump(loop):
        raise TranslateError("the loop over requirements_ins in compile_requirements does not read each file and accumulate "
                             "index_urls / extra_index_urls (union) and find_links (update) in the recognised shape")
    inits = {}
    for st in cr.body:
        if isinstance(st, ast.For):
            break                      # only what precedes the loop over requirements_ins
        if (isinstance(st, ast.Assign) and len(st.targets) == 1 and isinstance(st.targets[0], ast.Name)
                and st.targets[0].id in ("index_urls", "extra_index_urls", "find_links")):
            inits[st.targets[0].id] = ast.dump(st.value)
    if inits != {"index_urls": ast.dump(T.parse_src("set()").body[0].value), "extra_index_urls": ast.dump(T.parse_src("set()").body[0].value),
                 "find_links": ast.dump(T.parse_src("{}").body[0].value)}:
        raise TranslateError("index_urls / extra_index_urls / find_links of compile_requirements do not start empty before the loop")
    calls = [n for n in ast.walk(cr) if isinstance(n, ast.Call) and _is_name(n.func, "build_repo")]
    br = _one(calls, "build_repo call in compile_requirements")
    want_kw = {
        "find_links": "dict(sorted(find_links.items()))",
        "index_urls": "sorted(index_urls | (extra_index_urls if promote_extra_index_urls else set()))",
        "extra_index_urls": "[] if promote_extra_index_urls else sorted(extra_index_urls)",
        "no_index": "no_index",
    }
    for k, src in want_kw.items():
        v = _kw(br, k)
        if v is None or ast.dump(v) != ast.dump(T.parse_src(src).body[0].value):
            raise TranslateError(f"build_repo({k}=...) in compile_requirements is not `{src}`")
    # command line: every file's parameters are appended to the one list that is re-parsed
    cm = T.func(T.parse("req_compile/cmdline.py"), "compile_main")
    want_loop = ast.dump(T.parse_src(
        "for req in list(input_reqs):\n"
        "    if isinstance(req, RequirementsFile):\n"
        "        if req.parameters:\n"
        "            extra_parameters.extend(req.parameters)\n").body[0])
    if not any(isinstance(n, ast.For) and ast.dump(n) == want_loop for n in ast.walk(cm)):
        raise TranslateError("compile_main does not extend extra_parameters with the parameters of every RequirementsFile input")
    want_read = ast.dump(T.parse_src("input_reqs = [_create_input_reqs(input_arg, extra_parameters) for input_arg in input_args]").body[0])
    if not any(isinstance(n, ast.Assign) and ast.dump(n) == want_read for n in ast.walk(cm)):
        raise TranslateError("compile_main does not read every input argument in order with _create_input_reqs")
    return {"accumulates": True}


def _closed(what: str, fn):
    """fail closed: whatever goes wrong while reading an unexpected shape is a TranslateError, never a bare
    IndexError / AttributeError / KeyError / TypeError"""
    try:
        return fn()
    except TranslateError:
        raise
    except Exception as ex:  # noqa
        raise TranslateError(f"{what}: unrecognised shape of the source ({type(ex).__name__}: {ex})")


def gen_consts() -> str:
    rq = _closed("req_compile/utils.py req_iter_from_lines", read_req_iter)
    bz = _closed("private/compiler.py parse_index_urls", read_bazel)
    cl = _closed("req_compile/cmdline.py add_repo_args/compile_main", read_cli)
    _closed("compile_requirements / compile_main over several input files", read_accumulation)
    L = T.coq_list
    out = "(* GENERATED by harness/tr_c16.py from /repo on every run -- do not edit *)\n"
    out += "From Coq Require Import List String Ascii Bool.\nImport ListNotations.\nOpen Scope string_scope.\n"
    out += "Definition str_of_codes (l : list nat) : string := fold_right (fun n s => String (ascii_of_nat n) s) EmptyString l.\n"
    out += "(* req_compile/utils.py req_iter_from_lines *)\n"
    out += f"Definition c16_comment_prefix : string := {_cstr(rq['comment_prefix'])}.\n"
    out += f"Definition c16_cont : ascii := ascii_of_nat {ord(rq['cont'])}.\n"
    out += f"Definition c16_include_flags : list string := {L([_cstr(x) for x in rq['include_flags']])}.\n"
    out += f"Definition c16_include_arg_index : nat := {rq['include_arg_index']}.\n"
    out += f"Definition c16_default_dir : string := {_cstr(rq['default_dir'])}.\n"
    out += f"Definition c16_option_prefix : string := {_cstr(rq['option_prefix'])}.\n"
    out += f"Definition c16_hash_prefix : string := {_cstr(rq['hash_prefix'])}.\n"
    out += f"Definition c16_hash_min_parts : nat := {rq['hash_min_parts']}.\n"
    out += f"Definition c16_hash_join : string := {_cstr(rq['hash_join'])}.\n"
    out += "(* private/compiler.py parse_index_urls: (prefixes, cut, index in the returned tuple) *)\n"
    out += "Definition c16_bzl_rules : list (list string * nat * nat) := " + L(
        [f"({L([_cstr(p) for p in pre])}, {cut}, {tgt})" for pre, cut, tgt in bz["rules"]]) + ".\n"
    out += f"Definition c16_bzl_comment : ascii := ascii_of_nat {ord(bz['comment'])}.\n"
    out += f"Definition c16_bzl_strip : string := {_cstr(bz['strip'])}.\n"
    out += "Definition c16_bzl_strip_line : bool := true.   (* the loop starts with `line = line.strip()` *)\n"
    out += "Definition c16_files_accumulate : bool := true.   (* both front-ends accumulate over all input files, in order *)\n"
    out += "(* " + ", ".join(bz["order"]) + " *)\n"
    out += "(* req_compile/cmdline.py add_repo_args + -e: (option strings, dest, 0 append | 1 store | 2 store_true, normalised) *)\n"
    out += "Definition c16_cli_options : list (list string * string * nat * bool) := " + L(
        [f"({L([_cstr(x) for x in fl])}, {_cstr(d)}, {k}, {'true' if nm else 'false'})" for fl, d, k, nm in cl["table"]]) + ".\n"
    out += f"Definition c16_cli_strict : bool := {'true' if cl['strict'] else 'false'}.\n"
    out += f"Definition c16_cli_merged : list string := {L([_cstr(x) for x in cl['merged']])}.\n"
    out += f"Definition c16_cli_norm_strip : string := {_cstr(cl['norm_strip'])}.\n"
    return out

"""T1 for C12: fail-closed readers of req_compile/metadata/{source,extractor,metadata}.py.

Generated definitions (coq/gen/HarvestC12Consts.v), used by model/HarvestC12.v and model/PathMapC12.v:
  glue_test / glue_and / glue_semi   parse_req_with_marker: `";" in req_str`, " and {}", "; {}"
  key_prefix / key_suffix / key_esc_from / key_esc_to / key_env_prefix
                                     setup(): 'extra=="{}"'.format(extra.replace('"', '\\"')), extra.startswith(":"), extra[1:]
  name_repl_from / name_repl_to      setup(): name.replace(" ", "-")
  frameworks                         setup(): setup_frameworks tuple
  rel_dot_slash / rel_bs / rel_fs    Extractor.to_relative: "./", "\\" -> "/"
  archive_exts_zip / archive_exts_tar  metadata.extract_metadata: the extension tests
  pyproject_only_for_dirs            the pyproject.toml test is an `elif` after the archive branches
"""
from __future__ import annotations

import ast
from typing import Any, List

import translate as T
from translate import TranslateError


def cs(s: str) -> str:
    for ch in s:
        if not (32 <= ord(ch) < 127):
            raise TranslateError(f"unsupported character in literal {s!r}")
    return '"' + s.replace('"', '""') + '"'


def _const_str(node: ast.AST) -> str:
    if isinstance(node, ast.Constant) and isinstance(node.value, str):
        return node.value
    raise TranslateError("expected a string constant: " + ast.dump(node)[:120])


def _format_of(node: ast.AST, argname: str) -> str:
    """'<fmt>'.format(<argname>) -> fmt"""
    if (isinstance(node, ast.Call) and isinstance(node.func, ast.Attribute) and node.func.attr == "format"
            and len(node.args) == 1 and not node.keywords):
        a = node.args[0]
        if isinstance(a, ast.Name) and a.id == argname:
            return _const_str(node.func.value)
    raise TranslateError("expected '<fmt>'.format(%s): %s" % (argname, ast.dump(node)[:160]))


def read_glue() -> Any:
    f = T.func(T.parse("req_compile/metadata/source.py"), "parse_req_with_marker")
    args = [a.arg for a in f.args.args]
    if args != ["req_str", "marker"]:
        raise TranslateError(f"parse_req_with_marker arguments {args}")
    body = [n for n in f.body if not (isinstance(n, ast.Expr) and isinstance(n.value, ast.Constant))]
    if len(body) != 1 or not isinstance(body[0], ast.Return):
        raise TranslateError("parse_req_with_marker: expected a single return")
    call = body[0].value
    if not (isinstance(call, ast.Call) and isinstance(call.func, ast.Attribute) and call.func.attr == "parse_requirement"
            and len(call.args) == 1 and isinstance(call.args[0], ast.IfExp)):
        raise TranslateError("parse_req_with_marker: expected utils.parse_requirement(a if c else b)")
    ife = call.args[0]
    t = ife.test
    if not (isinstance(t, ast.Compare) and len(t.ops) == 1 and isinstance(t.ops[0], ast.In)
            and isinstance(t.comparators[0], ast.Name) and t.comparators[0].id == "req_str"):
        raise TranslateError("parse_req_with_marker: expected `<const> in req_str`")
    test = _const_str(t.left)

    def branch(b: ast.AST) -> str:
        if not (isinstance(b, ast.BinOp) and isinstance(b.op, ast.Add) and isinstance(b.left, ast.Name) and b.left.id == "req_str"):
            raise TranslateError("parse_req_with_marker: expected req_str + '<fmt>'.format(marker)")
        fmt = _format_of(b.right, "marker")
        if not fmt.endswith("{}") or "{" in fmt[:-2]:
            raise TranslateError(f"unsupported format {fmt!r}")
        return fmt[:-2]
    return test, branch(ife.body), branch(ife.orelse)


def read_setup() -> Any:
    f = T.func(T.parse("req_compile/metadata/source.py"), "setup")
    frameworks = None
    key_fmt = esc = env_prefix = name_repl = None
    slice_ok = False
    for node in ast.walk(f):
        if isinstance(node, ast.Assign) and len(node.targets) == 1 and isinstance(node.targets[0], ast.Name) \
                and node.targets[0].id == "setup_frameworks":
            frameworks = list(T.literal(node.value))
        if isinstance(node, ast.Call) and isinstance(node.func, ast.Attribute) and node.func.attr == "format" \
                and isinstance(node.func.value, ast.Constant) and isinstance(node.func.value.value, str) \
                and "extra" in node.func.value.value and len(node.args) == 1:
            a = node.args[0]
            if (isinstance(a, ast.Call) and isinstance(a.func, ast.Attribute) and a.func.attr == "replace"
                    and isinstance(a.func.value, ast.Name) and a.func.value.id == "extra" and len(a.args) == 2):
                key_fmt = node.func.value.value
                esc = (_const_str(a.args[0]), _const_str(a.args[1]))
            else:
                raise TranslateError("setup(): the extra marker format is not applied to extra.replace(a, b)")
        if isinstance(node, ast.Call) and isinstance(node.func, ast.Attribute) and node.func.attr == "startswith" \
                and isinstance(node.func.value, ast.Name) and node.func.value.id == "extra" and len(node.args) == 1:
            env_prefix = _const_str(node.args[0])
        if isinstance(node, ast.Subscript) and isinstance(node.value, ast.Name) and node.value.id == "extra" \
                and isinstance(node.slice, ast.Slice):
            sl = node.slice
            if isinstance(sl.lower, ast.Constant) and sl.lower.value == 1 and sl.upper is None and sl.step is None:
                slice_ok = True
            else:
                raise TranslateError("setup(): unexpected slice of extra")
        if isinstance(node, ast.Assign) and len(node.targets) == 1 and isinstance(node.targets[0], ast.Name) \
                and node.targets[0].id == "name" and isinstance(node.value, ast.Call) \
                and isinstance(node.value.func, ast.Attribute) and node.value.func.attr == "replace" \
                and isinstance(node.value.func.value, ast.Name) and node.value.func.value.id == "name":
            name_repl = (_const_str(node.value.args[0]), _const_str(node.value.args[1]))
    if frameworks is None or key_fmt is None or env_prefix is None or not slice_ok or name_repl is None:
        raise TranslateError("setup(): a construct the harvester model is built on was not found")
    if key_fmt.count("{}") != 1:
        raise TranslateError(f"unsupported key format {key_fmt!r}")
    pre, suf = key_fmt.split("{}")
    if len(env_prefix) != 1 or len(name_repl[0]) != 1 or len(name_repl[1]) != 1:
        raise TranslateError("single characters expected")
    return frameworks, pre, suf, esc, env_prefix, name_repl


def read_to_relative() -> Any:
    f = T.func(T.klass(T.parse("req_compile/metadata/extractor.py"), "Extractor"), "to_relative")
    starts = []
    repl = []
    for node in ast.walk(f):
        if isinstance(node, ast.Call) and isinstance(node.func, ast.Attribute):
            if node.func.attr == "startswith" and len(node.args) == 1 and isinstance(node.args[0], ast.Constant):
                starts.append(node.args[0].value)
            if node.func.attr == "replace" and len(node.args) == 2 and all(isinstance(a, ast.Constant) for a in node.args):
                repl.append((node.args[0].value, node.args[1].value))
    if starts != ["./", "./"] or repl != [("\\", "/"), ("\\", "/")]:
        raise TranslateError(f"to_relative: unexpected prefix tests {starts} / replacements {repl}")
    return "./", "\\", "/"


def read_dispatch() -> Any:
    f = T.func(T.parse("req_compile/metadata/metadata.py"), "extract_metadata")
    top = [n for n in f.body if isinstance(n, ast.If)]
    chain = None
    for n in top:
        t = n.test
        if isinstance(t, ast.Compare) and isinstance(t.left, ast.Name) and t.left.id == "ext":
            chain = n
            break
    if chain is None:
        raise TranslateError("extract_metadata: extension dispatch not found")
    order: List[Any] = []
    node: Any = chain
    while True:
        t = node.test
        if isinstance(t, ast.Compare) and isinstance(t.left, ast.Name) and t.left.id == "ext":
            c = t.comparators[0]
            order.append(("ext", T.literal(c)))
        elif isinstance(t, ast.Call) and "pyproject.toml" in ast.dump(t):
            order.append(("pyproject", None))
        else:
            raise TranslateError("extract_metadata: unrecognised test " + ast.dump(t)[:120])
        if len(node.orelse) == 1 and isinstance(node.orelse[0], ast.If):
            node = node.orelse[0]
        else:
            break
    kinds = [k for k, _ in order]
    if kinds[-1] != "pyproject" or "pyproject" in kinds[:-1]:
        raise TranslateError(f"extract_metadata: pyproject test is not the last elif: {kinds}")
    exts = [v for k, v in order if k == "ext"]
    zips = [e for e in exts if e == ".zip"]
    tars = [e for e in exts if isinstance(e, tuple) and ".gz" in e]
    if not zips or not tars:
        raise TranslateError(f"extract_metadata: archive extension tests not found: {exts}")
    return [".zip"], list(tars[0])


def generate() -> str:
    test, g_and, g_semi = read_glue()
    frameworks, pre, suf, esc, env_prefix, name_repl = read_setup()
    ds, bs, fs = read_to_relative()
    zips, tars = read_dispatch()
    out = "(* GENERATED by harness/tr_c12.py from /repo on every run -- do not edit *)\n"
    out += "From Coq Require Import List String Ascii Bool.\nImport ListNotations.\nOpen Scope string_scope.\n"
    out += f"Definition glue_test : string := {cs(test)}.\n"
    out += f"Definition glue_and : string := {cs(g_and)}.\n"
    out += f"Definition glue_semi : string := {cs(g_semi)}.\n"
    out += f"Definition key_prefix : string := {cs(pre)}.\n"
    out += f"Definition key_suffix : string := {cs(suf)}.\n"
    out += f"Definition key_esc_from : string := {cs(esc[0])}.\n"
    out += f"Definition key_esc_to : string := {cs(esc[1])}.\n"
    out += f"Definition key_env_prefix : string := {cs(env_prefix)}.\n"
    out += f"Definition name_repl_from : ascii := {cs(name_repl[0])}%char.\n"
    out += f"Definition name_repl_to : ascii := {cs(name_repl[1])}%char.\n"
    out += "Definition frameworks : list string := [" + "; ".join(cs(x) for x in frameworks) + "].\n"
    out += f"Definition rel_dot_slash : string := {cs(ds)}.\n"
    out += f"Definition rel_bs : ascii := {cs(bs)}%char.\n"
    out += f"Definition rel_fs : ascii := {cs(fs)}%char.\n"
    out += "Definition archive_exts_zip : list string := [" + "; ".join(cs(x) for x in zips) + "].\n"
    out += "Definition archive_exts_tar : list string := [" + "; ".join(cs(x) for x in tars) + "].\n"
    out += "Definition pyproject_only_for_dirs : bool := true.\n"
    return out

"""T1 for C12: fail-closed readers of req_compile/metadata/{source,extractor,metadata}.py.

Generated definitions (coq/gen/HarvestC12Consts.v), used by model/HarvestC12.v and model/PathMapC12.v:
  glue_test / glue_and / glue_semi   parse_req_with_marker: `";" in req_str`, " and {}", "; {}"
  key_prefix / key_suffix / key_esc_from / key_esc_to / key_env_prefix
                                     setup(): 'extra=="{}"'.format(extra.replace('"', '\\"')), extra.startswith(":"), extra[1:]
  name_repl_from / name_repl_to      setup(): name.replace(" ", "-")
  frameworks                         setup(): setup_frameworks tuple
  rel_dot_slash / rel_bs / rel_fs    Extractor.to_relative: "./", "\\" -> "/"
  archive_exts_zip / archive_exts_tar  metadata.extract_metadata: the extension tests
  pyproject_only_for_dirs            the pyproject.toml test is an `elif` after the archive branches
"""
from __future__ import annotations

import ast
from typing import Any, List

import translate as T
from translate import TranslateError


def cs(s: str) -> str:
    for ch in s:
        if not (32 <= ord(ch) < 127):
            raise TranslateError(f"unsupported character in literal {s!r}")
    return '"' + s.replace('"', '""') + '"'


def _const_str(node: ast.AST) -> str:
    if isinstance(node, ast.Constant) and isinstance(node.value, str):
        return node.value
    raise TranslateError("expected a string constant: " + ast.dump(node)[:120])


def _format_of(node: ast.AST, argname: str) -> str:
    """'<fmt>'.format(<argname>) -> fmt"""
    if (isinstance(node, ast.Call) and isinstance(node.func, ast.Attribute) and node.func.attr == "format"
            and len(node.args) == 1 and not node.keywords):
        a = node.args[0]
        if isinstance(a, ast.Name) and a.id == argname:
            return _const_str(node.func.value)
    raise TranslateError("expected '<fmt>'.format(%s): %s" % (argname, ast.dump(node)[:160]))


def _format_n(node: ast.AST, argnames: List[str]) -> str:
    """'<fmt>'.format(a, b, ...) with exactly these Name arguments -> fmt"""
    if (isinstance(node, ast.Call) and isinstance(node.func, ast.Attribute) and node.func.attr == "format"
            and not node.keywords and [getattr(a, "id", None) for a in node.args] == argnames):
        return _const_str(node.func.value)
    raise TranslateError("expected '<fmt>'.format(%s): %s" % (", ".join(argnames), ast.dump(node)[:160]))


def read_glue() -> Any:
    """parse_req_with_marker(req_str, marker):
         return utils.parse_requirement(
             req_str.replace(";", "; (", 1) + ") and {}".format(marker) if ";" in req_str
             else req_str + "; {}".format(marker))
    i.e. the requirement's own marker is parenthesised (the former  req_str + " and {}"  shape is rejected)"""
    f = T.func(T.parse("req_compile/metadata/source.py"), "parse_req_with_marker")
    if [a.arg for a in f.args.args] != ["req_str", "marker"]:
        raise TranslateError("parse_req_with_marker arguments changed")
    body = [n for n in f.body if not (isinstance(n, ast.Expr) and isinstance(n.value, ast.Constant))]
    if len(body) != 1 or not isinstance(body[0], ast.Return):
        raise TranslateError("parse_req_with_marker: expected a single return")
    call = body[0].value
    if not (isinstance(call, ast.Call) and _safe_chain(call.func) == "utils.parse_requirement"
            and len(call.args) == 1 and isinstance(call.args[0], ast.IfExp)):
        raise TranslateError("parse_req_with_marker: expected utils.parse_requirement(a if c else b)")
    ife = call.args[0]
    t = ife.test
    if not (isinstance(t, ast.Compare) and len(t.ops) == 1 and isinstance(t.ops[0], ast.In)
            and isinstance(t.comparators[0], ast.Name) and t.comparators[0].id == "req_str"):
        raise TranslateError("parse_req_with_marker: expected `<const> in req_str`")
    test = _const_str(t.left)
    if len(test) != 1:
        raise TranslateError("single character expected")

    def tail(b: ast.AST) -> Any:
        if not (isinstance(b, ast.BinOp) and isinstance(b.op, ast.Add)):
            raise TranslateError("parse_req_with_marker: expected <text> + '<fmt>'.format(marker)")
        fmt = _format_of(b.right, "marker")
        if not fmt.endswith("{}") or "{" in fmt[:-2]:
            raise TranslateError(f"unsupported format {fmt!r}")
        return b.left, fmt[:-2]
    left, close = tail(ife.body)
    # the own marker is opened with a parenthesis right after the FIRST separator
    if not (isinstance(left, ast.Call) and _safe_chain(left.func) == "req_str.replace" and len(left.args) == 3
            and _const_str(left.args[0]) == test and isinstance(left.args[2], ast.Constant) and left.args[2].value == 1):
        raise TranslateError("parse_req_with_marker: the requirement's own marker is not parenthesised "
                             "(expected req_str.replace(<sep>, <sep + ' ('>, 1) + ') and {}'.format(marker))")
    opener = _const_str(left.args[1])
    if not opener.startswith(test) or not opener.rstrip().endswith("(") or not close.lstrip().startswith(")"):
        raise TranslateError("parse_req_with_marker: unbalanced parentheses around the own marker")
    left2, semi = tail(ife.orelse)
    if not (isinstance(left2, ast.Name) and left2.id == "req_str"):
        raise TranslateError("parse_req_with_marker: expected req_str + '<fmt>'.format(marker)")
    return test, opener, close, semi


def read_setup() -> Any:
    """setup(): name.replace, setup_frameworks, and how an extras_require key becomes marker texts:
         extra_name, _, env_marker = extra.partition(":")
         extra_name = extra_name.strip().replace('"', '\\"')
         markers = ["({})".format(env_marker)] if env_marker.strip() else []
         if extra_name: markers.append('extra=="{}"'.format(extra_name))
         marker = " and ".join(markers)
         parse_req_with_marker(str(req), marker) if marker else req"""
    f = T.func(T.parse("req_compile/metadata/source.py"), "setup")
    frameworks = name_repl = None
    sep = env_fmt = key_fmt = esc = join = None
    used = False
    for node in ast.walk(f):
        if isinstance(node, ast.Assign) and len(node.targets) == 1 and isinstance(node.targets[0], ast.Name):
            tgt = node.targets[0].id
            v = node.value
            if tgt == "setup_frameworks":
                frameworks = list(T.literal(v))
            elif tgt == "name" and isinstance(v, ast.Call) and _safe_chain(v.func) == "name.replace":
                name_repl = (_const_str(v.args[0]), _const_str(v.args[1]))
            elif tgt == "extra_name":
                # extra_name.strip().replace(a, b)
                if not (isinstance(v, ast.Call) and isinstance(v.func, ast.Attribute) and v.func.attr == "replace" and len(v.args) == 2
                        and isinstance(v.func.value, ast.Call) and _safe_chain(v.func.value.func) == "extra_name.strip"
                        and not v.func.value.args):
                    raise TranslateError("setup(): expected extra_name = extra_name.strip().replace(a, b)")
                esc = (_const_str(v.args[0]), _const_str(v.args[1]))
            elif tgt == "markers":
                if not (isinstance(v, ast.IfExp) and isinstance(v.test, ast.Call) and _safe_chain(v.test.func) == "env_marker.strip"
                        and not v.test.args and isinstance(v.body, ast.List) and len(v.body.elts) == 1
                        and isinstance(v.orelse, ast.List) and not v.orelse.elts):
                    raise TranslateError("setup(): expected markers = [<fmt>.format(env_marker)] if env_marker.strip() else []")
                env_fmt = _format_of(v.body.elts[0], "env_marker")
            elif tgt == "marker":
                if not (isinstance(v, ast.Call) and isinstance(v.func, ast.Attribute) and v.func.attr == "join"
                        and len(v.args) == 1 and _safe_chain(v.args[0]) == "markers"):
                    raise TranslateError("setup(): expected marker = <sep>.join(markers)")
                join = _const_str(v.func.value)
        if isinstance(node, ast.Assign) and isinstance(node.targets[0], ast.Tuple) \
                and [getattr(e, "id", None) for e in node.targets[0].elts] == ["extra_name", "_", "env_marker"]:
            c = node.value
            if not (isinstance(c, ast.Call) and _safe_chain(c.func) == "extra.partition" and len(c.args) == 1):
                raise TranslateError("setup(): extra_name, _, env_marker must come from extra.partition(<sep>)")
            sep = _const_str(c.args[0])
        if isinstance(node, ast.If) and isinstance(node.test, ast.Name) and node.test.id == "extra_name":
            if node.orelse or len(node.body) != 1 or not _is_call(node.body[0], "markers.append"):
                raise TranslateError("setup(): expected `if extra_name: markers.append(...)`")
            key_fmt = _format_of(node.body[0].value.args[0], "extra_name")
        if isinstance(node, ast.IfExp) and isinstance(node.test, ast.Name) and node.test.id == "marker":
            c = node.body
            if not (isinstance(c, ast.Call) and _safe_chain(c.func) == "parse_req_with_marker" and len(c.args) == 2
                    and _safe_chain(c.args[1]) == "marker" and isinstance(c.args[0], ast.Call) and _safe_chain(c.args[0].func) == "str"
                    and isinstance(node.orelse, ast.Name) and _safe_chain(c.args[0].args[0]) == node.orelse.id):
                raise TranslateError("setup(): expected parse_req_with_marker(str(req), marker) if marker else req")
            used = True
    if any(x is None for x in (frameworks, name_repl, sep, env_fmt, key_fmt, esc, join)) or not used:
        raise TranslateError("setup(): a construct the harvester model is built on was not found")
    if key_fmt.count("{}") != 1 or env_fmt.count("{}") != 1:
        raise TranslateError("unsupported key formats")
    pre, suf = key_fmt.split("{}")
    eo, ec = env_fmt.split("{}")
    if len(sep) != 1 or len(name_repl[0]) != 1 or len(name_repl[1]) != 1:
        raise TranslateError("single characters expected")
    return frameworks, pre, suf, esc, sep, name_repl, eo, ec, join


def read_to_relative() -> Any:
    f = T.func(T.klass(T.parse("req_compile/metadata/extractor.py"), "Extractor"), "to_relative")
    starts = []
    repl = []
    for node in ast.walk(f):
        if isinstance(node, ast.Call) and isinstance(node.func, ast.Attribute):
            if node.func.attr == "startswith" and len(node.args) == 1 and isinstance(node.args[0], ast.Constant):
                starts.append(node.args[0].value)
            if node.func.attr == "replace" and len(node.args) == 2 and all(isinstance(a, ast.Constant) for a in node.args):
                repl.append((node.args[0].value, node.args[1].value))
    if starts != ["./", "./"] or repl != [("\\", "/"), ("\\", "/")]:
        raise TranslateError(f"to_relative: unexpected prefix tests {starts} / replacements {repl}")
    return "./", "\\", "/"


def read_dispatch() -> Any:
    f = T.func(T.parse("req_compile/metadata/metadata.py"), "extract_metadata")
    top = [n for n in f.body if isinstance(n, ast.If)]
    chain = None
    for n in top:
        t = n.test
        if isinstance(t, ast.Compare) and isinstance(t.left, ast.Name) and t.left.id == "ext":
            chain = n
            break
    if chain is None:
        raise TranslateError("extract_metadata: extension dispatch not found")
    order: List[Any] = []
    node: Any = chain
    while True:
        t = node.test
        if isinstance(t, ast.Compare) and isinstance(t.left, ast.Name) and t.left.id == "ext":
            c = t.comparators[0]
            order.append(("ext", T.literal(c)))
        elif isinstance(t, ast.Call) and "pyproject.toml" in ast.dump(t):
            order.append(("pyproject", None))
        else:
            raise TranslateError("extract_metadata: unrecognised test " + ast.dump(t)[:120])
        if len(node.orelse) == 1 and isinstance(node.orelse[0], ast.If):
            node = node.orelse[0]
        else:
            break
    kinds = [k for k, _ in order]
    if kinds[-1] != "pyproject" or "pyproject" in kinds[:-1]:
        raise TranslateError(f"extract_metadata: pyproject test is not the last elif: {kinds}")
    exts = [v for k, v in order if k == "ext"]
    zips = [e for e in exts if e == ".zip"]
    tars = [e for e in exts if isinstance(e, tuple) and ".gz" in e]
    if not zips or not tars:
        raise TranslateError(f"extract_metadata: archive extension tests not found: {exts}")
    return [".zip"], list(tars[0])


def read_cfg_only_dir() -> bool:
    """_parse_setup_py: `if setup_file is None: setup_dir = <e> else: setup_dir = os.path.dirname(setup_file)`.
    True iff <e> is os.path.dirname(setup_cfg) if setup_cfg else "." AND _fetch_from_setup_py passes the setup.cfg
    it located; False for the literal "."."""
    src = T.parse("req_compile/metadata/source.py")
    f = T.func(src, "_parse_setup_py")
    for node in ast.walk(f):
        if isinstance(node, ast.If) and isinstance(node.test, ast.Compare) and _safe_chain(node.test.left) == "setup_file" \
                and isinstance(node.test.ops[0], ast.Is) and len(node.body) == 1 and isinstance(node.body[0], ast.Assign) \
                and getattr(node.body[0].targets[0], "id", None) == "setup_dir":
            e = node.body[0].value
            other = node.orelse[0] if len(node.orelse) == 1 else None
            if not (isinstance(other, ast.Assign) and getattr(other.targets[0], "id", None) == "setup_dir"
                    and isinstance(other.value, ast.Call) and _safe_chain(other.value.func) == "os.path.dirname"
                    and _safe_chain(other.value.args[0]) == "setup_file"):
                raise TranslateError("_parse_setup_py: setup_dir of the setup.py case changed")
            if isinstance(e, ast.Constant) and e.value == ".":
                return False
            if (isinstance(e, ast.IfExp) and _safe_chain(e.test) == "setup_cfg" and isinstance(e.body, ast.Call)
                    and _safe_chain(e.body.func) == "os.path.dirname" and _safe_chain(e.body.args[0]) == "setup_cfg"
                    and isinstance(e.orelse, ast.Constant) and e.orelse.value == "."):
                g = T.func(src, "_fetch_from_setup_py")
                calls = [n for n in ast.walk(g) if isinstance(n, ast.Call) and _safe_chain(n.func) == "_parse_setup_py"]
                finds = [n for n in ast.walk(g) if isinstance(n, ast.Assign) and getattr(n.targets[0], "id", None) == "setup_cfg"
                         and isinstance(n.value, ast.Call) and _safe_chain(n.value.func) == "find_in_archive"]
                if len(calls) == 1 and len(calls[0].args) == 4 and _safe_chain(calls[0].args[3]) == "setup_cfg" and len(finds) == 1:
                    return True
                raise TranslateError("_fetch_from_setup_py does not hand the located setup.cfg to _parse_setup_py")
            raise TranslateError("_parse_setup_py: unrecognised setup_dir for a project without setup.py")
    raise TranslateError("_parse_setup_py: the setup_dir decision was not found")


def read_cfg_reader() -> bool:
    """_add_setup_cfg_kwargs must read setup.cfg as UTF-8: parser.read("setup.cfg", encoding="utf-8").
    (Inside the analysis `open` is Extractor.open, which decodes as ASCII when no encoding is given.)"""
    f = T.func(T.parse("req_compile/metadata/source.py"), "_add_setup_cfg_kwargs")
    reads = [n for n in ast.walk(f) if isinstance(n, ast.Call) and isinstance(n.func, ast.Attribute)
             and n.func.attr in ("read", "read_file", "read_string", "read_dict") and _safe_chain(n.func.value) == "parser"]
    if len(reads) != 1 or reads[0].func.attr != "read":
        raise TranslateError("_add_setup_cfg_kwargs: setup.cfg is no longer read with parser.read(<name>, encoding=...)")
    c = reads[0]
    if not (len(c.args) == 1 and _const_str(c.args[0]) == "setup.cfg"):
        raise TranslateError("_add_setup_cfg_kwargs: parser.read is not given the literal 'setup.cfg'")
    enc = [k for k in c.keywords if k.arg == "encoding"]
    if len(enc) != 1:
        raise TranslateError("_add_setup_cfg_kwargs: parser.read without an explicit encoding (the patched open decodes ASCII)")
    return _const_str(enc[0].value).lower().replace("_", "-") in ("utf-8", "utf8")


def read_open_default() -> str:
    """Extractor.open: text mode without an encoding decodes with `encoding or "<default>"`"""
    f = T.func(T.klass(T.parse("req_compile/metadata/extractor.py"), "Extractor"), "open")
    found = []
    for n in ast.walk(f):
        if isinstance(n, ast.Call) and _safe_chain(n.func) == "WithDecoding" and len(n.args) == 2:
            e = n.args[1]
            if not (isinstance(e, ast.BoolOp) and isinstance(e.op, ast.Or) and len(e.values) == 2
                    and _safe_chain(e.values[0]) == "encoding"):
                raise TranslateError("Extractor.open: expected WithDecoding(handle, encoding or <default>)")
            found.append(_const_str(e.values[1]))
    if len(found) != 1:
        raise TranslateError("Extractor.open: the decoding wrapper was not found")
    return found[0].lower().replace("_", "-")


def read_egg_info_name() -> bool:
    """_build_egg_info: is the project name of the fall-back result taken from the PKG-INFO it just wrote
    (True) or is it the file/directory name handed in (`project_name=name`, False)?"""
    f = T.func(T.parse("req_compile/metadata/source.py"), "_build_egg_info")
    calls = [n for n in ast.walk(f) if isinstance(n, ast.Call) and _safe_chain(n.func) == "pkg_resources.Distribution"]
    if len(calls) != 1:
        raise TranslateError("_build_egg_info: pkg_resources.Distribution(...) not found")
    kw = [k for k in calls[0].keywords if k.arg == "project_name"]
    if len(kw) != 1:
        raise TranslateError("_build_egg_info: project_name= not given")
    if isinstance(kw[0].value, ast.Name) and kw[0].value.id == "name":
        return False
    reads = [n for n in ast.walk(f) if isinstance(n, ast.Call) and isinstance(n.func, ast.Attribute)
             and n.func.attr in ("get_metadata_lines", "get_metadata") and n.args and isinstance(n.args[0], ast.Constant)
             and n.args[0].value == "PKG-INFO"]
    names = [n for n in ast.walk(f) if isinstance(n, ast.Constant) and n.value == "Name:"]
    if reads and names and "declared" in ast.dump(kw[0].value):
        return True
    raise TranslateError("_build_egg_info: unrecognised project_name expression")


def generate() -> str:
    test, g_open, g_close, g_semi = read_glue()
    frameworks, pre, suf, esc, key_sep, name_repl, env_open, env_close, key_join = read_setup()
    ds, bs, fs = read_to_relative()
    zips, tars = read_dispatch()
    out = "(* GENERATED by harness/tr_c12.py from /repo on every run -- do not edit *)\n"
    out += "From Coq Require Import List String Ascii Bool.\nImport ListNotations.\nOpen Scope string_scope.\n"
    out += f"Definition glue_test : string := {cs(test)}.\n"
    out += f"Definition glue_test_char : ascii := {cs(test)}%char.\n"
    out += f"Definition glue_own_open : string := {cs(g_open)}.\n"
    out += f"Definition glue_own_close : string := {cs(g_close)}.\n"
    out += f"Definition glue_semi : string := {cs(g_semi)}.\n"
    out += f"Definition key_prefix : string := {cs(pre)}.\n"
    out += f"Definition key_suffix : string := {cs(suf)}.\n"
    out += f"Definition key_esc_from : string := {cs(esc[0])}.\n"
    out += f"Definition key_esc_to : string := {cs(esc[1])}.\n"
    out += f"Definition key_sep_char : ascii := {cs(key_sep)}%char.\n"
    out += f"Definition key_env_open : string := {cs(env_open)}.\n"
    out += f"Definition key_env_close : string := {cs(env_close)}.\n"
    out += f"Definition key_join : string := {cs(key_join)}.\n"
    out += f"Definition name_repl_from : ascii := {cs(name_repl[0])}%char.\n"
    out += f"Definition name_repl_to : ascii := {cs(name_repl[1])}%char.\n"
    out += "Definition frameworks : list string := [" + "; ".join(cs(x) for x in frameworks) + "].\n"
    out += f"Definition rel_dot_slash : string := {cs(ds)}.\n"
    out += f"Definition rel_bs : ascii := {cs(bs)}%char.\n"
    out += f"Definition rel_fs : ascii := {cs(fs)}%char.\n"
    out += "Definition archive_exts_zip : list string := [" + "; ".join(cs(x) for x in zips) + "].\n"
    out += "Definition archive_exts_tar : list string := [" + "; ".join(cs(x) for x in tars) + "].\n"
    out += "Definition pyproject_only_for_dirs : bool := true.\n"
    out += f"Definition cfg_only_dir_follows_cfg : bool := {'true' if read_cfg_only_dir() else 'false'}.\n"
    out += f"Definition cfg_read_as_utf8 : bool := {'true' if read_cfg_reader() else 'false'}.\n"
    out += f"Definition open_default_encoding : string := {cs(read_open_default())}.\n"
    out += f"Definition fallback_name_from_pkg_info : bool := {'true' if read_egg_info_name() else 'false'}.\n"
    return out


# ======================================================================================
# the bracket around one analysis (frame condition): what is undone, in which order, guarded how

FRAME_HEADER = '''(* GENERATED by harness/tr_c12.py from /repo on every run -- do not edit *)
From Coq Require Import List String Ascii Bool.
Import ListNotations.
Open Scope string_scope.
(* one statement of the finally-block of _parse_setup_py *)
Inductive cstep :=
| CPathRemove (guarded : bool)     (* sys.path.remove(abs_setupdir), inside `if abs_setupdir in sys.path` or not *)
| CEndPatch (name : string)        (* end_patch(token) *)
| CPathRestore                     (* sys.path[:] = saved_sys_path, saved directly before `with patches:` *)
| CMetaRemove (guarded : bool)     (* sys.meta_path.remove(meta_hook) *)
| CModules                         (* the sys.modules sweep: del every module the extractor contains *)
| CCaptureUndo.                    (* if capturing_started: logging.captureWarnings(False) *)
'''


def _attr_chain(node: ast.AST) -> str:
    parts = []
    while isinstance(node, ast.Attribute):
        parts.append(node.attr)
        node = node.value
    if isinstance(node, ast.Name):
        parts.append(node.id)
        return ".".join(reversed(parts))
    raise TranslateError("not a dotted name: " + ast.dump(node)[:100])


def _is_call(node: ast.AST, dotted: str) -> bool:
    return isinstance(node, ast.Expr) and isinstance(node.value, ast.Call) and _safe_chain(node.value.func) == dotted


def _safe_chain(node: ast.AST) -> str:
    try:
        return _attr_chain(node)
    except TranslateError:
        return ""


def _patch_names(call: ast.Call) -> List[str]:
    """patch(mod, 'attr', value, ...) -> ['mod.attr', ...]; string modules that cannot exist on Python 3 are skipped"""
    if len(call.args) % 3 != 0:
        raise TranslateError("patch(...) arguments are not triples")
    out = []
    for i in range(0, len(call.args), 3):
        mod, attr = call.args[i], call.args[i + 1]
        a = _const_str(attr)
        if isinstance(mod, ast.Constant) and isinstance(mod.value, str):
            if mod.value == "__builtin__":
                continue                     # begin_patch returns None: not in sys.modules
            out.append(mod.value + "." + a)
        else:
            out.append(_attr_chain(mod) + "." + a)
    return out


def read_frame() -> Any:
    src = T.parse("req_compile/metadata/source.py")
    f = T.func(src, "_parse_setup_py")
    # --- the three begin_patch tokens
    tokens = {}
    for node in ast.walk(f):
        if isinstance(node, ast.Assign) and len(node.targets) == 1 and isinstance(node.targets[0], ast.Name) \
                and isinstance(node.value, ast.Call) and _safe_chain(node.value.func) == "begin_patch":
            mod, attr = node.value.args[0], node.value.args[1]
            modname = mod.value if isinstance(mod, ast.Constant) else _attr_chain(mod)
            tokens[node.targets[0].id] = modname + "." + _const_str(attr)
    if len(tokens) != 3:
        raise TranslateError(f"_parse_setup_py: expected three begin_patch tokens, found {sorted(tokens)}")
    # --- patches = patch(...) ; with patches: try/except SystemExit/finally
    ctx = None
    for node in ast.walk(f):
        if isinstance(node, ast.Assign) and isinstance(node.value, ast.Call) and _safe_chain(node.value.func) == "patch" \
                and isinstance(node.targets[0], ast.Name) and node.targets[0].id == "patches":
            ctx = _patch_names(node.value)
    withs = [n for n in ast.walk(f) if isinstance(n, ast.With) and len(n.items) == 1
             and isinstance(n.items[0].context_expr, ast.Name) and n.items[0].context_expr.id == "patches"]
    if ctx is None or len(withs) != 1:
        raise TranslateError("_parse_setup_py: `patches = patch(...)` / `with patches:` not found")
    body = withs[0].body
    if len(body) != 1 or not isinstance(body[0], ast.Try):
        raise TranslateError("_parse_setup_py: `with patches:` does not consist of one try statement")
    tr = body[0]
    if not any(_is_call(s, "sys.path.insert") for s in tr.body):
        raise TranslateError("_parse_setup_py: sys.path.insert is not inside the try")
    hs = [h for h in tr.handlers]
    if len(hs) != 1 or _safe_chain(hs[0].type) != "SystemExit":
        raise TranslateError("_parse_setup_py: handlers of the try changed")
    # the hook must be installed before the try, the three patches too (otherwise the finally would undo nothing)
    steps: List[str] = []
    ended: List[str] = []

    def end_patch_name(stmt: ast.AST) -> str:
        if _is_call(stmt, "end_patch") and isinstance(stmt.value.args[0], ast.Name) and stmt.value.args[0].id in tokens:
            return tokens[stmt.value.args[0].id]
        return ""
    for st in tr.finalbody:
        dumped = ast.dump(st)
        if isinstance(st, ast.If) and "old_cythonize" in dumped and not st.orelse:
            continue
        if (isinstance(st, ast.Assign) and len(st.targets) == 1 and isinstance(st.targets[0], ast.Subscript)
                and _safe_chain(st.targets[0].value) == "sys.path" and isinstance(st.targets[0].slice, ast.Slice)
                and st.targets[0].slice.lower is None and st.targets[0].slice.upper is None
                and isinstance(st.value, ast.Name) and st.value.id == "saved_sys_path"):
            # the copy must be taken directly before `with patches:` (nothing of the analysis has touched sys.path yet)
            idx = f.body.index(withs[0])
            prev = f.body[idx - 1] if idx > 0 else None
            if not (isinstance(prev, ast.Assign) and isinstance(prev.targets[0], ast.Name) and prev.targets[0].id == "saved_sys_path"
                    and isinstance(prev.value, ast.Call) and _safe_chain(prev.value.func) == "list"
                    and len(prev.value.args) == 1 and _safe_chain(prev.value.args[0]) == "sys.path"):
                raise TranslateError("_parse_setup_py: saved_sys_path = list(sys.path) is not the statement before `with patches:`")
            steps.append("CPathRestore")
            continue
        if (isinstance(st, ast.If) and not st.orelse and isinstance(st.test, ast.Name) and st.test.id == "capturing_started"
                and len(st.body) == 1 and _is_call(st.body[0], "logging.captureWarnings")
                and isinstance(st.body[0].value.args[0], ast.Constant) and st.body[0].value.args[0].value is False):
            # switched on at the top of the function, and remembered whether THIS call switched it on
            heads = [ast.dump(x) for x in f.body[:6]]
            want = ["old_showwarning", "captureWarnings", "capturing_started"]
            if not all(any(w in h for h in heads) for w in want) or st is not tr.finalbody[-1]:
                raise TranslateError("_parse_setup_py: the captureWarnings bracket changed shape")
            started = [n for n in f.body if isinstance(n, ast.Assign) and isinstance(n.targets[0], ast.Name) and n.targets[0].id == "capturing_started"]
            if len(started) != 1 or not (isinstance(started[0].value, ast.Compare) and isinstance(started[0].value.ops[0], ast.IsNot)
                                         and _safe_chain(started[0].value.left) == "warnings.showwarning"
                                         and _safe_chain(started[0].value.comparators[0]) == "old_showwarning"):
                raise TranslateError("_parse_setup_py: capturing_started is not `warnings.showwarning is not old_showwarning`")
            steps.append("CCaptureUndo")
            continue
        if _is_call(st, "sys.path.remove") and _safe_chain(st.value.args[0]) == "abs_setupdir":
            steps.append("CPathRemove false")
            continue
        if isinstance(st, ast.If) and not st.orelse and len(st.body) == 1:
            t = st.test
            inner = st.body[0]
            if (isinstance(t, ast.Compare) and len(t.ops) == 1 and isinstance(t.ops[0], ast.In)
                    and _safe_chain(t.left) == "abs_setupdir" and _safe_chain(t.comparators[0]) == "sys.path"
                    and _is_call(inner, "sys.path.remove") and _safe_chain(inner.value.args[0]) == "abs_setupdir"):
                steps.append("CPathRemove true")
                continue
            if (isinstance(t, ast.Compare) and len(t.ops) == 1 and isinstance(t.ops[0], ast.In)
                    and _safe_chain(t.left) == "meta_hook" and _safe_chain(t.comparators[0]) == "sys.meta_path"
                    and _is_call(inner, "sys.meta_path.remove")):
                steps.append("CMetaRemove true")
                continue
            if (isinstance(t, ast.Compare) and len(t.ops) == 1 and isinstance(t.ops[0], ast.IsNot)
                    and isinstance(t.left, ast.Name) and t.left.id in tokens and end_patch_name(inner)
                    and inner.value.args[0].id == t.left.id):
                steps.append("CEndPatch " + cs(end_patch_name(inner)))
                ended.append(end_patch_name(inner))
                continue
        if end_patch_name(st):
            steps.append("CEndPatch " + cs(end_patch_name(st)))
            ended.append(end_patch_name(st))
            continue
        if _is_call(st, "sys.meta_path.remove") and _safe_chain(st.value.args[0]) == "meta_hook":
            steps.append("CMetaRemove false")
            continue
        if isinstance(st, ast.For) and any(_safe_chain(n) == "sys.modules" for n in ast.walk(st.iter)):
            # the sweep must delete what the EXTRACTOR contains (absolute or relative to the virtual cwd)
            calls = [n for n in ast.walk(st) if isinstance(n, ast.Call) and _safe_chain(n.func) == "extractor.contains_path"]
            dels = [n for n in ast.walk(st) if isinstance(n, ast.Delete)]
            if len(calls) != 1 or _safe_chain(calls[0].args[0]) not in ("module.__file__", "module_file") or len(dels) != 2:
                raise TranslateError("_parse_setup_py: the sys.modules sweep no longer tests extractor.contains_path(module.__file__)")
            steps.append("CModules")
            continue
        raise TranslateError("_parse_setup_py: unrecognised statement in the finally block: " + dumped[:160])
    # --- patch.py: the context manager restores in a finally, in reverse order
    pf = T.func(T.parse("req_compile/metadata/patch.py"), "patch")
    ctx_ok = False
    for node in ast.walk(pf):
        if isinstance(node, ast.Try) and any(isinstance(s, ast.Expr) and isinstance(s.value, ast.Yield) for s in node.body):
            ctx_ok = any(isinstance(s, ast.For) and any(_safe_chain(getattr(c, "func", None)) == "end_patch"
                                                         for c in ast.walk(s) if isinstance(c, ast.Call))
                         for s in node.finalbody)
    # --- pyproject.py: chdir(source_file) inside a try whose finally chdirs back to the saved cwd
    pp = T.func(T.parse("req_compile/metadata/pyproject.py"), "_parse_from_prepared_metadata")
    chdirs = []

    def visit(node: ast.AST, finals: List[List[ast.stmt]]) -> None:
        if isinstance(node, ast.Try):
            for s in node.body:
                visit(s, finals + [node.finalbody])
            for h in node.handlers:
                for s in h.body:
                    visit(s, finals)
            for s in node.orelse + node.finalbody:
                visit(s, finals)
            return
        if _is_call(node, "os.chdir"):
            chdirs.append((_safe_chain(node.value.args[0]), finals))
        for child in ast.iter_child_nodes(node):
            if isinstance(child, (ast.stmt, ast.ExceptHandler)):
                visit(child, finals)
            elif isinstance(child, ast.withitem):
                pass
    for s in pp.body:
        visit(s, [])
    into = [c for c in chdirs if c[0] == "source_file"]
    if len(into) != 1:
        raise TranslateError("pyproject.py: expected exactly one os.chdir(source_file)")
    saved = [n for n in ast.walk(pp) if isinstance(n, ast.Assign) and isinstance(n.targets[0], ast.Name)
             and n.targets[0].id == "old_cwd" and isinstance(n.value, ast.Call) and _safe_chain(n.value.func) == "os.getcwd"]
    if len(saved) != 1:
        raise TranslateError("pyproject.py: old_cwd = os.getcwd() not found")
    restored = any(any(_is_call(s, "os.chdir") and _safe_chain(s.value.args[0]) == "old_cwd" for s in fb) for fb in into[0][1])
    if not restored and not any(c[0] == "old_cwd" for c in chdirs):
        raise TranslateError("pyproject.py: the working directory is never restored")
    pep_patch = None
    for node in ast.walk(pp):
        if isinstance(node, ast.With) and isinstance(node.items[0].context_expr, ast.Call) \
                and _safe_chain(node.items[0].context_expr.func) == "patch":
            pep_patch = _patch_names(node.items[0].context_expr)
    if pep_patch is None:
        raise TranslateError("pyproject.py: with patch(...) not found")
    begin = [tokens[k] for k in tokens]
    return steps, begin, ctx, ctx_ok, restored, pep_patch


def read_pep517_wrapped() -> bool:
    """metadata.extract_metadata: is the fetch_from_pyproject call inside a try whose handler for Exception
    raises MetadataError (a failing PEP 517 hook is then a metadata failure of that project)?"""
    f = T.func(T.parse("req_compile/metadata/metadata.py"), "extract_metadata")
    found = []

    def visit(node: ast.AST, handlers: List[ast.ExceptHandler]) -> None:
        if isinstance(node, ast.Try):
            for s_ in node.body:
                visit(s_, handlers + node.handlers)
            for h in node.handlers:
                for s_ in h.body:
                    visit(s_, handlers)
            for s_ in node.orelse + node.finalbody:
                visit(s_, handlers)
            return
        if isinstance(node, ast.Assign) and isinstance(node.value, ast.Call) and _safe_chain(node.value.func) == "fetch_from_pyproject":
            found.append(handlers)
        for child in ast.iter_child_nodes(node):
            if isinstance(child, ast.stmt):
                visit(child, handlers)
    for s_ in f.body:
        visit(s_, [])
    if len(found) != 1:
        raise TranslateError("extract_metadata: expected exactly one `... = fetch_from_pyproject(filename)`")
    for h in found[0]:
        if h.type is not None and _safe_chain(h.type) == "Exception":
            raises = [n for n in h.body if isinstance(n, ast.Raise) and isinstance(n.exc, ast.Call) and _safe_chain(n.exc.func) == "MetadataError"]
            if len(raises) == 1 and len(h.body) == 1:
                return True
            raise TranslateError("extract_metadata: the handler around fetch_from_pyproject does something else than raise MetadataError")
    return False


def read_extractor_state() -> Any:
    """extractor.py: every attribute of an Extractor that is MUTATED after construction (subscript store,
    .append/.update/... on self.<attr>) must be per-instance state: assigned a fresh literal in
    Extractor.__init__ and never given a value at class level (a class-level {} is ONE object shared by every
    extractor of the process).  Returns (mutated attributes, all fresh?)."""
    mod = T.parse("req_compile/metadata/extractor.py")
    cls = T.klass(mod, "Extractor")
    subclasses = [n for n in mod.body if isinstance(n, ast.ClassDef) and any(_safe_chain(b) == "Extractor" for b in n.bases)]
    mutated = set()
    for c in [cls] + subclasses:
        for node in ast.walk(c):
            tgt = None
            if isinstance(node, (ast.Assign, ast.AugAssign, ast.AnnAssign)):
                for t in (node.targets if isinstance(node, ast.Assign) else [node.target]):
                    if isinstance(t, ast.Subscript) and isinstance(t.value, ast.Attribute) and _safe_chain(t.value.value) == "self":
                        mutated.add(t.value.attr)
            if isinstance(node, ast.Call) and isinstance(node.func, ast.Attribute) and node.func.attr in (
                    "append", "extend", "update", "add", "setdefault", "pop", "clear", "insert", "remove") \
                    and isinstance(node.func.value, ast.Attribute) and _safe_chain(node.func.value.value) == "self":
                mutated.add(node.func.value.attr)
    if "renames" not in mutated:
        raise TranslateError("extractor.py: Extractor.add_rename no longer stores into self.renames")
    init = T.func(cls, "__init__")
    fresh_in_init = {}
    for node in ast.walk(init):
        tgt = val = None
        if isinstance(node, ast.Assign) and len(node.targets) == 1:
            tgt, val = node.targets[0], node.value
        elif isinstance(node, ast.AnnAssign) and node.value is not None:
            tgt, val = node.target, node.value
        if isinstance(tgt, ast.Attribute) and _safe_chain(tgt.value) == "self":
            fresh_in_init[tgt.attr] = isinstance(val, (ast.Dict, ast.List, ast.Set)) and not getattr(val, "keys", getattr(val, "elts", []))
    class_level = set()
    for c in [cls] + subclasses:
        for st in c.body:
            if isinstance(st, ast.Assign):
                class_level |= {t.id for t in st.targets if isinstance(t, ast.Name)}
            elif isinstance(st, ast.AnnAssign) and st.value is not None and isinstance(st.target, ast.Name):
                class_level.add(st.target.id)
    # the concrete extractors must run Extractor.__init__
    for c in subclasses:
        ci = [n for n in c.body if isinstance(n, ast.FunctionDef) and n.name == "__init__"]
        if ci and not any(isinstance(n, ast.Call) and isinstance(n.func, ast.Attribute) and n.func.attr == "__init__"
                          and "super" in ast.dump(n.func.value) for n in ast.walk(ci[0])):
            raise TranslateError(f"extractor.py: {c.name}.__init__ does not call Extractor.__init__")
    fresh = all(fresh_in_init.get(a, False) and a not in class_level for a in mutated)
    return sorted(mutated), fresh


def read_archive_error_cover() -> bool:
    """_fetch_from_source: does the try whose handler turns zipfile.BadZipfile / tarfile.ReadError into a
    MetadataError cover the ANALYSIS (the `with closing(extractor):` block calling _fetch_from_setup_py), not only
    the construction of the extractor?  Damage met while members are read surfaces there."""
    f = T.func(T.parse("req_compile/metadata/source.py"), "_fetch_from_source")
    tries = []
    for n in ast.walk(f):
        if isinstance(n, ast.Try):
            for h in n.handlers:
                names = [_safe_chain(e) for e in (h.type.elts if isinstance(h.type, ast.Tuple) else [h.type])] if h.type is not None else []
                if "zipfile.BadZipfile" in names or "zipfile.BadZipFile" in names:
                    if "tarfile.ReadError" not in names:
                        raise TranslateError("_fetch_from_source: tarfile.ReadError is no longer handled with BadZipfile")
                    if not any(isinstance(x, ast.Raise) and isinstance(x.exc, ast.Call) and _safe_chain(x.exc.func) == "MetadataError"
                               for x in ast.walk(h)):
                        raise TranslateError("_fetch_from_source: the archive-error handler does not raise MetadataError")
                    tries.append(n)
    if len(tries) != 1:
        raise TranslateError("_fetch_from_source: expected exactly one try handling BadZipfile/ReadError")
    body_calls = [_safe_chain(c.func) for st in tries[0].body for c in ast.walk(st) if isinstance(c, ast.Call)]
    if not any(x for x in body_calls if x in ("extractor_type",)):
        raise TranslateError("_fetch_from_source: the extractor is not constructed inside the try")
    all_calls = [_safe_chain(c.func) for c in ast.walk(f) if isinstance(c, ast.Call)]
    if all_calls.count("_fetch_from_setup_py") != 1:
        raise TranslateError("_fetch_from_source: expected one call of _fetch_from_setup_py")
    return "_fetch_from_setup_py" in body_calls and "closing" in body_calls


def generate_frame() -> str:
    steps, begin, ctx, ctx_ok, restored, pep_patch = read_frame()
    out = FRAME_HEADER
    out += "Definition cleanup_steps : list cstep := [" + "; ".join(steps) + "].\n"
    out += "Definition begin_patched : list string := [" + "; ".join(cs(x) for x in begin) + "].\n"
    out += "Definition ctx_patched : list string := [" + "; ".join(cs(x) for x in ctx) + "].\n"
    out += "Definition pep517_patched : list string := [" + "; ".join(cs(x) for x in pep_patch) + "].\n"
    out += f"Definition ctx_restored_in_finally : bool := {'true' if ctx_ok else 'false'}.\n"
    out += f"Definition pep517_chdir_restored_in_finally : bool := {'true' if restored else 'false'}.\n"
    out += f"Definition pep517_failure_wrapped : bool := {'true' if read_pep517_wrapped() else 'false'}.\n"
    out += f"Definition archive_errors_cover_analysis : bool := {'true' if read_archive_error_cover() else 'false'}.\n"
    mutated, fresh = read_extractor_state()
    out += "Definition extractor_mutable_attrs : list string := [" + "; ".join(cs(x) for x in mutated) + "].\n"
    out += f"Definition extractor_state_fresh_per_analysis : bool := {'true' if fresh else 'false'}.\n"
    return out

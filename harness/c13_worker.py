"""C13 worker: runs req_compile.metadata.extract_metadata on generated projects inside a
SEPARATE process (the analysed scripts overwrite process globals, may leave them broken on the
known-defect paths, and may call os._exit), snapshots the process-global state before and
after each analysis and writes one JSON line per case.

usage: c13_worker.py <job.json> <out.jsonl>
job = {"keys": [[module, attr], ...], "cases": [case, ...], "tmp": dir}
"""
from __future__ import annotations

import io
import json
import os
import sys
import types

_REAL = {
    "chdir": os.chdir, "getcwd": os.getcwd, "open": io.open, "listdir": os.listdir,
    "exists": os.path.exists, "abspath": os.path.abspath,
}

REPO = os.environ.get("VERIF_REPO", "/repo")
if REPO in sys.path:
    sys.path.remove(REPO)
sys.path.insert(0, REPO)

import hashlib  # noqa: E402
import logging  # noqa: E402
import shutil  # noqa: E402
import tarfile  # noqa: E402
import warnings  # noqa: E402
import zipfile  # noqa: E402

warnings.simplefilter("ignore")
if os.environ.get("C13_WORKER_LOG"):
    logging.basicConfig(level=logging.INFO, filename=os.environ["C13_WORKER_LOG"])
else:
    logging.disable(logging.CRITICAL)

ABSENT = object()
LOGSW_ID = 5001


def hx(s: str) -> str:
    b = s.encode("utf-8", "surrogatepass")
    return b.hex() if b else "-"


class World:
    """Module objects, key table and the repair snapshot."""

    def __init__(self, keys):
        import req_compile.metadata as M  # noqa: F401
        import req_compile.metadata.source as S
        import req_compile.metadata.pyproject as P  # noqa: F401
        self.S = S
        # everything _parse_setup_py imports lazily, so that sys.modules is stable afterwards
        import codecs, distutils.core, fileinput, multiprocessing, requests  # noqa: F401,E401
        import importlib.util, urllib.request  # noqa: F401,E401
        import toml, tempfile, subprocess, configparser, json as _j, traceback, random, string  # noqa: F401,E401
        self.keys = [tuple(k) for k in keys]
        self.cy = types.ModuleType("Cython")
        self.cyb = types.ModuleType("Cython.Build")
        self.cy.Build = self.cyb
        self.mods = {}
        for m, _ in self.keys:
            if m in self.mods:
                continue
            if m == "root_logger":
                self.mods[m] = logging.getLogger()
            elif m == "Cython.Build":
                self.mods[m] = self.cyb
            elif m == "imp":
                self.mods[m] = S.imp
            else:
                self.mods[m] = sys.modules.get(m)
        self.logsw = logging._showwarning

    def warm(self, tmp):
        """One throw-away analysis so that lazily imported modules are loaded."""
        d = os.path.join(tmp, "c13warm")
        os.makedirs(d, exist_ok=True)
        with open(os.path.join(d, "setup.py"), "w") as fh:
            fh.write("from setuptools import setup\nimport c13warmlocal\nsetup(name='c13warm', version='1.0')\n")
        with open(os.path.join(d, "c13warmlocal.py"), "w") as fh:
            fh.write("X = 1\n")
        from req_compile.metadata import extract_metadata
        import encodings.cp437, encodings.utf_8, encodings.ascii, encodings.idna  # noqa: F401,E401
        arc_t = os.path.join(tmp, "c13warm-1.0.tar.gz")
        with tarfile.open(arc_t, "w:gz") as tf:
            tf.add(d, arcname="c13warm-1.0")
        arc_z = os.path.join(tmp, "c13warm-1.0.zip")
        with zipfile.ZipFile(arc_z, "w") as zf:
            for f in ("setup.py", "c13warmlocal.py"):
                zf.write(os.path.join(d, f), "c13warm-1.0/" + f)
        for target in (d, arc_t, arc_z):
            try:
                extract_metadata(target)
            except BaseException:
                pass
            sys.modules.pop("c13warmlocal", None)
        logging.captureWarnings(False)

    def base(self):
        self.base_attrs = {}
        for name, mod in self.mods.items():
            if mod is None:
                continue
            self.base_attrs[name] = dict(vars(mod))
        self.base_path = list(sys.path)
        self.base_meta = list(sys.meta_path)
        self.base_mods = dict(sys.modules)
        self.base_cwd = _REAL["getcwd"]()
        self.base_argv = list(sys.argv)

    def repair(self):
        for name, mod in self.mods.items():
            if mod is None:
                continue
            want = self.base_attrs[name]
            d = vars(mod)
            for a in list(d.keys()):
                if a not in want:
                    try:
                        delattr(mod, a)
                    except Exception:
                        pass
            for a, v in want.items():
                if a not in d or d[a] is not v:
                    try:
                        setattr(mod, a, v)
                    except Exception:
                        pass
        sys.path[:] = self.base_path
        sys.meta_path[:] = self.base_meta
        for k in list(sys.modules.keys()):
            if k not in self.base_mods:
                del sys.modules[k]
        for k, v in self.base_mods.items():
            if sys.modules.get(k) is not v:
                sys.modules[k] = v
        sys.argv[:] = self.base_argv
        _REAL["chdir"](self.base_cwd)
        self.S.FAILED_BUILDS.clear()

    # ---- observation
    def raw(self, k):
        mod = self.mods.get(k[0])
        if mod is None:
            return ABSENT
        return getattr(mod, k[1], ABSENT)

    def canon_init(self, raws):
        out = []
        for i, v in enumerate(raws):
            if v is ABSENT:
                out.append("A")
            elif v is None:
                out.append("N")
            elif v is self.logsw:
                out.append("O%d" % LOGSW_ID)
            else:
                j = next(j for j in range(i + 1) if same(raws[j], v))
                out.append("O%d" % j)
        return out

    def canon_final(self, raws0, v):
        if v is ABSENT:
            return "A"
        if v is None:
            return "N"
        if v is self.logsw:
            return "O%d" % LOGSW_ID
        for j, o in enumerate(raws0):
            if o is not ABSENT and o is not None and same(o, v):
                return "O%d" % j
        tag = getattr(v, "c13tag", None) if type(v).__name__ == "_S" else None
        if isinstance(tag, int):
            return "G%d" % tag
        return "F"

    def mod_kind(self, name, fake_root):
        m = sys.modules.get(name, ABSENT)
        if m is ABSENT:
            return None
        if isinstance(m, (self.S.FakeModule, self.S.FakeNumpyModule)):
            return "F"
        f = vars(m).get("__file__") if isinstance(m, types.ModuleType) else getattr(m, "__file__", None)
        if f and isinstance(f, str) and not os.path.isabs(f) and name.startswith("c13rel_"):
            return "R"
        if f and fake_root and isinstance(f, str) and f.startswith(fake_root) and not f.startswith(sys.prefix) \
                and not f.startswith(getattr(sys, "base_prefix", sys.prefix)):
            return "J"
        return "P"


def content_stamp(o):
    """Content of a mutable object as the scripts edit it: the marker appended to a list, or the
    c13content attribute; 0 = pristine."""
    try:
        if isinstance(o, list):
            for x in reversed(o):
                if isinstance(x, str) and x.startswith("c13mut"):
                    return int(x[6:])
            return 0
        v = getattr(o, "c13content", 0)
        return v if isinstance(v, int) else 0
    except Exception:
        return 0


def same(a, b):
    if a is b:
        return True
    if isinstance(a, types.MethodType) and isinstance(b, types.MethodType):
        return a == b
    return False


def broad_snapshot(w: World):
    out = {}
    tracked = set(w.keys)
    for name, mod in w.mods.items():
        if mod is None:
            continue
        for a, v in list(vars(mod).items()):
            if (name, a) in tracked:
                continue
            out[(name, a)] = id(v)
    return out


# -------------------------------------------------------------------- project construction

def stmt_lines(case, pyproject: bool):
    """Python statements of the generated script for the effect sequence of the case."""
    L = []
    L.append("import sys, os, types")
    L.append("class _S(object):\n    pass")
    L.append("def _obj(n):\n    s = _S()\n    s.c13tag = n\n    return s")
    L.append("_M = sys.modules.get('c13_world_mods')")
    if case.get("real_fops") is not None and not pyproject:
        # this part only runs when the script is REALLY executed (egg-info fall-back, in the private copy)
        R = ["if _M is None:", "    _here = os.path.dirname(os.path.abspath(__file__))"]
        for f in case["real_fops"]:
            pth = "os.path.join(_here, %r)" % f[1]
            if f[0] in ("w", "a"):
                R.append("    _fh = open(%s, %r)\n    _fh.write('c13stamp %d\\n')\n    _fh.close()" % (pth, f[0], f[2]))
            elif f[0] == "x":
                R.append("    try:\n        os.unlink(%s)\n    except OSError:\n        pass\n    _fh = open(%s, 'w')\n    _fh.write('c13stamp %d\\n')\n    _fh.close()" % (pth, pth, f[2]))
            elif f[0] == "u":
                R.append("    try:\n        os.unlink(%s)\n    except OSError:\n        pass" % pth)
        R.append("    from setuptools import setup\n    setup(name=%r, version='1.0', packages=[], py_modules=[])\n    sys.exit(0)" % case["name"])
        L.append("\n".join(R))
    if pyproject:
        L.append("_HERE = os.path.dirname(os.path.abspath(__file__))")
    else:
        L.append("_ROOT = sys.path[0]")
    return L


def op_stmts(op, pyproject: bool):
    t = op[0]
    if t == "W":
        m, a, pv = op[1], op[2], op[3]
        tgt = "_M[%r]" % m
        if pv[0] == "N":
            return ["setattr(%s, %r, None)" % (tgt, a)]
        if pv[0] == "G":
            return ["setattr(%s, %r, _obj(%d))" % (tgt, a, pv[1])]
        if pv[0] == "C":
            return ["try:\n    _v = getattr(_M[%r], %r)\nexcept AttributeError:\n    pass\nelse:\n    setattr(%s, %r, _v)" % (pv[1], pv[2], tgt, a)]
    if t == "D":
        return ["try:\n    delattr(_M[%r], %r)\nexcept AttributeError:\n    pass" % (op[1], op[2])]
    if t == "H":
        if pyproject:
            return ["try:\n    os.chdir(os.path.join(_HERE, %r))\nexcept Exception:\n    pass" % op[1]]
        return ["try:\n    os.chdir(%r)\nexcept Exception:\n    pass" % op[1]]
    if t == "I":
        name, kd, how = op[1], op[2], (op[3] if len(op) > 3 else "manual")
        if how == "import":
            return ["import %s" % name]
        if kd == "P":
            return ["sys.modules[%r] = types.ModuleType(%r)" % (name, name)]
        if kd == "J":
            return ["_m = types.ModuleType(%r)\n_m.__file__ = os.path.join(os.path.dirname(__file__), %r)\nsys.modules[%r] = _m" % (name, name + ".py", name)]
        if kd == "F":
            return ["sys.modules[%r] = sys.modules['req_compile.metadata.source'].FakeModule(%r)" % (name, name)]
    if t == "R":
        return ["sys.modules.pop(%r, None)" % op[1]]
    if t == "M":
        # in-place edit of whatever object the attribute holds (the sys.argv[1:] = [...] of distutils-style code)
        return ["_v = getattr(_M[%r], %r, None)\nif isinstance(_v, list):\n    _v[:] = [x for x in _v if not (isinstance(x, str) and x.startswith('c13mut'))] + ['c13mut%d']\nelif _v is not None:\n    try:\n        _v.c13content = %d\n    except Exception:\n        pass" % (op[1], op[2], op[3], op[3])]
    if t == "F":
        # the script registers a finder of its own (one that never finds anything)
        return ["class _C13Finder(object):\n    def find_spec(self, fullname, path=None, target=None):\n        return None\n"
                "_f = _C13Finder()\n_f.c13tag = %d\n%s" % (op[2], "sys.meta_path.insert(0, _f)" if op[1] else "sys.meta_path.append(_f)")]
    if t == "S":
        if op[1] == "@ROOT":
            return ["sys.path.insert(0, _ROOT)"]
        return ["sys.path.insert(0, %r)" % op[1]]
    raise ValueError("bad op %r" % (op,))


def fop_stmts(f):
    t = f[0]
    body = {
        "o": "_fh = open(%r, 'w')\n    _fh.write('c13')\n    _fh.close()" % f[1],
        "r": "os.rename(%r, %r)" % (f[1], f[2] if len(f) > 2 else "x"),
        "l": "os.symlink(%r, %r)" % (f[1], f[2] if len(f) > 2 else "x"),
        "c": "os.mkdir(%r)" % f[1],
        "u": "os.remove(%r)" % f[1],
    }[t]
    return ["try:\n    %s\nexcept Exception:\n    pass" % body]


def ending_stmts(case):
    e = case["ending"]
    if e in ("finish", "unreadable"):
        return []
    if e == "raise":
        return ["raise %s('c13 generated failure')" % case.get("raise_cls", "ValueError")]
    if e == "sysexit":
        return ["sys.exit(%d)" % case.get("code", 3)]
    if e == "osexit":
        return ["os._exit(%d)" % case.get("code", 3)]
    raise ValueError(e)


def script_text(case, pyproject: bool) -> str:
    L = stmt_lines(case, pyproject)
    body = []
    for name in case.get("imports", []):
        body.append("import %s" % name)
    for name, rel, how in case.get("rel_loads", []) if not pyproject else []:
        # a project module loaded by a RELATIVE file path, the two usual spellings
        if how == "spec":
            body.append("import importlib.util as _iu\n_sp = _iu.spec_from_file_location(%r, %r)\n_rm = _iu.module_from_spec(_sp)" % (name, rel))
        else:
            body.append("import imp as _imp\n_rm = _imp.load_source(%r, %r)" % (name, "./" + rel))
    for f in case.get("fops", []):
        body += fop_stmts(f)
    setup_call = "from setuptools import setup\nsetup(name=%r, version='1.0', install_requires=['c13dep'])" % case["name"]
    ops = case["ops"]
    at = case.get("setup_at")
    for i, op in enumerate(ops):
        if at is not None and at == i and not pyproject:
            body.append(setup_call)
        body += op_stmts(op, pyproject)
    if at is not None and at >= len(ops) and not pyproject:
        body.append(setup_call)
    body += ending_stmts(case)
    if pyproject:
        txt = "\n".join(L) + "\n\ndef prepare_metadata_for_build_wheel(metadata_directory, config_settings=None):\n"
        inner = "\n".join(body) if body else "pass"
        inner += "\n_d = os.path.join(metadata_directory, 'c13.dist-info')\nos.mkdir(_d)\n_fh = open(os.path.join(_d, 'METADATA'), 'w')\n_fh.write('Metadata-Version: 2.1\\nName: %s\\nVersion: 1.0\\n')\n_fh.close()\nreturn 'c13.dist-info'" % case["name"]
        txt += "\n".join("    " + ln for ln in inner.split("\n")) + "\n"
        return txt
    return "\n".join(L + body) + "\n"


def build_project(case, tmp):
    """Returns (path handed to extract_metadata, project dir or archive path, fake_root, root)."""
    name = case["name"]
    top = os.path.join(tmp, "c%d" % case["id"])
    os.makedirs(top)
    pk = case["packaging"]
    inner_name = name if pk == "dir" else "%s-1.0" % name
    d = os.path.join(top, inner_name)
    os.makedirs(os.path.join(d, "sub"))
    os.makedirs(os.path.join(d, "c13pkg_%d" % case["id"]))
    pyproject = case["kind"] == "pyproject"
    files = {
        "README": "c13 readme\n",
        "sub/data.txt": "data\n",
        "c13local_%d.py" % case["id"]: "VALUE = %d\n" % case["id"],
        "c13pkg_%d/__init__.py" % case["id"]: "from . import inner\n",
        "c13pkg_%d/inner.py" % case["id"]: "X = 1\n",
    }
    if pyproject:
        files["pyproject.toml"] = "[build-system]\nrequires = []\nbuild-backend = \"c13backend_%d\"\n" % case["id"]
        files["c13backend_%d.py" % case["id"]] = script_text(case, True)
    elif case.get("early") == "nosetup":
        pass
    else:
        files["setup.py"] = script_text(case, False)
    for rel, txt in files.items():
        if rel == "setup.py" and case.get("ending") == "unreadable":
            # a latin-1 script with a coding cookie and an umlaut: Extractor.contents decodes as UTF-8 and raises
            raw = ("# -*- coding: latin-1 -*-\n" + txt + "\nAUTHOR = 'M\u00fcller'\n").encode("latin-1")
            with open(os.path.join(d, rel), "wb") as fh:
                fh.write(raw)
            continue
        with open(os.path.join(d, rel), "w") as fh:
            fh.write(txt)
    if pk == "dir":
        return d, d, "/" + os.path.basename(d), "/" + os.path.basename(d) + "/"
    if pk == "tgz":
        arc = os.path.join(top, inner_name + ".tar.gz")
        with tarfile.open(arc, "w:gz") as tf:
            tf.add(d, arcname=inner_name)
    else:
        arc = os.path.join(top, inner_name + ".zip")
        with zipfile.ZipFile(arc, "w") as zf:
            for root_, _, fs in os.walk(d):
                for f in fs:
                    full = os.path.join(root_, f)
                    zf.write(full, os.path.join(inner_name, os.path.relpath(full, d)))
    shutil.rmtree(d)
    fr = "/" + os.path.basename(arc)
    return arc, arc, fr, fr + "/" + inner_name


def tree_digests(path):
    """relative file name -> sha256 (the archive itself for an archive)."""
    out = {}
    if os.path.isfile(path):
        with open(path, "rb") as fh:
            out["<archive>"] = hashlib.sha256(fh.read()).hexdigest()
        return out
    for root_, dirs, fs in os.walk(path):
        for f in fs:
            full = os.path.join(root_, f)
            rel = os.path.relpath(full, path)
            if os.path.islink(full):
                out[rel] = "L " + os.readlink(full)
                continue
            with open(full, "rb") as fh:
                out[rel] = hashlib.sha256(fh.read()).hexdigest()
        for d_ in dirs:
            out[os.path.relpath(os.path.join(root_, d_), path) + "/"] = "D"
    return out


def tree_hash(path):
    h = hashlib.sha256()
    if os.path.isfile(path):
        with open(path, "rb") as fh:
            h.update(fh.read())
        return h.hexdigest()
    if not os.path.isdir(path):
        return "missing"
    for root_, dirs, fs in sorted(os.walk(path)):
        dirs.sort()
        h.update(("D " + os.path.relpath(root_, path) + "\n").encode())
        for f in sorted(fs):
            full = os.path.join(root_, f)
            h.update(("F " + os.path.relpath(full, path) + "\n").encode())
            if os.path.islink(full):
                h.update(("L " + os.readlink(full)).encode())
                continue
            with open(full, "rb") as fh:
                h.update(fh.read())
    return h.hexdigest()


# -------------------------------------------------------------------- one case

def state_tokens(w: World, canon_attrs, cwd_tok, path, meta_ids, modlist):
    toks = [str(len(w.keys))]
    for (m, a), v in zip(w.keys, canon_attrs):
        toks += [hx(m), hx(a), v]
    toks.append(hx(cwd_tok))
    toks.append(str(len(path)))
    toks += [hx(p) for p in path]
    toks.append(str(len(meta_ids)))
    toks += [str(x) for x in meta_ids]
    toks.append(str(len(modlist)))
    for n, k in modlist:
        toks += [hx(n), k]
    return " ".join(toks)


def run_case(w: World, case, tmp, emit):
    from req_compile.metadata import extract_metadata
    S = w.S
    target, proj, fake_root, root = build_project(case, tmp)
    init = case.get("init", {})
    # ---- initial state
    for m, a in init.get("none", []):
        if w.mods.get(m) is not None:
            setattr(w.mods[m], a, None)
    for m, a in init.get("absent", []):
        if w.mods.get(m) is not None and hasattr(w.mods[m], a):
            delattr(w.mods[m], a)
    for m, a in init.get("present", []):
        if w.mods.get(m) is not None:
            setattr(w.mods[m], a, object())
    if init.get("captured"):
        logging.captureWarnings(True)
    else:
        logging.captureWarnings(False)
    if init.get("numpy"):
        sys.modules["numpy"] = types.ModuleType("numpy")
    cy = init.get("cython")
    if cy:
        sys.modules["Cython"] = w.cy
        sys.modules["Cython.Build"] = w.cyb
        if cy == "ok":
            w.cyb.cythonize = object()
        elif cy == "none":
            w.cyb.cythonize = None
        elif hasattr(w.cyb, "cythonize"):
            del w.cyb.cythonize
    elif hasattr(w.cyb, "cythonize"):
        del w.cyb.cythonize
    for name, kd in init.get("host_mods", []):
        if kd == "P":
            sys.modules[name] = types.ModuleType(name)
        elif kd == "J":
            mm = types.ModuleType(name)
            mm.__file__ = fake_root + "/" + name + ".py"
            sys.modules[name] = mm
        else:
            sys.modules[name] = S.FakeModule(name)
    if init.get("path_has_root"):
        sys.path.append(root)
    if case["kind"] == "pyproject":
        sys.path.insert(0, proj)
    cwd_dir = os.path.join(tmp, "cwd%d" % case["id"])
    os.makedirs(cwd_dir)
    if init.get("cwd_in_project") and os.path.isdir(proj):
        _REAL["chdir"](proj)
    else:
        _REAL["chdir"](cwd_dir)
    sys.modules["c13_world_mods"] = w.mods  # the script reaches the module OBJECTS through this
    if case.get("fallback", "stub") == "stub":
        saved_fb = S._build_egg_info
        S._build_egg_info = lambda *a, **k: None
    else:
        saved_fb = None
    tracked = list(case.get("tracked_mods", []))
    # ---- snapshot before
    cwd0 = _REAL["getcwd"]()
    raws0 = [w.raw(k) for k in w.keys]
    canon0 = w.canon_init(raws0)
    path0 = list(sys.path)
    meta0 = list(sys.meta_path)
    modkeys0 = set(sys.modules.keys())
    mods0 = [(n, w.mod_kind(n, fake_root)) for n in tracked]
    mods0 = [(n, k) for n, k in mods0 if k is not None]
    broad0 = broad_snapshot(w)
    listing0 = sorted(_REAL["listdir"](cwd0))
    hash0 = tree_hash(proj)
    dig0 = tree_digests(proj)
    argv0 = list(sys.argv)
    contents0 = [("-" if (v is ABSENT or v is None) else content_stamp(v)) for v in raws0]
    init_line = state_tokens(w, canon0, "CWD0", path0, list(range(1, len(meta0) + 1)), mods0)
    emit({"pre": case["id"], "init": init_line, "root": root, "fake_root": fake_root, "listing0": listing0,
          "cwd_in_project": bool(init.get("cwd_in_project") and os.path.isdir(proj))})
    # ---- run
    exc = None
    import time as _time
    _t0 = _time.time()
    try:
        res = extract_metadata(target)
        outcome = "ok:%s" % (getattr(res, "name", None),)
    except BaseException as ex:  # noqa: B036  (SystemExit / KeyboardInterrupt included on purpose)
        exc = type(ex).__name__
        outcome = "exc:" + exc
    # ---- snapshot after (before any repair; uses saved real functions only)
    cwd1 = _REAL["getcwd"]()
    raws1 = [w.raw(k) for k in w.keys]
    canon1 = [w.canon_final(raws0, v) for v in raws1]
    path1 = list(sys.path)
    # content of the objects the keys held INITIALLY (identity is canon1's business)
    contents1 = ["-" if (v is ABSENT or v is None) else str(content_stamp(v)) for v in raws0]
    meta1 = []
    for f in list(sys.meta_path):
        idx = next((i + 1 for i, o in enumerate(meta0) if o is f), None)
        if idx is None:
            tag = getattr(f, "c13tag", None)
            idx = 999 if type(f).__name__ == "ArchiveMetaHook" else (100 + tag) if isinstance(tag, int) else 998
        meta1.append(idx)
    mods1 = [(n, w.mod_kind(n, fake_root)) for n in tracked]
    mods1 = [(n, k) for n, k in mods1 if k is not None]
    modkeys1 = set(sys.modules.keys())
    untracked_mods = sorted(k for k in (modkeys1 ^ modkeys0) if k not in tracked)
    broad1 = broad_snapshot(w)
    untracked_attrs = sorted("%s.%s" % k for k in set(broad0) | set(broad1) if broad0.get(k) != broad1.get(k))
    try:
        argv_same = list(sys.argv) == argv0
    except Exception:
        argv_same = False
    if saved_fb is not None:
        S._build_egg_info = saved_fb
    # ---- repair, then look at the file system with sane functions
    w.repair()
    cwd_tok = "CWD0" if cwd1 == cwd0 else cwd1.replace(proj, "PROJ").replace(tmp, "TMP")
    final_line = " ".join(canon1) + " | " + hx(cwd_tok) + " | " + " ".join(hx(p) for p in path1) + " | " \
        + " ".join(str(x) for x in meta1) + " | " + " ".join(sorted(hx(n) + ":" + k for n, k in mods1)) \
        + " | " + " ".join(contents1)
    listing1 = sorted(os.listdir(cwd0)) if os.path.isdir(cwd0) else ["<gone>"]
    hash1 = tree_hash(proj)
    dig1 = tree_digests(proj)
    project_diff = sorted(k for k in set(dig0) | set(dig1) if dig0.get(k) != dig1.get(k))
    return {
        "project_files": sorted(k for k in dig0 if not k.endswith("/")), "project_diff": project_diff,
        "id": case["id"], "init": init_line, "final": final_line, "outcome": outcome, "dt": round(_time.time() - _t0, 2),
        "root": root, "fake_root": fake_root,
        "untracked_mods": untracked_mods[:10], "untracked_attrs": untracked_attrs[:10],
        "listing0": listing0, "listing1": listing1, "project_same": hash0 == hash1,
        "argv_same": argv_same,
        "cwd_in_project": bool(init.get("cwd_in_project") and os.path.isdir(proj)),
    }


BACKEND2 = """import os, sys
_EV = sys.modules['c13_events']
def prepare_metadata_for_build_wheel(metadata_directory, config_settings=None):
    _EV['seen_%(who)s'] = os.getcwd()
    if %(slow)r:
        _EV['a_running'].set()
        _EV['a_release'].wait(20)
    if %(raises)r:
        raise RuntimeError('c13 backend failure')
    _d = os.path.join(metadata_directory, 'c13.dist-info')
    os.mkdir(_d)
    _fh = open(os.path.join(_d, 'METADATA'), 'w')
    _fh.write('Metadata-Version: 2.1\\nName: %(name)s\\nVersion: 1.0\\n')
    _fh.close()
    return 'c13.dist-info'
"""


def run_case2(w: World, case, tmp, emit):
    """Two PEP 517 analyses on two threads; A's backend is slow, B starts while A is inside it."""
    import threading
    import time as _time
    from req_compile.metadata import extract_metadata
    top = os.path.join(tmp, "c%d" % case["id"])
    os.makedirs(top)
    projs = {}
    for who in ("a", "b"):
        name = "c13p%d%s" % (case["id"], who)
        d = os.path.join(top, name)
        os.makedirs(d)
        be = "c13backend_%d%s" % (case["id"], who)
        with open(os.path.join(d, "pyproject.toml"), "w") as fh:
            fh.write("[build-system]\nrequires = []\nbuild-backend = \"%s\"\n" % be)
        with open(os.path.join(d, be + ".py"), "w") as fh:
            fh.write(BACKEND2 % {"who": who, "slow": who == "a" and bool(case.get("overlap")),
                                 "raises": bool(case.get(who + "_raises")), "name": name})
        sys.path.insert(0, d)
        projs[who] = d
    cwd_dir = os.path.join(tmp, "cwd%d" % case["id"])
    os.makedirs(cwd_dir)
    _REAL["chdir"](cwd_dir)
    ev = {"a_running": threading.Event(), "a_release": threading.Event()}
    sys.modules["c13_events"] = ev
    cwd0 = _REAL["getcwd"]()
    raws0 = [w.raw(k) for k in w.keys]
    path0 = list(sys.path)
    meta0 = list(sys.meta_path)
    emit({"pre": case["id"], "init": "", "root": "", "fake_root": "", "listing0": [], "cwd_in_project": False})
    out = {}

    def run(who):
        try:
            r = extract_metadata(projs[who])
            out[who] = "ok:%s" % (getattr(r, "name", None),)
        except BaseException as ex:  # noqa: B036
            out[who] = "exc:" + type(ex).__name__

    ta = threading.Thread(target=run, args=("a",))
    tb = threading.Thread(target=run, args=("b",))
    ta.start()
    if case.get("overlap"):
        ev["a_running"].wait(20)
        tb.start()
        _time.sleep(0.4)          # B reaches the lock (and, if it does so before the lock, the cwd save)
        ev["a_release"].set()
        ta.join(30)
        tb.join(30)
    else:
        ta.join(30)
        tb.start()
        tb.join(30)
    cwd1 = _REAL["getcwd"]()
    raws1 = [w.raw(k) for k in w.keys]
    changed = ["%s.%s" % k for k, a, b in zip(w.keys, raws0, raws1) if not (a is b or same(a, b))]
    path_same = list(sys.path) == path0
    meta_same = [id(x) for x in sys.meta_path] == [id(x) for x in meta0]
    w.repair()
    tok = "CWD0" if cwd1 == cwd0 else cwd1.replace(projs["a"], "PROJ_A").replace(projs["b"], "PROJ_B").replace(tmp, "TMP")
    seen = {k[5:]: ("CWD0" if v == cwd0 else v.replace(projs["a"], "PROJ_A").replace(projs["b"], "PROJ_B"))
            for k, v in ev.items() if k.startswith("seen_")}
    return {"id": case["id"], "kind": "pyproject2", "cwd": tok, "out": out, "seen": seen, "changed": changed,
            "path_same": path_same, "meta_same": meta_same, "alive": not (ta.is_alive() or tb.is_alive())}


def main():
    job = json.load(_REAL["open"](sys.argv[1]))
    out = _REAL["open"](sys.argv[2], "a")
    tmp = job["tmp"]
    w = World(job["keys"])
    w.base()                      # attributes, sys.path, hooks, cwd as they are BEFORE any analysis ran
    pre_mods = set(sys.modules)
    w.warm(tmp)
    # modules the warm-up analyses imported lazily stay; anything an analysis must not leave behind does not
    for k, v in list(sys.modules.items()):
        if k in pre_mods:
            continue
        f = getattr(v, "__file__", None) if isinstance(v, types.ModuleType) else None
        if isinstance(v, (w.S.FakeModule, w.S.FakeNumpyModule)) or k.startswith("c13warm") \
                or (isinstance(f, str) and f.startswith("/c13warm")):
            del sys.modules[k]
    w.base_mods = dict(sys.modules)
    w.repair()
    for case in job["cases"]:
        def emit(rec):
            out.write(json.dumps(rec) + "\n")
            out.flush()
        try:
            r = run_case2(w, case, tmp, emit) if case.get("kind") == "pyproject2" else run_case(w, case, tmp, emit)
        except BaseException as ex:  # harness trouble: report, repair, continue
            import traceback
            r = {"id": case["id"], "worker_error": "".join(traceback.format_exception(type(ex), ex, ex.__traceback__))[-1500:]}
            try:
                w.repair()
            except BaseException:
                pass
        out.write(json.dumps(r) + "\n")
        out.flush()
        try:
            shutil.rmtree(os.path.join(tmp, "c%d" % case["id"]), ignore_errors=True)
            shutil.rmtree(os.path.join(tmp, "cwd%d" % case["id"]), ignore_errors=True)
        except BaseException:
            pass
    out.close()


if __name__ == "__main__":
    main()

"""C03 - Each request is answered with the newest eligible candidate (DESIGN.md section 4)."""
from __future__ import annotations

import json
import re
import logging
from typing import Any, Dict, List, Optional, Tuple

import common
import tr_c03
from common import Ctx, hx, run_model

ID = "C03"
PROPS = ["props/C03.v"]
EXTRACTS = ["C03"]
THEOREMS = [
    "C03_select_sound", "C03_select_newest", "C03_select_newest_configured", "C03_select_best_key",
    "C03_wheel_before_sdist", "C03_wheel_before_sdist_filenames", "C03_binary_only_no_sdist",
    "C03_prerelease_only_when", "C03_prerelease_declarative", "C03_select_complete", "C03_select_live",
    "C03_fallback_recursion", "C03_names_differing_in_separators_or_case_are_one_project"]
RULE = ("candidate sets generated as FILE NAMES (wheels with tags of the running interpreter and foreign ones, build "
        "tags, sdists with 4 extensions, finals/pre/post/dev/epoch/local versions, duplicates, respelled and wrong "
        "project names, shuffled; 15% malformed names) turned into candidates by the real filename_to_candidate and "
        "served by an in-memory Repository with a scripted set of unreadable files; every combination of "
        "allow_prerelease / allow_source_dist / max_downgrade in {None,-1,0,1,2,3}; the real Repository.get_dist answer "
        "(chosen file or NoCandidateException) is compared with the extracted Coq get_dist on the same candidates "
        "(usable = real check_usability tag verdict); also sort_candidates(filter_candidates(..)) order and the three "
        "request predicates.  Non-trivial = at least two candidates pass the filter in the answering pass and the answer "
        "needed the sort, a skip, a failed resolve, the budget or the fallback pass; distinct = distinct (files, "
        "unreadable set, requirement, settings).")
TRUSTED_BASE = [
    "T1 harness/tr_c03.py: sortkey tuple order, DistributionType values, sorted(reverse=), order/shape of the "
    "check_usability tests, the sdist skip, the budget comparison operator, the fallback condition and its gave_up guard, "
    "how _impl_major_minor splits a python tag, the operators "
    "of is_pinned_requirement, the sdist extra_sort_info default -> gen/C03Consts.v",
    "T2 harness/c03.py + enc440.py: generators, the in-memory repository, canonicalisation (file name / NC)",
    "the tag verdict (first three tests of check_usability) and Candidate.tag_score are inputs of the model (C20's subject); "
    "packaging Version order / SpecifierSet.contains are lib/Pep440.v, validated by C17's T2",
    "modelled, not verified: req_compile/repos/repository.py (sortkey, sort_candidates, check_usability, filter_candidates, "
    "_is_all_prereleases, get_dist, do_get_candidate), req_compile/utils.py (is_pinned_requirement, has_prerelease)",
]
ASSUMPTIONS = [
    "=== clauses are outside the model (lib/Pep440 has no arbitrary-equality operator)",
    "get_candidates returns a list (a one-shot iterator would be empty in the fallback pass)",
    "resolve_candidate either returns metadata or raises MetadataError (other exceptions propagate and are not modelled)",
]

PROJECT = ["foo-bar", "Foo.Bar", "foo_bar", "FOO-BAR", "foo.bar"]
WHEEL_NAMES = ["foo_bar", "Foo_Bar", "foo.bar", "FOO_BAR", "foo_bar", "foo_bar"]
SDIST_NAMES = ["foo-bar", "foo_bar", "Foo-Bar", "foo.bar", "foo-bar", "foo-bar"]
WRONG_WHEEL = ["foo_baz", "foobar", "foo_bar_x"]
WRONG_SDIST = ["foo-baz", "foobar", "foo-bar-x"]
GOOD_TAGS = [("py3", "none", "any"), ("py2.py3", "none", "any"), ("py3", "none", "any"),
             ("cp312", "cp312", "manylinux_2_17_x86_64"), ("cp312", "abi3", "manylinux2014_x86_64"),
             ("cp312", "cp312", "linux_x86_64"), ("cp311", "abi3", "manylinux1_x86_64"), ("py312", "none", "any"),
             ("cp312", "cp312", "manylinux_2_17_x86_64.manylinux2014_x86_64"), ("cp310", "abi3", "manylinux_2_5_x86_64"),
             ("cp3", "none", "any"), ("py3", "none", "linux_x86_64"),
             # two-digit / one-digit minors at or below the running interpreter, abi3 / none ABI, compressed sets
             ("cp39", "abi3", "manylinux_2_17_x86_64"), ("cp310", "abi3", "linux_x86_64"), ("cp39.cp310", "none", "any"),
             ("py39", "none", "any"), ("py310", "none", "any"), ("cp311.cp312", "none", "any"),
             ("cp38.cp39", "abi3", "manylinux2014_x86_64"), ("cp312", "none", "any"), ("cp312.cp313", "abi3", "linux_x86_64")]
FOREIGN_TAGS = [("py2", "none", "any"), ("cp313", "cp313", "manylinux_2_17_x86_64"), ("cp312", "cp312", "win_amd64"),
                ("cp312", "cp312", "macosx_10_9_x86_64"), ("cp311", "cp311", "manylinux_2_17_x86_64"),
                ("pp39", "pypy39_pp73", "manylinux_2_17_x86_64"), ("cp312", "cp312", "manylinux_2_99_x86_64"),
                ("cp312", "cp312", "manylinux_2_17_aarch64"), ("py4", "none", "any"),
                # NEWER two-digit minors with an otherwise acceptable ABI / platform
                ("cp313", "abi3", "linux_x86_64"), ("cp313", "none", "any"), ("cp313.cp314", "none", "any"),
                ("py313", "none", "any"), ("cp314", "abi3", "manylinux_2_17_x86_64"), ("cp320", "none", "any"),
                ("py313.py314", "none", "any"), ("cp313", "abi3", "manylinux2014_x86_64")]
def _host_glibc_tags() -> Tuple[List[Tuple[str, str, str]], List[Tuple[str, str, str]]]:
    """platform tags at, just below and just above the host's glibc for the host architecture (the newest
    manylinux_2_N_<arch> tag packaging.tags.sys_tags() lists), plus the legacy aliases"""
    import re
    import packaging.tags as PT
    best = None
    for t in PT.sys_tags():
        m = re.fullmatch(r"manylinux_(\d+)_(\d+)_(.+)", t.platform)
        if m and (best is None or (int(m.group(1)), int(m.group(2))) > best[:2]):
            best = (int(m.group(1)), int(m.group(2)), m.group(3))
    if best is None:
        return [], []
    ma, mi, arch = best
    at, below, above = ("manylinux_%d_%d_%s" % (ma, n, arch) for n in (mi, mi - 1, mi + 1))
    good = [("cp312", "cp312", at), ("py3", "none", at), ("cp312", "abi3", below), ("cp312", "cp312", at + "." + below),
            ("py3", "none", "manylinux1_" + arch), ("cp312", "cp312", "manylinux2010_" + arch), ("cp312", "abi3", "manylinux2014_" + arch),
            ("cp312", "cp312", at)]
    foreign = [("cp312", "cp312", above), ("py3", "none", above), ("cp312", "abi3", "manylinux_%d_%d_%s" % (ma + 1, 0, arch)),
               ("cp312", "cp312", "manylinux_%d_%d_%s" % (ma, mi + 10, arch))]
    return good, foreign


_G, _F = _host_glibc_tags()
GOOD_TAGS += _G
FOREIGN_TAGS += _F
BUILD_TAGS = ["", "", "", "", "1", "2", "1a", "10", "1_x"]
SDIST_EXT = [".tar.gz", ".tar.gz", ".zip", ".tgz", ".tar.bz2"]
BUDGETS = [None, None, 0, 1, 1, 2, 2, 3, 3, -1]
MALFORMED = ["foo_bar-1.0.egg", "foo_bar-1.0-py3-none.whl", "foo_bar-x.y-py3-none-any.whl", "foo-bar.tar.gz",
             "foo-bar-1.0.linux-x86_64.tar.gz", "foo bar-1.0.tar.gz", "foo_bar-1.0-py3-none-any.whl.txt",
             "foo-bar-1.0.win-amd64.zip", "foo_bar-1_0-py3-none-any.whl", "foo-bar-v2.0.tar.gz", "foo-bar-2.0-1.tar.gz",
             "foo_bar-1.0-1-2-py3-none-any.whl", "foo-bar-1.0.tar", "FOO_BAR-2.0.post1-py3-none-any.whl",
             "foo_bar-1.0--none-any.whl", "foo-bar-1.0.macosx-10.9-x86_64.tar.gz", "foo-bar-latest.zip"]


_REF_TAGS: Dict[str, Any] = {}


def ref_installable(filename: str) -> Optional[bool]:
    """Independent reading of 'installable on the running interpreter and platform' for a wheel FILE NAME
    (PEP 427 split, not the code's parser): every tag dimension must be one packaging.tags.sys_tags() lists for
    this interpreter (some python tag of the set is a supported interpreter tag, the ABI is 'none' or a supported
    ABI, some platform is supported).  None = outside the domain where this reading and req-compile's rule are
    meant to coincide (not a plain wheel name; bare 'cp3' / 'cp30' / 'cp31' python tags, which sys_tags never
    lists: C20's subject)."""
    import re
    if not _REF_TAGS:
        import packaging.tags as PT
        tags = list(PT.sys_tags())
        _REF_TAGS["py"] = {t.interpreter for t in tags}
        _REF_TAGS["abi"] = {t.abi for t in tags}
        _REF_TAGS["plat"] = {t.platform for t in tags}
    if not filename.endswith(".whl"):
        return None
    parts = filename[:-4].split("-")
    if len(parts) not in (5, 6):
        return None
    pys, abis, plats = parts[-3].split("."), parts[-2].split("."), parts[-1].split(".")
    for t in pys:
        m = re.fullmatch(r"([a-z][a-z])(\d)(\d*)", t)
        if not m:
            return None
        if m.group(1) != "py" and (m.group(3) == "" or (m.group(2) == "3" and int(m.group(3)) < 2)):
            return None
    return (any(t in _REF_TAGS["py"] for t in pys)
            and any(a == "none" or a in _REF_TAGS["abi"] for a in abis)
            and any(pl.lower() in _REF_TAGS["plat"] for pl in plats))


def ref_wheel(filename: str) -> Optional[Tuple[str, Any, str]]:
    """Independent PEP 427 reading of a wheel FILE NAME: (name, version, build tag) or None if it is not a wheel
    name of 5 or 6 dash-separated parts with a PEP 440 version ('_' in the version part stands for '-').  Names
    outside that shape (other part counts, other extensions) are not judged: returns ("?", None, "")."""
    from packaging.version import InvalidVersion, Version
    if not filename.endswith(".whl"):
        return ("?", None, "")
    parts = filename[:-4].split("-")
    if len(parts) not in (5, 6):
        return ("?", None, "")
    try:
        v = Version(parts[1].replace("_", "-"))
    except InvalidVersion:
        return None
    return (parts[0], v, parts[2] if len(parts) == 6 else "")


def translate(ctx: Ctx) -> Dict[str, str]:
    import translate as _tr
    return {"gen/NameConsts.v": _tr.gen_name_consts(), "gen/C03Consts.v": tr_c03.gen_c03_consts()}


def _imports():
    import enc440
    import pkg_resources
    from packaging.version import Version
    import req_compile.repos.repository as R
    import req_compile.utils as U
    import req_compile.errors as E
    import req_compile.containers as C
    logging.disable(logging.CRITICAL)
    return enc440, pkg_resources, Version, R, U, E, C


# ---- generation ------------------------------------------------------------------------

def _respell(V, extra_zero: bool, suffix: str = None) -> str:
    rel = ".".join(map(str, V.release)) + (".0" if extra_zero else "")
    s = ("%d!" % V.epoch if V.epoch else "") + rel
    if suffix is not None:
        return s + suffix
    if V.pre is not None:
        s += V.pre[0] + str(V.pre[1])
    if V.post is not None:
        s += ".post" + str(V.post)
    if V.dev is not None:
        s += ".dev" + str(V.dev)
    if V.local is not None:
        s += "+" + V.local
    return s


def gen_versions(rng, enc440) -> List[str]:
    from packaging.version import Version
    n = rng.choice([1, 2, 3, 3, 4, 5, 6])
    out: List[str] = []
    while len(out) < n:
        v = enc440.gen_version(rng, small=rng.random() < 0.5)
        out.append(v)
        r = rng.random()
        if r < 0.25:      # the same release as a pre / dev / post release
            out.append(_respell(Version(v), False, rng.choice(["a1", "rc1", ".dev1", ".post1", "b2"])))
        elif r < 0.35:    # an equal version spelled differently
            out.append(_respell(Version(v), True))
    return out


def escape_wheel_version(rng, v: str) -> str:
    """PEP 427: a '-' in the version part of a wheel name is written '_'.  `1.0.post1` can also be spelled `1.0-1`,
    which a wheel file name carries as `1.0_1`; some plain finals get such an escaped post-release too."""
    m = re.fullmatch(r"(.*)\.post(\d+)", v)
    if m and rng.random() < 0.6:
        return m.group(1) + "_" + m.group(2)
    if re.fullmatch(r"[0-9.!]+", v) and rng.random() < 0.06:
        return v + "_" + rng.choice(["1", "2"])
    return v


def gen_files(rng, enc440, versions: List[str], malformed: bool) -> List[str]:
    files: List[str] = []
    for v in versions:
        for _ in range(rng.choice([1, 1, 2, 2, 3])):
            wrong = rng.random() < 0.06
            if rng.random() < 0.6:
                name = rng.choice(WRONG_WHEEL if wrong else WHEEL_NAMES)
                py, abi, plat = rng.choice(GOOD_TAGS) if rng.random() < 0.75 else rng.choice(FOREIGN_TAGS)
                bt = rng.choice(BUILD_TAGS)
                files.append("-".join([name, escape_wheel_version(rng, v)] + ([bt] if bt else []) + [py, abi, plat]) + ".whl")
            else:
                name = rng.choice(WRONG_SDIST if wrong else SDIST_NAMES)
                files.append(name + "-" + v + rng.choice(SDIST_EXT))
    if rng.random() < 0.15 and files:
        files.append(rng.choice(files))                    # exact duplicate
    if malformed:
        for _ in range(rng.choice([1, 2, 3])):
            files.append(rng.choice(MALFORMED))
    rng.shuffle(files)
    return files


def gen_spec(rng, enc440, versions: List[str], Version) -> str:
    n = rng.choice([0, 0, 1, 1, 1, 2, 2, 3])
    cls = []
    for _ in range(n):
        if versions and rng.random() < 0.7:
            v = rng.choice(versions)
            op = rng.choice(["==", "==", ">=", ">=", "<=", "<", ">", "!=", "~=", "==*", "!=*"])
            pub = v.split("+")[0]
            if op in ("==*", "!=*"):
                rel = Version(v).release
                k = rng.choice([1, 2]) if len(rel) > 1 else 1
                cls.append(op[:2] + ("1!" if Version(v).epoch else "") + ".".join(map(str, rel[:k])) + ".*")
            elif op in ("==", "!="):
                cls.append(op + (v if rng.random() < 0.5 else pub))
            elif op == "~=":
                cls.append(op + (pub if len(Version(v).release) >= 2 else _respell(Version(pub), True)))
            else:
                cls.append(op + pub)
        else:
            cls.append(enc440.gen_clause(rng))
    return ",".join(cls)


def gen_focus_case(rng) -> Dict[str, Any]:
    """dense interaction stream: few simple versions, each as wheel and/or sdist (some pre-releases), many
    unreadable files, small budgets, binary-only half of the time: budget x skip x unreadable x fallback"""
    majors = rng.sample(range(1, 9), rng.choice([2, 3, 4, 5]))
    files: List[str] = []
    for m in majors:
        v = "%d.0" % m + rng.choice(["", "", "", "rc1", ".dev2", ".post1"])
        shape = rng.choice(["w", "w", "s", "s", "ws", "ws", "ww", "wws"])
        for k, ch in enumerate(shape):
            if ch == "w":
                py, abi, plat = rng.choice(GOOD_TAGS[:6] + _G[:3]) if rng.random() < 0.85 else rng.choice(FOREIGN_TAGS)
                bt = rng.choice(["", "", "1", "2"])
                files.append("-".join(["foo_bar", escape_wheel_version(rng, v)] + ([bt] if bt else []) + [py, abi, plat]) + ".whl")
            else:
                files.append("foo-bar-" + v + rng.choice(SDIST_EXT))
    rng.shuffle(files)
    p = rng.choice([0.2, 0.4, 0.6, 0.8])
    lo = min(majors)
    req = "foo-bar" + rng.choice(["", "", "", ">=%d.0" % lo, "<%d" % max(majors), ">=%d.0rc1" % lo, "!=%d.0" % max(majors),
                                   "==%d.0rc1" % rng.choice(majors), "==%d.*" % rng.choice(majors),
                                   ">=%d.0.dev1" % max(majors), ">=%d.0.dev1" % rng.choice(majors),
                                   "<%d.0.dev9,>%d.5" % (max(majors) + 1, max(majors) - 1),
                                   ">%d.5,<%d.0.dev9" % (lo - 1, max(majors))])
    return {"files": files, "unreadable": sorted({f for f in files if rng.random() < p}), "req": req,
            "allow_pre": rng.random() < 0.25, "allow_src": rng.random() < 0.5,
            "budget": rng.choice([None, 1, 2, 2, 2, 3, 3]), "source_cands": 0}


def gen_case(rng, enc440, Version, pkg_resources) -> Dict[str, Any]:
    if rng.random() < 0.4:
        return gen_focus_case(rng)
    malformed = rng.random() < 0.15
    versions = gen_versions(rng, enc440)
    files = gen_files(rng, enc440, versions, malformed)
    if rng.random() < 0.03:
        files = []
    for _ in range(20):
        spec = gen_spec(rng, enc440, versions, Version)
        reqs = rng.choice(PROJECT) + spec
        try:
            pkg_resources.Requirement.parse(reqs)
            break
        except Exception:
            continue
    else:
        reqs = "foo-bar"
    p = rng.choice([0.0, 0.0, 0.2, 0.4, 0.7, 1.0])
    unreadable = sorted({f for f in files if rng.random() < p})
    nsrc = 1 if rng.random() < 0.06 else 0
    return {"files": files, "unreadable": unreadable, "req": reqs, "allow_pre": rng.random() < 0.3,
            "allow_src": rng.random() < 0.7, "budget": rng.choice(BUDGETS), "source_cands": nsrc}


# ---- the real code ---------------------------------------------------------------------

def make_candidates(R, Version, case: Dict[str, Any]) -> List[Any]:
    out = []
    for f in case["files"]:
        try:
            c = R.filename_to_candidate(("mem", f), f)
        except Exception:
            c = None
        if c is not None:
            out.append(c)
    for i in range(case.get("source_cands", 0)):
        out.append(R.Candidate("foo-bar", "src-tree-%d" % i, Version("2.0"), None, None, "any", None,
                               candidate_type=R.DistributionType.SOURCE))
    return out


def make_repo(R, E, C, cands: List[Any], unreadable, allow_pre: bool):
    bad = set(unreadable)

    class MemRepo(R.Repository):
        def __init__(self) -> None:
            super().__init__("mem", allow_prerelease=allow_pre)
            self.resolved: List[str] = []

        def get_candidates(self, req=None, *args, **kwargs):
            return list(cands)

        def resolve_candidate(self, candidate, *args, **kwargs):
            self.resolved.append(candidate.filename)
            if candidate.filename in bad:
                raise E.MetadataError(candidate.name, candidate.version, ValueError("scripted"))
            return C.DistInfo(candidate.name, candidate.version, []), False

    return MemRepo()


def run_impl(mods, case: Dict[str, Any]) -> Tuple[str, List[Any], Any]:
    enc440, pkg_resources, Version, R, U, E, C = mods
    cands = make_candidates(R, Version, case)
    repo = make_repo(R, E, C, cands, case["unreadable"], case["allow_pre"])
    req = pkg_resources.Requirement.parse(case["req"])
    try:
        dist, _ = repo.get_dist(req, allow_source_dist=case["allow_src"], max_downgrade=case["budget"])
        obs = "F " + hx(dist.candidate.filename)
    except E.NoCandidateException:
        obs = "NC"
    except Exception as ex:  # any other exception class is an observation of its own
        common.reraise_harness_fault(ex)     # ... unless it is MemRepo's (the harness's) own error
        obs = "EXC " + type(ex).__name__
    return obs, cands, repo


def tag_score_of(c) -> List[int]:
    """Candidate.tag_score; an empty python tag makes it raise IndexError, but such a candidate never
    passes the python-tag test, so it is never sorted (C14/C20 territory)."""
    try:
        return list(c.tag_score)
    except IndexError:
        return [0, 0, 0, 0]


def cand_tokens(enc440, R, c, unreadable) -> List[str]:
    kind = {"WHEEL": "W", "SDIST": "S", "SOURCE": "O"}[c.type.name]
    usable = R.check_usability(None, c, allow_prereleases=True) is None
    extra = [ord(ch) for ch in c.extra_sort_info]
    ts = tag_score_of(c)
    return [hx(c.name), enc440.ver_token(c.version), kind, "1" if usable else "0",
            "0" if c.filename in unreadable else "1",
            str(len(extra))] + [str(x) for x in extra] + [str(len(ts))] + [str(x) for x in ts] + [hx(c.filename)]


def rq_tokens(enc440, req) -> Optional[List[str]]:
    st = enc440.spec_tokens(req.specifier)
    if st is None:
        return None
    return [hx(req.name)] + st


def case_lines(mods, case, cands) -> Optional[Dict[str, str]]:
    enc440, pkg_resources, Version, R, U, E, C = mods
    req = pkg_resources.Requirement.parse(case["req"])
    rq = rq_tokens(enc440, req)
    if rq is None:
        return None
    bad = set(case["unreadable"])
    ct = [str(len(cands))]
    for c in cands:
        ct += cand_tokens(enc440, R, c, bad)
    st = ["1" if case["allow_pre"] else "0", "1" if case["allow_src"] else "0",
          "N" if case["budget"] is None else str(case["budget"])]
    return {"G": " ".join(["G"] + rq + st + ct),
            "S0": " ".join(["S"] + rq + ["0"] + ct), "S1": " ".join(["S"] + rq + ["1"] + ct),
            "P": " ".join(["P"] + rq + ct)}


def impl_sorted(mods, case, allow: bool) -> str:
    enc440, pkg_resources, Version, R, U, E, C = mods
    cands = make_candidates(R, Version, case)
    req = pkg_resources.Requirement.parse(case["req"])
    out = R.sort_candidates(R.filter_candidates(req, cands, allow_prereleases=allow))
    return " ".join([str(len(out))] + [hx(c.filename) for c in out])


def impl_preds(mods, case, cands) -> str:
    enc440, pkg_resources, Version, R, U, E, C = mods
    req = pkg_resources.Requirement.parse(case["req"])
    return "".join("1" if b else "0" for b in (U.is_pinned_requirement(req), U.has_prerelease(req), R._is_all_prereleases(cands)))


def case_key(case) -> Any:
    return (tuple(case["files"]), tuple(case["unreadable"]), case["req"], case["allow_pre"], case["allow_src"],
            case["budget"], case.get("source_cands", 0))


def corpus_cases() -> List[Tuple[str, Dict[str, Any]]]:
    d = common.CORPUS / "C03"
    out = []
    if d.exists():
        for p in sorted(d.glob("*.json")):
            out.append((p.name, json.loads(p.read_text())["case"]))
    return out


def correspondence(ctx: Ctx) -> None:
    mods = _imports()
    enc440, pkg_resources, Version, R, U, E, C = mods
    rng = ctx.rng
    cases: List[Tuple[str, Dict[str, Any]]] = [("corpus:" + n, c) for n, c in corpus_cases()]
    n = ctx.n(3500, 80000)
    for i in range(n):
        cases.append(("gen", gen_case(rng, enc440, Version, pkg_resources)))
    lines: List[str] = []
    expect: List[Tuple[str, Dict[str, Any], str, Any]] = []
    seen_files: set = set()
    seen_names: set = set()
    for origin, case in cases:
        obs, cands, repo = run_impl(mods, case)
        ls = case_lines(mods, case, cands)
        if ls is None:
            ctx.count("skipped:===")
            continue
        by_file = {c.filename: c for c in cands}
        for f in case["files"]:
            rw = ref_wheel(f)
            if (rw is not None and rw[1] is None) or f in seen_names:
                continue
            seen_names.add(f)
            c = by_file.get(f)
            got = None if c is None else "%s %s %s" % (c.name, c.version, c.extra_sort_info)
            want = None if rw is None else "%s %s %s" % (rw[0], rw[1], rw[2])
            ctx.count("wheel-name:" + ("candidate" if want else "rejected") + (":escaped-version" if "_" in f[:-4].split("-")[1] else ""))
            ctx.case(key=("wheel-name", f), nontrivial=False)
            if got != want:
                ctx.mismatch("wheel-name-candidate", {"file": f}, got, want)
        for c in cands:
            ref = ref_installable(c.filename) if c.type == R.DistributionType.WHEEL else None
            if ref is None or c.filename in seen_files:
                continue
            seen_files.add(c.filename)
            got = R.check_usability(None, c, allow_prereleases=True) is None
            ctx.count("installable:%s" % ("yes" if ref else "no"))
            ctx.case(key=("installable", c.filename), nontrivial=False)
            if got != ref:
                ctx.mismatch("installable-vs-sys_tags", {"file": c.filename}, "usable" if got else "rejected",
                             "supported by sys_tags()" if ref else "not supported by sys_tags()")
        info = {"resolved": len(repo.resolved), "ncands": len(cands),
                "nfiltered": len(R.filter_candidates(pkg_resources.Requirement.parse(case["req"]), cands, allow_prereleases=case["allow_pre"]))}
        lines.append(ls["G"]); expect.append(("get_dist", case, obs, info))
        if origin != "gen" or i % 1 == 0:
            lines.append(ls["S0"]); expect.append(("sort-filter", case, impl_sorted(mods, case, False), None))
            lines.append(ls["S1"]); expect.append(("sort-filter-pre", case, impl_sorted(mods, case, True), None))
            lines.append(ls["P"]); expect.append(("predicates", case, impl_preds(mods, case, cands), None))
    answers = run_model("C03", lines)
    if len(answers) != len(lines):
        ctx.obligation_broken("model-runner:C03", f"{len(answers)} answers for {len(lines)} cases")
        return
    recheck: List[Tuple[Dict[str, Any], str]] = []
    for (where, case, exp, info), ans in zip(expect, answers):
        if where == "get_dist":
            chosen = common.unhx(exp[2:]) if exp.startswith("F ") else None
            ctx.count("answer:" + ("found" if chosen else exp.split()[0]))
            ctx.count("budget:" + str(case["budget"]))
            ctx.count("allow_pre:%d allow_src:%d" % (case["allow_pre"], case["allow_src"]))
            if chosen is not None:
                c = R.filename_to_candidate(None, chosen) if not chosen.startswith("src-tree") else None
                if c is not None:
                    ctx.count("chosen:" + c.type.name.lower() + (":prerelease" if c.version.is_prerelease else ""))
                else:
                    ctx.count("chosen:source")
            if info["resolved"] > 1:
                ctx.count("more-than-one-resolve")
            nontriv = info["nfiltered"] >= 2 or info["resolved"] >= 2
            ctx.case(key=case_key(case), nontrivial=nontriv,
                     sample={"case": case, "impl": exp, "model": ans} if ctx.evaluations % 611 == 0 else None)
            if len(recheck) < ctx.n(40, 150) and info["ncands"] <= 8:
                recheck.append((case, exp))
        else:
            ctx.case(key=(where,) + tuple(case_key(case)), nontrivial=False)
        if ans != exp:
            show = lambda s: [common.unhx(t) if i and len(t) > 1 else t for i, t in enumerate(s.split())] if where != "predicates" else s
            ctx.mismatch(where, case, show(exp), show(ans))
            if where == "get_dist":
                recheck.append((case, exp))
    coq_recheck(ctx, mods, recheck)


# ---- re-evaluation inside Coq ------------------------------------------------------------

def coq_cand(mods, c, bad) -> str:
    enc440, pkg_resources, Version, R, U, E, C = mods
    kind = {"WHEEL": "Wheel", "SDIST": "Sdist", "SOURCE": "Source"}[c.type.name]
    usable = R.check_usability(None, c, allow_prereleases=True) is None
    z = lambda x: "(%d)%%Z" % x
    return "(mkCand {} {} {} {} {} [{}] [{}] {})".format(
        common.coq_string(c.name), enc440.coq_version_tok(enc440.ver_token(c.version)), kind,
        "true" if usable else "false", "false" if c.filename in bad else "true",
        "; ".join(z(ord(ch)) for ch in c.extra_sort_info), "; ".join(z(x) for x in tag_score_of(c)),
        common.coq_string(c.filename))


def coq_recheck(ctx: Ctx, mods, items: List[Tuple[Dict[str, Any], str]]) -> None:
    enc440, pkg_resources, Version, R, U, E, C = mods
    if not items:
        return
    rows = []
    for case, exp in items:
        cands = make_candidates(R, Version, case)
        req = pkg_resources.Requirement.parse(case["req"])
        cls = []
        for sp in sorted(req.specifier, key=str):
            cls.append(enc440.coq_clause_toks(enc440.clause_tokens(sp)))
        rq = "(mkReq {} [] [{}] None)".format(common.coq_string(req.name), "; ".join(cls))
        st = "(mkSet {} {} {})".format("true" if case["allow_pre"] else "false", "true" if case["allow_src"] else "false",
                                        "None" if case["budget"] is None else "(Some (%d)%%Z)" % case["budget"])
        bad = set(case["unreadable"])
        cs = "[" + "; ".join(coq_cand(mods, c, bad) for c in cands) + "]"
        e = "None" if not exp.startswith("F ") else "(Some " + common.coq_string(common.unhx(exp[2:])) + ")"
        rows.append(f"({st}, {rq}, {cs}, {e})")
    header = ("From Coq Require Import List String Ascii NArith ZArith Bool.\n"
              "From RC Require Import lib.Pep440 model.Merge gen.C03Consts model.SelectC03.\nImport ListNotations.\nOpen Scope string_scope.\n")
    body = ["Definition cases : list (settings * req * list cand * option string) := [" + ";\n ".join(rows) + "].",
            "Definition obs (a : answer) : option string := match a with Found c => Some (cfile c) | NoCandidate => None end.",
            "Definition oeq (a b : option string) : bool := match a, b with Some x, Some y => String.eqb x y | None, None => true | _, _ => false end.",
            "Definition bad := filter (fun t => match t with (st, rq, cs, e) => negb (oeq (obs (get_dist st rq cs)) e) end) cases.",
            "Eval vm_compute in (List.length bad)."]
    exc = [1 for _, e in items if e.startswith("EXC")]
    ok, out = common.coq_eval("c03_cases", header, body)
    ctx.extra["coq_recheck"] = {"cases": len(rows), "ok": ok}
    expected_bad = len(exc)
    if not ok or f"= {expected_bad}" not in out:
        # disagreements already reported by the extracted model are confirmed here; anything else is new
        already = sum(1 for m in ctx.mismatches if m["where"] == "get_dist")
        if not ok or already == 0:
            ctx.mismatch("coq-vm_compute-recheck", {"n": len(rows)}, f"{expected_bad} mismatches", out[-400:])
        else:
            ctx.notes.append("vm_compute recheck confirms disagreement: " + out.strip()[-80:])


# ---- independent oracle: the property statement on the implementation only ---------------

def oracle(mods, case: Dict[str, Any]) -> Optional[str]:
    enc440, pkg_resources, Version, R, U, E, C = mods
    import re
    canonicalize_name = lambda n: re.sub(r"[-_. ]", "-", n.lower())   # one separator class, no run collapsing
    obs, cands, repo = run_impl(mods, case)
    listed = {c.filename for c in cands}
    for f in case["files"]:
        rw = ref_wheel(f)
        if rw is not None and rw[1] is not None and f not in listed:
            # a well-formed wheel name the code dropped: judged like any other candidate (name / version from the
            # independent reading; installability from the file name as well)
            parts = f[:-4].split("-")
            cands.append(R.Candidate(rw[0], f, rw[1], R.WheelVersionTags(tuple(parts[-3].split("."))),
                                     None if parts[-2] == "none" else parts[-2], parts[-1].split("."), None,
                                     candidate_type=R.DistributionType.WHEEL, extra_sort_info=rw[2]))
            listed.add(f)
    req = pkg_resources.Requirement.parse(case["req"])
    bad = set(case["unreadable"])
    want = canonicalize_name(req.name)
    pinned_versions = [Version(sp.version) for sp in req.specifier if sp.operator == "==" and not sp.version.endswith(".*")]

    def installable(c) -> bool:
        # independent reading (sys_tags) where it applies; otherwise (sdists, odd names, bare cp3 tags: C20's
        # subject) the implementation's verdict
        ref = ref_installable(c.filename) if c.type == R.DistributionType.WHEEL else None
        return ref if ref is not None else R.check_usability(None, c, allow_prereleases=True) is None

    def eligible(c) -> bool:         # could satisfy the request at all (pre-releases included)
        return (req.specifier.contains(c.version, prereleases=True) and installable(c)
                and (c.type != R.DistributionType.SDIST or case["allow_src"]))

    def good(c) -> bool:
        return c.filename not in bad and canonicalize_name(c.name) == want

    elig = [c for c in cands if eligible(c)]
    b = case["budget"]
    eff_budget = None if b is None else max(b, 1)

    def pool(flag: bool) -> List[Any]:
        return [c for c in elig if flag or not c.version.is_prerelease]

    def cut(p: List[Any]) -> bool:
        """could the scan of pool p have been stopped by the budget before reaching a readable candidate?"""
        if eff_budget is None:
            return False
        readable = [c.version for c in p if good(c)]
        top = max(readable) if readable else None
        failing = {c.version for c in p if not good(c) and (top is None or c.version >= top)}
        return len(failing) >= eff_budget

    if obs.startswith("EXC"):
        return "get_dist raised " + obs[4:]
    if obs.startswith("F "):
        fname = common.unhx(obs[2:])
        chosen = [c for c in cands if c.filename == fname]
        if not chosen:
            return "answer is not one of the candidates"
        c = chosen[0]
        if not any(installable(x) for x in chosen):
            return f"chosen {fname} is not installable on the running interpreter / platform (packaging.tags.sys_tags())"
        if not any(eligible(x) and good(x) for x in chosen):
            return f"chosen {fname} is not eligible (specifier / binary-only) or not readable / wrong name"
        pinned = any(Version(c.version.public) == pv or c.version == pv for pv in pinned_versions)
        flag = case["allow_pre"] or pinned or c.version.is_prerelease
        better = [x for x in pool(flag) if good(x) and x.version > c.version]
        if better:
            return f"chosen {fname} but readable eligible {better[0].filename} has a higher version"
        if eff_budget is not None:
            higher_failed = {x.version for x in pool(flag) if not good(x) and x.version > c.version}
            if len(higher_failed) >= eff_budget:
                return (f"chosen {fname} although {len(higher_failed)} distinct higher versions failed "
                        f"(budget {b}): the search should have given up")
        if c.type == R.DistributionType.SDIST:
            wheels = [x for x in pool(flag) if good(x) and x.type == R.DistributionType.WHEEL and x.version == c.version]
            if wheels:
                return f"sdist {fname} chosen although wheel {wheels[0].filename} of the same version is readable and eligible"
        if c.version.is_prerelease and not case["allow_pre"] and not pinned:
            finals = [x for x in pool(False) if good(x)]
            if finals:
                return f"pre-release {fname} chosen although final {finals[0].filename} is readable and eligible"
        return None
    # NoCandidate
    first = pool(case["allow_pre"] or bool(pinned_versions))
    if any(good(x) for x in first) and not cut(first):
        g = [x for x in first if good(x)][0]
        return f"NoCandidate although {g.filename} is eligible, readable and within the budget"
    # nothing but pre-releases can satisfy: the documented triggers of the pre-release pass are a requirement that
    # mentions a pre-release version (a/b/rc or .devN, PEP 440) or a listing that holds nothing but pre-releases
    second = pool(True)
    mentions = [sp.version for sp in req.specifier if not sp.version.endswith(".*") and Version(sp.version).is_prerelease]
    all_pre = all(c.version.is_prerelease for c in cands)
    if (not any(good(x) for x in first) and not cut(first) and any(good(x) for x in second) and not cut(second)
            and (mentions or all_pre)):
        g = max((x for x in second if good(x)), key=lambda x: x.version)
        trig = ("the requirement mentions the pre-release " + mentions[0]) if mentions else "only pre-releases are listed"
        return (f"NoCandidate although no final version can satisfy the request, {trig} and the pre-release "
                f"{g.filename} is eligible, readable and within the budget")
    return None


def search(ctx: Ctx) -> Optional[Dict[str, Any]]:
    mods = _imports()
    enc440, pkg_resources, Version, R, U, E, C = mods
    suspects = [m["case"] for m in ctx.mismatches if isinstance(m.get("case"), dict) and "files" in m["case"]]
    suspects += [c for _, c in corpus_cases()]
    rng = ctx.rng
    for _ in range(ctx.n(6000, 60000)):
        suspects.append(gen_case(rng, enc440, Version, pkg_resources))
    best = None
    for case in suspects:
        try:
            why = oracle(mods, case)
        except Exception:
            why = None
        if why:
            if best is None or len(case["files"]) < len(best["input"]["files"]):
                best = {"input": case, "why": why}
                if len(case["files"]) <= 3:
                    break
    return best


def replay(ctx: Ctx, payload: Dict[str, Any]) -> bool:
    fi = payload.get("failing_input")
    if not fi:
        return False
    return oracle(_imports(), fi["input"]) is not None


def replay_known(ctx: Ctx, entry: Dict[str, Any]) -> Optional[bool]:
    mods = _imports()
    data = json.loads((common.VERIF / entry["replay"]).read_text())
    obs, _, _ = run_impl(mods, data["case"])
    return obs == data["violating_observation"]


LEVEL_TEXT = ("Twelve theorems proved in Coq for all candidate lists, specifiers, settings and unreadable patterns over a Gallina "
              "model of filter_candidates / sort_candidates / do_get_candidate (stable descending insertion sort on the "
              "T1-read key, distinct-version budget, fallback pass guarded by the give-up flag): soundness, newest-version and "
              "best-key optimality, wheel before sdist, binary-only, the code's pre-release condition and the property's own "
              "declarative reading of it at full strength, completeness of NoCandidate, liveness.")
LEVEL_NOTE = ("Trusted: Coq kernel, extraction, OCaml driver, T1 translator, T2 harness; tag verdict and tag_score are inputs "
              "(C20); packaging semantics by sampling (C17); '===' outside the model.")
TECHNIQUE = "Rocq proof over Gallina model (StronglySorted insertion sort, scan invariants) + extraction-based differential correspondence"

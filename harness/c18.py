"""C18 - Source-tree discovery finds exactly the project roots (DESIGN.md section 4).

T2: generated directory trees are materialised under ctx.tmpdir(); a worker subprocess
(this same file, `--worker`) runs the real SourceRepository on them (walk alone,
parallelism 1 and 4, optionally with os.scandir delivering entries in a chosen order) and
reads the tree back in the listing order os.walk saw; the extracted Coq model gets that
read-back tree.  Compared: the ordered list yielded by _find_all_source_dirs, the set of
get_candidates(None) directories for both parallelism settings, and the exact candidate
order against the model's two-pass schedule fed with the observed completion orders.
"""
from __future__ import annotations

import hashlib
import json
import os
import subprocess
import sys
from pathlib import Path
from typing import Any, Dict, List, Optional, Tuple

import common     # (also in the worker process: run_impl uses its harness-fault helpers)

if __name__ != "__main__":
    import tr_c18
    from common import Ctx, hx, unhx, run_model

ID = "C18"
PROPS = ["props/C18.v"]
EXTRACTS = ["C18"]
THEOREMS = [
    "C18_discover_sound",
    "C18_discover_exact_partial",
    "C18_exclusion_by_components",
    "C18_discover_exact_string",
    "C18_discover_exact_general",
    "C18_root_marker_dir_lost_refuted",
    "C18_root_always_eligible",
    "C18_discover_order_free",
    "C18_perm_same_tree",
    "C18_discover_perm_free",
    "C18_schedule_free",
    "C18_exit_is_failed_project",
    "C18_offered_exact_partial",
    "C18_sequential_raises",
]
RULE = ("random directory trees (depth <= 4; directory names drawn from plain names, name-prefix siblings, "
        "SPECIAL_DIRS members and near-misses, test-directory names and near-misses, marker names; files: "
        "setup.py / setup.cfg / pyproject.toml in ok / failing / crashing variants, marker files, near-miss "
        "names; directory symlinks) with 0-3 excluded paths (tree directories, their character-prefixes, "
        "the root, its parent, '/', unrelated paths; decorated with trailing slash, '/./', 'x/..', relative) "
        "and optional custom marker names, materialised on disk; os.scandir order as the OS gives it or "
        "forced ascending / descending / shuffled.  Non-trivial = at least two directories hold a project "
        "file and pruning removed at least one of them; distinct = distinct (tree, excluded, markers, order).")
TRUSTED_BASE = [
    "T1 harness/tr_c18.py (exclusion test as of /repo ca4e69e: whole components): SPECIAL_DIRS, MARKER_FILES, project file tuple, test-directory rule, deferral file and the two allow_setup_py flags -> gen/C18Consts.v; literal shape check of _find_all_source_dirs / _extract_metadata / _find_all_distributions (fail-closed)",
    "T2 harness/c18.py: tree generator, materialisation, read-back of the tree in os.scandir order, canonicalisation (paths relative to the repository root)",
    "os.walk (top-down, in-place pruning of dirs, symlinked directories listed but not entered), os.path.abspath/basename/commonprefix, set iteration, multiprocessing.pool.ThreadPool.imap_unordered are specifications validated by T2 only",
    "req_compile.metadata.extract_metadata is an oracle input of the model (outcome per directory: container / MetadataError / other exception), measured on the real code per case",
    "modelled, not verified: req_compile/repos/source.py",
]
ASSUMPTIONS = [
    "sibling names are distinct, non-empty and contain no '/' (true of every directory tree)",
    "the repository path is not the filesystem root '/'",
    "unreadable directories (os.walk onerror) and trees that change during the walk are outside the model",
    "thread scheduling is modelled as two arbitrary permutations (execution order of the workers, delivery order of results)",
    "concurrent analyses do not interfere: the repaired code holds a process-wide lock around _extract_metadata (T1 reads it; without it the harness serialises _extract_metadata itself)",
    "project names are pairwise distinct in T2, so get_candidates(None) order is the order of _add_distribution calls",
]
LEVEL_TEXT = ("Fourteen theorems over a Gallina model of _find_all_source_dirs (pruned os.walk on string paths) and of the two-pass, "
              "optionally threaded collection, for ALL trees, excluded paths, marker sets, analysis outcomes and schedules: soundness "
              "(everything offered is a project root by path components), the code's string exclusion test equals exclusion by whole "
              "components (no sibling sharing a name prefix is lost), exactness inside one decidable guard plus an unguarded "
              "characterisation of the code, root eligibility, independence of the listing order (same-tree and permutation-at-any-"
              "depth forms, unguarded), independence of the worker schedule for all analysis outcomes (unguarded; a SystemExit is a "
              "failed project), and one _refuted witness replayed on /repo on every run: marker-named directories directly under "
              "the root are not entered although the statement does not disqualify them.  Tied to /repo by generated tables, a "
              "literal shape check of the methods and differential execution on trees materialised on disk (walk order, candidate "
              "sets and orders for parallelism 1 and 4).")
LEVEL_NOTE = ("Trusted: Coq kernel, extraction, OCaml driver, T1 reader, T2 harness; os.walk / ThreadPool semantics are validated by T2 "
              "only; the analysis outcome per directory is an oracle input measured on the real code; real thread interleavings are "
              "sampled (the repaired code runs one analysis at a time under its own lock; for a tree without that lock the harness "
              "serialises _extract_metadata itself), the theorem covers all schedules of the model.")
TECHNIQUE = "Rocq proof over Gallina model (structural induction on rose trees, Permutation algebra) + extraction-based differential correspondence on on-disk trees"

VBASE = "/B"          # virtual parent directory of every generated repository root

# ---------------------------------------------------------------------------------------------
# generator (independent of the code's tables on purpose: fixed pools)

PLAIN = ["pkg", "lib", "app", "core", "src", "a", "ab", "abc", "a-b", "proj", "x", "x.y", "mod", "svc", "util",
         "my proj", "caf\u00e9"]
SPECIALS = ["build", "dist", ".git", "venv", "node_modules", "__pycache__", "site-packages", ".eggs",
            ".github", ".svn", ".idea", "dist-packages", ".pytest_cache", ".mypy_cache"]
SPECIAL_NEAR = ["builds", "Build", "venv2", ".gitx", "distx", "_build", "env", ".venv", "build.old"]
TESTS = ["tests", "test", "x-tests", "x-test", "unit-tests", "integration-test", "a b-test", "\u0442-tests"]
TESTS_NEAR = ["tests2", "mytests", "test-", "-test", "-tests", "Tests", "testing", "test_x", "a-tests-b"]
CUSTOM_MARKERS = [".nomark", "SKIP", "MARK"]
FILE_NEAR = ["README", "setup.pyc", "Setup.py", "setup.cfg.bak", "pyproject.tom", "__init__.pyc", "init.py", "SKIP.txt"]

CFG_OK = "[metadata]\nname = {name}\nversion = 1.0\n"
PY_OK = "from setuptools import setup\nsetup(name=\"{name}\", version=\"1.0\")\n"
PPT_HEUR = "[build-system]\nrequires = [\"setuptools\"]\nbuild-backend = \"setuptools.build_meta\"\n"
PPT_OK = PPT_HEUR + "[project]\nname = \"{name}\"\nversion = \"1.0\"\n"
PPT_PROJONLY = "[project]\nname = \"{name}\"\nversion = \"1.0\"\n"
CONTENT = {
    "cfg_ok": CFG_OK, "cfg_bad": "garbage [\n", "py_ok": PY_OK, "py_bad": "raise RuntimeError('nope')\n",
    "ppt_heur": PPT_HEUR, "ppt_ok": PPT_OK, "ppt_empty": "\n", "ppt_projonly": PPT_PROJONLY,
    "ppt_crash": None,   # invalid utf-8, written as bytes
    "empty": "",
}


def _project_files(rng, dname: str, counter: List[int]) -> Dict[str, str]:
    counter[0] += 1
    r = rng.random()
    if dname == "setuptools":
        # req-compile refuses to run a setup.py for a directory called setuptools: fast failing project
        return rng.choice([{"setup.py": "py_bad"}, {"setup.py": "py_ok"}, {"setup.cfg": "cfg_ok"}])
    if r < 0.30:
        return {"setup.cfg": "cfg_ok"}
    if r < 0.55:
        return {"setup.py": "py_ok"}
    if r < 0.63:
        return {"setup.py": "py_ok", "setup.cfg": "cfg_ok"}
    if r < 0.70:
        return {"pyproject.toml": "ppt_heur", "setup.cfg": "cfg_ok"}
    if r < 0.76:
        return {"pyproject.toml": "ppt_heur", "setup.py": "py_ok"}
    if r < 0.84:
        return {"setup.cfg": "cfg_bad"}
    if r < 0.90:
        return {"pyproject.toml": "ppt_empty"}
    if r < 0.96:
        return {"pyproject.toml": "ppt_projonly"}
    if r < 0.975:
        return {"pyproject.toml": "ppt_crash"}
    return {"pyproject.toml": "ppt_projonly", "setup.cfg": "cfg_ok"}


def _dir_name(rng, siblings: List[str], markers: List[str]) -> str:
    for _ in range(20):
        r = rng.random()
        if siblings and r < 0.22:
            s = rng.choice(siblings)
            n = rng.choice([s + "2", s + "-old", s + "x", s[:-1] if len(s) > 1 else s + "0", s + ".bak", s + "-tests"])
        elif r < 0.50:
            n = rng.choice(PLAIN)
        elif r < 0.60:
            n = rng.choice(SPECIALS)
        elif r < 0.66:
            n = rng.choice(SPECIAL_NEAR)
        elif r < 0.78:
            n = rng.choice(TESTS)
        elif r < 0.84:
            n = rng.choice(TESTS_NEAR)
        elif r < 0.90:
            n = rng.choice(markers + ["__init__.py"]) if markers else rng.choice(CUSTOM_MARKERS)
        elif r < 0.93:
            n = "setuptools"
        else:
            n = rng.choice(PLAIN) + str(rng.randrange(3))
        if n and n not in siblings and n not in (".", "..") and "/" not in n:
            return n
    return "d%d" % len(siblings)


def gen_node(rng, depth: int, name: str, markers: List[str], counter: List[int], malformed: bool) -> Dict[str, Any]:
    node: Dict[str, Any] = {"f": {}, "d": {}}
    p_proj = 0.55 if depth <= 1 else 0.45
    if rng.random() < p_proj:
        node["f"].update(_project_files(rng, name, counter))
    if rng.random() < (0.16 if depth > 0 else 0.10):
        node["f"]["__init__.py"] = "empty"
    if markers and rng.random() < 0.10:
        node["f"][rng.choice(markers)] = "empty"
    has_proj = any(k in node["f"] for k in ("setup.py", "setup.cfg", "pyproject.toml"))
    if rng.random() < 0.25:
        # near-miss names next to real project files would only exercise the analysis code (its
        # archive lookup is case-insensitive and falls back to a 9 s egg-info build)
        node["f"][rng.choice(FILE_NEAR if not has_proj else ["README", "SKIP.txt", "__init__.pyc", "init.py"])] = "empty"
    if malformed and rng.random() < 0.3:
        node["f"][rng.choice(["setup.py ", " setup.cfg", "SETUP.PY", "tests", "build"] if not has_proj else ["tests", "build", "test"])] = "empty"
    if depth < 4:
        width = rng.choice([0, 1, 2, 2, 3, 3, 4]) if depth < 2 else rng.choice([0, 0, 1, 1, 2, 3])
        if depth == 0:
            width = max(width, 2)
        names: List[str] = []
        for _ in range(width):
            n = _dir_name(rng, names, markers)
            if n in node["f"]:
                continue
            names.append(n)
            if rng.random() < 0.04:
                node["d"][n] = {"link": True}
            else:
                node["d"][n] = gen_node(rng, depth + 1, n, markers, counter, malformed)
    return node


def all_dirs(node: Dict[str, Any], rel: Tuple[str, ...] = ()) -> List[Tuple[str, ...]]:
    out = [rel]
    for n, c in node.get("d", {}).items():
        if c.get("link"):
            out.append(rel + (n,))
        else:
            out += all_dirs(c, rel + (n,))
    return out


def gen_case(rng, idx: int) -> Dict[str, Any]:
    malformed = rng.random() < 0.15
    markers: Optional[List[str]] = None
    r = rng.random()
    if r < 0.35:
        markers = rng.sample(CUSTOM_MARKERS, rng.choice([1, 2, 2, 3]))
    elif r < 0.40:
        markers = []
    root = rng.choice(PLAIN + ["repo", "repo", "work"]) if rng.random() < 0.85 else rng.choice(SPECIALS + TESTS + ["setuptools", "SKIP"])
    counter = [0]
    tree = gen_node(rng, 0, root, markers or [], counter, malformed)
    dirs = [d for d in all_dirs(tree) if d]
    excl: List[str] = []
    decos: List[str] = []
    base = VBASE + "/" + root
    for _ in range(rng.choice([0, 0, 1, 1, 1, 2, 2, 3])):
        r = rng.random()
        if dirs and r < 0.45:
            e = base + "/" + "/".join(rng.choice(dirs))
        elif dirs and r < 0.70:
            # a character prefix of a directory path that is not on a component boundary
            full = base + "/" + "/".join(rng.choice(dirs))
            cut = rng.randrange(1, min(4, len(full) - len(base)) + 1)
            e = full[: len(full) - cut]
            if e.endswith("/"):
                e = e[:-1]
        elif r < 0.76:
            e = base
        elif r < 0.80:
            e = VBASE
        elif r < 0.83:
            e = "/"
        elif r < 0.88:
            e = "/zzz/other"
        elif r < 0.94 and dirs:
            e = base + "/" + "/".join(rng.choice(dirs)) + rng.choice(["x", "/nothere", "2"])
        else:
            e = base[:-1] if len(root) > 1 else base + "y"
        if e in excl or e == "" or (e != "/" and e.endswith("/")):
            continue
        if os.path.normpath(e) != e or e.startswith("//"):
            continue      # the model receives what os.path.abspath returns: only normalised strings
        excl.append(e)
        decos.append(rng.choice(["plain", "plain", "plain", "slash", "dot", "dotdot", "rel"]) if e != "/" else "plain")
    order = rng.choice(["os", "os", "asc", "desc", "shuf", "shuf"])
    return {"id": idx, "root": root, "tree": tree, "excl": excl, "deco": decos, "markers": markers,
            "order": order, "oseed": rng.randrange(1 << 30), "malformed": malformed}


def canon_case(case: Dict[str, Any]) -> str:
    c = {k: case[k] for k in ("root", "tree", "excl", "markers", "order", "oseed")}
    if c["order"] != "shuf":
        c["oseed"] = 0
    return json.dumps(c, sort_keys=True)


# ---------------------------------------------------------------------------------------------
# worker side (runs in a subprocess: real code only, no model)


def _real(e: str, casedir: str) -> str:
    if e == VBASE or e.startswith(VBASE + "/"):
        return casedir + e[len(VBASE):]
    if e.startswith(VBASE):          # e.g. "/Bx": keep it a sibling-ish string of the case dir
        return casedir + e[len(VBASE):]
    return e


def _decorate(p: str, how: str) -> str:
    if how == "slash":
        return p + "/"
    if how == "dot":
        i = p.rfind("/")
        return p[:i] + "/./" + p[i + 1:] if i > 0 else p
    if how == "dotdot":
        return p + "/zz/.."
    if how == "rel":
        return os.path.relpath(p)
    return p


def materialise(node: Dict[str, Any], path: str, targets: str, state: List[int]) -> None:
    os.makedirs(path, exist_ok=True)
    for fn, kind in node["f"].items():
        fp = os.path.join(path, fn)
        if kind == "ppt_crash":
            with open(fp, "wb") as fh:
                fh.write(b"\xff\xfe[project]\n")
        elif kind == "symlink":
            os.symlink("/nonexistent-target", fp)
        else:
            state[0] += 1
            with open(fp, "w") as fh:
                fh.write(CONTENT[kind].format(name="p%d" % state[0]))
    for dn, child in node["d"].items():
        dp = os.path.join(path, dn)
        if child.get("link"):
            state[0] += 1
            tgt = os.path.join(targets, "t%d" % state[0])
            os.makedirs(tgt, exist_ok=True)
            with open(os.path.join(tgt, "setup.cfg"), "w") as fh:
                fh.write(CFG_OK.format(name="linked%d" % state[0]))
            os.symlink(tgt, dp)
        else:
            materialise(child, dp, targets, state)


class _Scan:
    def __init__(self, entries):
        self._it = iter(entries)

    def __iter__(self):
        return self

    def __next__(self):
        return next(self._it)

    def __enter__(self):
        return self

    def __exit__(self, *a):
        return False

    def close(self):
        pass


def _order_key(order: str, oseed: int):
    if order == "asc":
        return lambda path, name: name
    if order == "desc":
        return lambda path, name: tuple(-ord(ch) for ch in name) + (1,)
    return lambda path, name: hashlib.sha1(("%d|%s|%s" % (oseed, os.path.basename(str(path)), name)).encode()).hexdigest()


class forced_order:
    """os.scandir delivers entries in a chosen order (os.walk lists directories with it)."""

    def __init__(self, order: str, oseed: int):
        self.order = order
        self.oseed = oseed

    def __enter__(self):
        if self.order == "os":
            return self
        self.real = os.scandir
        key = _order_key(self.order, self.oseed)
        real = self.real

        def patched(path=".", *a, **k):
            with real(path, *a, **k) as it:
                ents = list(it)
            ents.sort(key=lambda e: key(path, e.name))
            return _Scan(ents)
        os.scandir = patched
        return self

    def __exit__(self, *a):
        if self.order != "os":
            os.scandir = self.real
        return False


def read_back(path: str) -> List[Any]:
    """[name, files, subs] in os.scandir order, classified as os.walk classifies."""
    files: List[str] = []
    subs: List[Any] = []
    with os.scandir(path) as it:
        ents = list(it)
    for e in ents:
        try:
            isdir = e.is_dir()
        except OSError:
            isdir = False
        if isdir:
            if e.is_symlink():
                subs.append([e.name, [], []])          # listed, never entered
            else:
                subs.append(read_back(os.path.join(path, e.name)))
        else:
            files.append(e.name)
    return [os.path.basename(path), files, subs]


def _prepare(case: Dict[str, Any], casedir: str) -> Tuple[str, List[str]]:
    base = os.path.join(casedir, case["root"])
    if not os.path.exists(base):
        materialise(case["tree"], base, os.path.join(casedir, "_targets"), [case["id"] * 1000])
    args = [_decorate(_real(e, casedir), d) for e, d in zip(case["excl"], case["deco"])]
    return base, args


_PRISTINE: Dict[str, Any] = {}


def _save_pristine() -> None:
    import builtins
    import io
    _PRISTINE.update({"chdir": os.chdir, "getcwd": os.getcwd, "abspath": os.path.abspath,
                      "stdout": sys.stdout, "stderr": sys.stderr, "argv": list(sys.argv),
                      "io_open": io.open, "bopen": builtins.open})


def _restore_pristine() -> bool:
    """The metadata extractors monkey-patch os.chdir/getcwd/os.path.abspath process-wide and restore
    them non-atomically; under threads a fake may be left installed (C13's subject).  Returns True
    if something had leaked; always re-installs the originals so that the next case is not affected."""
    import builtins
    import io
    leaked = (os.chdir is not _PRISTINE["chdir"] or os.getcwd is not _PRISTINE["getcwd"]
              or os.path.abspath is not _PRISTINE["abspath"] or io.open is not _PRISTINE["io_open"]
              or builtins.open is not _PRISTINE["bopen"])
    os.chdir, os.getcwd, os.path.abspath = _PRISTINE["chdir"], _PRISTINE["getcwd"], _PRISTINE["abspath"]
    io.open, builtins.open = _PRISTINE["io_open"], _PRISTINE["bopen"]
    if hasattr(os, "getcwdu"):
        try:
            delattr(os, "getcwdu")
        except Exception:
            pass
    sys.stdout, sys.stderr = _PRISTINE["stdout"], _PRISTINE["stderr"]
    return leaked


def run_impl(case: Dict[str, Any], casedir: str, mode: str) -> Dict[str, Any]:
    import req_compile.errors
    import req_compile.metadata
    from req_compile.repos.source import SourceRepository

    _restore_pristine()
    base, args = _prepare(case, casedir)
    rel = lambda p: os.path.relpath(p, base)
    out: Dict[str, Any] = {}

    class WalkOnly(SourceRepository):
        def _find_all_distributions(self, *a, **k):  # the walk alone, real __init__
            self._excl_abs = list(common.arg_of(SourceRepository._find_all_distributions, (self,) + a, k, "excluded_paths", pos=1, default=()))

    def candidates(par: int) -> List[Any]:
        try:
            r = SourceRepository(base, excluded_paths=args, marker_files=case["markers"], parallelism=par)
            return ["OK", [rel(c.filename) for c in r.get_candidates(None)], [rel(p) for p in r._find_later]]
        except BaseException as ex:  # noqa
            common.reraise_harness_fault(ex)     # forced_order's scandir / the locked wrapper are the harness's
            return ["EXC", type(ex).__name__, []]

    with forced_order(case["order"], case["oseed"]):
        if mode in ("par", "raw"):
            if mode == "par":
                # Serialise the BODY of _extract_metadata across the pool threads (they still run in
                # the pool, pick tasks and deliver results in whatever order the scheduler gives): the
                # metadata extractors monkey-patch os / os.path.exists / io / sys process-wide while
                # they run, so an unserialised neighbour sees fakes -- even the deferral test
                # os.path.exists(join(d, "setup.py")) of _extract_metadata itself answers wrongly at
                # random (finding C18-parallel-analysis-races; C13's subject).  Only used when the code
                # under test does not hold its own lock (tr_c18: analysis_serialised = false).
                import threading
                lock = threading.Lock()
                real_em = SourceRepository._extract_metadata

                def locked_em(self, *a, **k):     # forwards the call as the code spelled it
                    with lock:
                        return real_em(self, *a, **k)
                SourceRepository._extract_metadata = locked_em
            try:
                out["cand4"] = candidates(4)
            finally:
                if mode == "par":
                    SourceRepository._extract_metadata = real_em
            out["patch_leak"] = _restore_pristine()
            return out
        out["tree"] = read_back(base)
        w = WalkOnly(base, excluded_paths=args, marker_files=case["markers"])
        out["walk"] = [rel(p) for p in w._find_all_source_dirs(w._excl_abs)]
        out["cand1"] = candidates(1)
    # the analysis oracle input: outcome of the real extract_metadata per walked directory
    an = {}
    for p in out["walk"]:
        try:
            req_compile.metadata.extract_metadata(os.path.normpath(os.path.join(base, p)))
            an[p] = "OK"
        except req_compile.errors.MetadataError:
            an[p] = "FAIL"
        except Exception:  # noqa
            an[p] = "CRASH"
        except BaseException:  # noqa  (SystemExit out of a build backend)
            an[p] = "EXIT"
    out["analysis"] = an
    out["patch_leak"] = _restore_pristine()
    return out


def worker_main(inp: str, outp: str) -> None:
    import logging
    import time
    import warnings
    warnings.simplefilter("ignore")
    repo = os.environ.get("VERIF_REPO", "/repo")
    sys.path.insert(0, repo)
    logging.disable(logging.CRITICAL)
    _save_pristine()
    job = json.loads(Path(inp).read_text())
    if job["mode"] in ("par", "raw"):
        _warm_up(os.path.join(job["dir"], "_warm_" + job["mode"]))
    res = []
    for case in job["cases"]:
        casedir = os.path.join(job["dir"], "c%d" % case["id"])
        os.makedirs(casedir, exist_ok=True)
        t0 = time.time()
        if job["mode"] in ("par", "raw"):
            r = _forked(case, casedir, job.get("attempts", 1), job["mode"], float(case.get("deadline", job.get("deadline", 20.0))))
        else:
            r = _guarded(case, casedir, "seq")
        r["t"] = round(time.time() - t0, 3)
        res.append(r)
    Path(outp).write_text(json.dumps(res))


def _warm_up(d: str) -> None:
    """Import everything the analysis needs before forking (each child would pay for it again)."""
    import req_compile.metadata
    from multiprocessing.pool import ThreadPool  # noqa
    for k, (fn, content) in enumerate([("setup.cfg", CFG_OK), ("setup.py", PY_OK), ("pyproject.toml", PPT_HEUR)]):
        dd = os.path.join(d, "w%d" % k)
        os.makedirs(dd, exist_ok=True)
        with open(os.path.join(dd, fn), "w") as fh:
            fh.write(content.format(name="warm%d" % k))
        try:
            req_compile.metadata.extract_metadata(dd)
        except BaseException:  # noqa
            pass
    _restore_pristine()


def _guarded(case: Dict[str, Any], casedir: str, mode: str) -> Dict[str, Any]:
    try:
        return run_impl(case, casedir, mode)
    except BaseException as ex:  # noqa
        import traceback
        _restore_pristine()
        return {"error": type(ex).__name__ + ": " + str(ex)[:300] + traceback.format_exc()[-600:]}


def _forked(case: Dict[str, Any], casedir: str, attempts: int, mode: str, deadline: float) -> Dict[str, Any]:
    """parallelism=4 in a forked child per case: the analysis code monkey-patches os / io / sys
    process-wide and does not restore reliably under threads (C13's subject), and a pool worker that
    dies leaves imap_unordered waiting for ever; neither may spill into the next case."""
    import select
    import signal
    runs = []
    for _ in range(attempts):
        rfd, wfd = os.pipe()
        pid = os.fork()
        if pid == 0:
            try:
                os.close(rfd)
                r = _guarded(case, casedir, mode)
                data = json.dumps(r).encode()
                os.write(wfd, data)
            finally:
                os._exit(0)
        os.close(wfd)
        buf = b""
        import time
        t0 = time.time()
        hang = False
        while True:
            left = deadline - (time.time() - t0)
            if left <= 0:
                hang = True
                break
            rl, _, _ = select.select([rfd], [], [], left)
            if not rl:
                hang = True
                break
            chunk = os.read(rfd, 1 << 16)
            if not chunk:
                break
            buf += chunk
        os.close(rfd)
        if hang:
            try:
                os.kill(pid, signal.SIGKILL)
            except OSError:
                pass
        os.waitpid(pid, 0)
        if hang:
            runs.append({"cand4": ["HANG", "no result after %d s" % deadline, []], "patch_leak": False})
        else:
            try:
                runs.append(json.loads(buf.decode()))
            except Exception:
                runs.append({"cand4": ["EXC", "child-died", []], "patch_leak": False})
    out = dict(runs[0])
    out["runs4"] = [r.get("cand4") for r in runs]
    out["patch_leak"] = any(r.get("patch_leak") for r in runs)
    return out


_SERIALISED: List[Optional[bool]] = [None]


def code_serialises_analysis() -> bool:
    """T1's reading of _extract_metadata: does the code under test run one analysis at a time?  If it
    does not (the unrepaired code), the harness serialises _extract_metadata itself (mode "par")."""
    if _SERIALISED[0] is None:
        try:
            _SERIALISED[0] = bool(tr_c18.read_source()["analysis_serialised"])
        except Exception:
            _SERIALISED[0] = False
    return _SERIALISED[0]


def run_worker(ctx: "Ctx", cases: List[Dict[str, Any]], tag: str, par_mode: str = "par", attempts: int = 1) -> List[Dict[str, Any]]:
    """Materialise (first process to need a case does it: the sequential one runs first for a moment,
    then both run side by side) and run the real code: one process for walk / parallelism=1 / analysis,
    a second one for parallelism=4 (thread-unsafe monkey-patching must not contaminate the first)."""
    d = ctx.tmpdir() / tag
    d.mkdir(parents=True, exist_ok=True)
    env = dict(os.environ)
    env["VERIF_REPO"] = str(common.REPO)
    import zlib
    # set(source_dirs) is iterated in hash order: a different (reproducible) seed per batch
    env["PYTHONHASHSEED"] = str((zlib.crc32(tag.encode()) + ctx.seed) % 4096)
    # materialise here so that the two processes never race on creation
    for case in cases:
        casedir = d / ("c%d" % case["id"])
        casedir.mkdir(exist_ok=True)
        _prepare(case, str(casedir))
    procs = []
    if par_mode == "par" and code_serialises_analysis():
        par_mode = "raw"      # the code under test holds its own lock: run it as it is
    for mode in ("seq", par_mode):
        inp, outp = d / f"in-{mode}.json", d / f"out-{mode}.json"
        inp.write_text(json.dumps({"dir": str(d), "cases": cases, "mode": mode, "attempts": attempts}))
        procs.append((mode, outp, subprocess.Popen(
            [common.PY, str(Path(__file__).resolve()), "--worker", str(inp), str(outp)],
            cwd=str(d), env=env, stdout=subprocess.DEVNULL, stderr=subprocess.PIPE, text=True)))
    outs = {}
    for mode, outp, p in procs:
        _, err = p.communicate(timeout=3000)
        if p.returncode != 0 or not outp.exists():
            raise RuntimeError(f"C18 worker ({mode}) failed: " + (err or "")[-1500:])
        outs[mode] = json.loads(outp.read_text())
    merged = []
    for a, b in zip(outs["seq"], outs[par_mode]):
        r = dict(a)
        if "error" in b and "error" not in r:
            r["error"] = b["error"]
        r["cand4"] = b.get("cand4")
        r["runs4"] = b.get("runs4")
        r["leak4"] = b.get("patch_leak", False)
        r["t4"] = b.get("t")
        merged.append(r)
    return merged


# ---------------------------------------------------------------------------------------------
# model side


def enc_tree(t: List[Any]) -> str:
    name, files, subs = t
    return " ".join([hx(name), str(len(files))] + [hx(f) for f in files] + [str(len(subs))] + [enc_tree(s) for s in subs])


def enc_common(case: Dict[str, Any], tree: List[Any]) -> str:
    base = VBASE + "/" + case["root"]
    excl = case["excl"]
    user = case["markers"] or []
    return " ".join([hx(base), str(len(excl))] + [hx(e) for e in excl] + [str(len(user))] + [hx(m) for m in user] + [enc_tree(tree)])


def vpath(case: Dict[str, Any], rel: str) -> str:
    base = VBASE + "/" + case["root"]
    return base if rel == "." else base + "/" + rel


def rel_of(case: Dict[str, Any], p: str) -> str:
    base = VBASE + "/" + case["root"]
    if p == base:
        return "."
    return p[len(base) + 1:] if p.startswith(base + "/") else "!" + p


def dec_paths(case: Dict[str, Any], toks: List[str]) -> List[str]:
    n = int(toks[0])
    return [rel_of(case, unhx(t)) for t in toks[1:1 + n]]


def dec_collected(case: Dict[str, Any], ans: str) -> List[Any]:
    toks = ans.split()
    if toks[0] == "OK":
        return ["OK", dec_paths(case, toks[1:])]
    return [toks[0]]


def enc_table(case: Dict[str, Any], analysis: Dict[str, str]) -> str:
    items = sorted(analysis.items())
    return " ".join([str(len(items))] + [hx(vpath(case, p)) + " " + o for p, o in items])


def enc_pathlist(case: Dict[str, Any], rels: List[str]) -> str:
    return " ".join([str(len(rels))] + [hx(vpath(case, p)) for p in rels])


# ---------------------------------------------------------------------------------------------
# independent oracle: the property STATEMENT on a tree description (no model, no code tables
# except the public constants the statement names)

ORACLE_SPECIAL = {"site-packages", "dist-packages", ".git", ".github", ".svn", ".idea", "__pycache__", "node_modules",
                  "venv", ".eggs", "build", "dist", ".pytest_cache", ".mypy_cache"}
ORACLE_PROJECT = ("setup.py", "setup.cfg", "pyproject.toml")


def _is_test_name(n: str) -> bool:
    return n in ("tests", "test") or n.endswith("-tests") or n.endswith("-test")


def _comps(p: str) -> List[str]:
    return [c for c in p.split("/") if c]


def oracle_roots(case: Dict[str, Any], tree: List[Any]) -> List[str]:
    """Relative directories the statement says must be offered by the walk (tree = read-back form)."""
    markers = {"__init__.py"} | set(case["markers"] or [])
    base_c = _comps(VBASE + "/" + case["root"])
    excl_c = [_comps(e) for e in case["excl"]]
    out: List[str] = []

    def carries(t) -> bool:
        return any(f in markers for f in t[1]) or any(s[0] in markers for s in t[2])

    def go(t, relc: List[str]) -> None:
        if any(f in ORACLE_PROJECT for f in t[1]):
            out.append("/".join(relc) if relc else ".")
        parent_proj = any(f in ORACLE_PROJECT for f in t[1])
        for s in t[2]:
            n = s[0]
            absc = base_c + relc + [n]
            if n in ORACLE_SPECIAL:
                continue
            if any(absc[:len(e)] == e for e in excl_c):
                continue
            if carries(s):
                continue
            if parent_proj and _is_test_name(n):
                continue
            go(s, relc + [n])
    go(tree, [])
    return out


def guards(case: Dict[str, Any], tree: List[Any]) -> Tuple[bool, bool]:
    """(root_guard, name_prefix_case): the decidable guard of C18_discover_exact_partial recomputed on
    the case description in Python (compared with the model's root_guardb on every case), and whether
    some excluded path is a character prefix of a directory's path without being a component prefix
    (the situation of the former prefix-sibling defect, fixed by ca4e69e: counted, no longer a guard)."""
    markers = {"__init__.py"} | set(case["markers"] or [])
    base = VBASE + "/" + case["root"]
    base_c = _comps(base)
    paths: List[str] = []

    def go(t, p):
        for s in t[2]:
            paths.append(p + "/" + s[0])
            go(s, p + "/" + s[0])
    go(tree, base)
    prefix_case = False
    for e in case["excl"]:
        ec = _comps(e)
        for p in paths + [base]:
            if p.startswith(e) and _comps(p)[:len(ec)] != ec:
                prefix_case = True
    root_excl0 = case["root"] in ORACLE_SPECIAL or any(base_c[:len(_comps(e))] == _comps(e) for e in case["excl"])
    root_guard = root_excl0 or not any(s[0] in markers for s in tree[2])
    return root_guard, prefix_case


def in_guard(case: Dict[str, Any], tree: List[Any]) -> Tuple[bool, str]:
    rg, _ = guards(case, tree)
    if not rg:
        return False, "root-marker-dir"
    return True, ""


def enc_guard_line(case: Dict[str, Any], tree: List[Any]) -> str:
    bc = _comps(VBASE + "/" + case["root"])
    ecs = [_comps(e) for e in case["excl"]]
    user = case["markers"] or []
    toks = [str(len(bc))] + [hx(c) for c in bc] + [str(len(ecs))]
    for ec in ecs:
        toks += [str(len(ec))] + [hx(c) for c in ec]
    toks += [str(len(user))] + [hx(m) for m in user] + [enc_tree(tree)]
    return "G " + " ".join(toks)


# ---------------------------------------------------------------------------------------------
# T1 / T2


def translate(ctx: "Ctx") -> Dict[str, str]:
    return {"gen/C18Consts.v": tr_c18.gen_consts()}


def corpus_cases() -> List[Dict[str, Any]]:
    out = []
    d = common.CORPUS / "C18"
    if d.exists():
        for f in sorted(d.glob("*.json")):
            c = json.loads(f.read_text())
            for k, cc in enumerate(c["cases"] if "cases" in c else [c]):
                cc = dict(cc)
                cc["corpus"] = f.name
                out.append(cc)
    return out


def compare_cases(ctx: "Ctx", cases: List[Dict[str, Any]], results: List[Dict[str, Any]]) -> None:
    lines: List[str] = []
    plan: List[Tuple[int, str]] = []
    for i, (case, res) in enumerate(zip(cases, results)):
        if "error" in res:
            ctx.mismatch("worker-error", canon_case(case), res["error"], None)
            continue
        com = enc_common(case, res["tree"])
        lines.append("W " + com)
        plan.append((i, "W"))
        lines.append(enc_guard_line(case, res["tree"]))
        plan.append((i, "G"))
        tbl = enc_table(case, res["analysis"])
        lines.append("D " + com + " " + tbl)
        plan.append((i, "D"))
        for par in (1, 4):
            c = res["cand%d" % par]
            if c[0] == "OK":
                obs, later = c[1], c[2]
                rest = [p for p in res["walk"] if p not in later]
                sigma = later + rest
                tau = obs + [p for p in res["walk"] if p not in obs]
            else:
                sigma = tau = res["walk"]
            lines.append("S " + com + " " + tbl + " " + ("1" if par != 1 else "0") + " "
                         + enc_pathlist(case, sigma) + " " + enc_pathlist(case, tau))
            plan.append((i, "S%d" % par))
    answers = run_model("C18", lines)
    if len(answers) != len(lines):
        ctx.obligation_broken("model-runner:C18", f"{len(answers)} answers for {len(lines)} cases")
        return
    by_case: Dict[int, Dict[str, str]] = {}
    for (i, k), a in zip(plan, answers):
        by_case.setdefault(i, {})[k] = a
    for i, (case, res) in enumerate(zip(cases, results)):
        if "error" in res:
            continue
        key = canon_case(case)
        ans = by_case[i]
        if any(a.startswith("!") for a in ans.values()):
            ctx.mismatch("model-runner", key, None, ans)
            continue
        ctx.count("order:" + case["order"])
        ctx.count("excluded-paths:%d" % len(case["excl"]))
        ctx.count("markers:" + ("default" if case["markers"] is None else str(len(case["markers"]))))
        ctx.count("stream:" + ("malformed" if case.get("malformed") else "structured"))
        if res.get("leak4"):
            ctx.count("par4:os-patch-leaked-from-worker-threads(restored-by-harness)")
        ctx.extra["impl_wall_seq"] = round(ctx.extra.get("impl_wall_seq", 0) + res.get("t", 0), 2)
        ctx.extra["impl_wall_par"] = round(ctx.extra.get("impl_wall_par", 0) + (res.get("t4") or 0), 2)
        tree = res["tree"]
        n_proj = _count_project_dirs(tree)
        walk_impl = res["walk"]
        walk_model = dec_paths(case, ans["W"].split())
        ctx.count("walked-dirs", len(walk_impl))
        guard_ok, why = in_guard(case, tree)
        ctx.count("guard:" + ("inside" if guard_ok else why))
        rg_py, prefix_case = guards(case, tree)
        if prefix_case:
            ctx.count("name-prefix-of-excluded-path-cases")
        g_py = "%d" % int(rg_py)
        if g_py != ans["G"]:
            ctx.mismatch("guards", _case_payload(case, res), g_py, ans["G"])
        elif guard_ok and sorted(walk_model) != sorted(oracle_roots(case, tree)):
            # inside the guards the model must agree with the statement read in Python (the theorem
            # says so; this only protects against an oracle / encoding slip in the harness)
            ctx.mismatch("oracle-vs-model-inside-guard", _case_payload(case, res), sorted(oracle_roots(case, tree)), sorted(walk_model))
        nontrivial = n_proj >= 2 and len(walk_impl) < n_proj and len(walk_impl) >= 1
        ctx.case(key=key, nontrivial=nontrivial,
                 sample=({"root": case["root"], "excl": case["excl"], "markers": case["markers"], "order": case["order"],
                          "tree": tree, "walk_impl": walk_impl, "walk_model": walk_model,
                          "cand1": res["cand1"][:2], "cand4": res["cand4"][:2]} if (i % 37 == 5) else None))
        if walk_impl != walk_model:
            ctx.mismatch("walk", _case_payload(case, res), walk_impl, walk_model)
            ctx.extra.setdefault("_walk_disagree", []).append(i)
        # collected set for both parallelism settings against the model run on the observed schedule,
        # and (when nothing raised) against the sequential model `discover`
        dm = dec_collected(case, ans["D"])
        status = {"OK": "OK", "EXC": "RAISED", "HANG": "HANG"}
        for par in (1, 4):
            c = res["cand%d" % par]
            sm = dec_collected(case, ans["S%d" % par])
            ctx.count("collect-par%d:%s" % (par, status.get(c[0], c[0])))
            if c[0] == "OK":
                if sm != ["OK", c[1]]:
                    ctx.mismatch("schedule-par%d" % par, _case_payload(case, res), ["OK", c[1], "later", c[2]], sm)
                if dm[0] != "OK" or sorted(dm[1]) != sorted(c[1]):
                    ctx.mismatch("candidates-par%d" % par, _case_payload(case, res), ["OK", sorted(c[1])], dm)
                if c[2]:
                    ctx.count("deferred-second-pass-cases")
            else:
                if sm == ["DEQUE"]:
                    sm = ["RAISED"]       # RuntimeError: deque mutated during iteration
                if sm != [status.get(c[0], c[0])]:
                    ctx.mismatch("schedule-par%d" % par, _case_payload(case, res), c[:2], sm)


def _case_payload(case: Dict[str, Any], res: Dict[str, Any]) -> Dict[str, Any]:
    return {"case": {k: case[k] for k in ("id", "root", "tree", "excl", "deco", "markers", "order", "oseed")},
            "readback": res.get("tree")}


def _count_project_dirs(t: List[Any]) -> int:
    return (1 if any(f in ORACLE_PROJECT for f in t[1]) else 0) + sum(_count_project_dirs(s) for s in t[2])


def coq_tree(t: List[Any]) -> str:
    return "(Dir {} [{}] [{}])".format(common.coq_string(t[0]), "; ".join(common.coq_string(f) for f in t[1]),
                                       "; ".join(coq_tree(s) for s in t[2]))


def coq_recheck(ctx: "Ctx", cases: List[Dict[str, Any]], results: List[Dict[str, Any]], limit: int) -> None:
    items = []
    first = ctx.extra.pop("_walk_disagree", [])[:40]     # every disagreeing case is re-evaluated in Coq
    order = first + [i for i in range(len(cases)) if i not in set(first)]
    for i in order:
        case, res = cases[i], results[i]
        if "error" in res or len(items) >= limit + len(first):
            continue
        sl = lambda xs: "[" + "; ".join(common.coq_string(x) for x in xs) + "]"
        expect = [vpath(case, p) for p in res["walk"]]
        items.append("({}, {}, {}, {}, {})".format(common.coq_string(VBASE + "/" + case["root"]), coq_tree(res["tree"]),
                                                   sl(case["excl"]), sl(case["markers"] or []), sl(expect)))
    if not items:
        return
    header = ("From Coq Require Import List String Ascii Bool.\nFrom RC Require Import model.DiscoverC18.\n"
              "Import ListNotations.\nOpen Scope string_scope.\n")
    body = ["Definition cases : list (string * tree * list string * list string * list string) := [" + ";\n ".join(items) + "].",
            "Definition bad := filter (fun c => match c with (b, t, e, u, x) => "
            "negb (if list_eq_dec string_dec (walk_paths b t e u) x then true else false) end) cases.",
            "Eval vm_compute in (List.length bad)."]
    ok, out = common.coq_eval("c18_cases", header, body)
    ctx.extra["coq_recheck"] = {"cases": len(items), "ok": ok, "disagreeing_cases_included": len(first)}
    if not ok or "= 0" not in out:
        ctx.mismatch("coq-vm_compute-recheck", {"n": len(items)}, "0 mismatches", out[-400:])


def correspondence(ctx: "Ctx") -> None:
    rng = ctx.rng
    # corpus first (witnesses of the _refuted theorems and earlier failures)
    cc = corpus_cases()
    if cc:
        for k, c in enumerate(cc):
            c["id"] = 900000 + k
        res = run_worker(ctx, cc, "corpus")
        compare_cases(ctx, cc, res)
        ctx.count("corpus-cases", len(cc))
    n = ctx.n(int(os.environ.get("C18_N", "500")), 8000)
    cases = [gen_case(rng, i) for i in range(n)]
    results: List[Dict[str, Any]] = []
    chunk = 2000
    for k in range(0, n, chunk):
        results += run_worker(ctx, cases[k:k + chunk], "gen%d" % k)
    compare_cases(ctx, cases, results)
    coq_recheck(ctx, cases, results, ctx.n(25, 120))
    # the exclusion test on strings, against the expression of the code evaluated by CPython
    xs = []
    pool = ["/B/r", "/B/r/excl", "/B/r/excl2", "/B/r/excl/sub", "/B/r/ex", "/B", "/", "/B/r/excl/", "/B/r//", "//", "",
            "/B/r/excl//x", "/Bx", "/B/r/exc l", "/B/r/excl2/y"]
    for _ in range(ctx.n(300, 3000)):
        e, pth = rng.choice(pool), rng.choice(pool)
        if rng.random() < 0.3:
            e = pth[: rng.randrange(len(pth) + 1)]
        xs.append((e, pth))
    answers = run_model("C18", ["X " + hx(e) + " " + hx(pth) for e, pth in xs])
    for (e, pth), a in zip(xs, answers):
        exp = hx(e.rstrip(os.sep)) + " " + ("1" if (pth == e or pth.startswith(e.rstrip(os.sep) + os.sep)) else "0")
        ctx.case(key=("X", e, pth), nontrivial=False)
        ctx.count("kind:exclusion-test")
        if a != exp:
            ctx.mismatch("exclusion-test", [e, pth], exp, a)
    # basename / test-directory rule on strings
    names = sorted(set(PLAIN + SPECIALS + SPECIAL_NEAR + TESTS + TESTS_NEAR + ["a/b", "/x/y/tests", "x/", "", "/", "a//b-test"]))
    answers = run_model("C18", ["B " + hx(s) for s in names])
    for s, a in zip(names, answers):
        exp = hx(os.path.basename(s)) + " " + ("1" if _is_test_name(s) else "0")
        ctx.case(key=("B", s), nontrivial=False)
        ctx.count("kind:basename")
        if a != exp:
            ctx.mismatch("basename/test-name", s, exp, a)


# ---------------------------------------------------------------------------------------------
# violation search (only after a break): the statement, checked on the real code


def oracle_check(case: Dict[str, Any], res: Dict[str, Any]) -> Optional[str]:
    """Why the real code violates the property statement on this case, inside the guards."""
    if "error" in res:
        return None
    tree = res["tree"]
    ok, _ = in_guard(case, tree)
    if not ok:
        return None          # listed known findings live there
    want = sorted(oracle_roots(case, tree))
    got = sorted(res["walk"])
    if got != want:
        lost = [p for p in want if p not in got]
        extra = [p for p in got if p not in want]
        return f"walk offers {got}, the statement requires {want} (lost {lost}, extra {extra})"
    an = res.get("analysis", {})
    if any(v == "CRASH" for v in an.values()):
        exp: Any = "EXC"
    else:
        exp = sorted(p for p in want if an.get(p) == "OK")
    for par in (1, 4):
        c = res["cand%d" % par]
        obs = sorted(c[1]) if c[0] == "OK" else "EXC"
        if obs != exp:
            return f"parallelism={par}: candidates {obs}, expected {exp}"
        if c[0] == "OK" and len(set(c[1])) != len(c[1]):
            return f"parallelism={par}: a directory is offered twice"
    return None


def order_check(ctx: "Ctx", case: Dict[str, Any], tag: str) -> Optional[str]:
    """Same tree listed ascending / descending / shuffled: the offered set must not change."""
    variants = []
    for k, o in enumerate(["asc", "desc", "shuf"]):
        c = dict(case)
        c["order"] = o
        c["id"] = case["id"] * 10 + k
        variants.append(c)
    res = run_worker(ctx, variants, tag)
    sets = []
    for c, r in zip(variants, res):
        if "error" in r:
            return None
        sets.append((c["order"], sorted(r["walk"]), sorted(r["cand1"][1]) if r["cand1"][0] == "OK" else "EXC"))
    if len({json.dumps(s[1:]) for s in sets}) > 1:
        return "offered set depends on the listing order: " + json.dumps(sets)
    return None


def search(ctx: "Ctx") -> Optional[Dict[str, Any]]:
    rng = ctx.rng
    suspects: List[Dict[str, Any]] = []
    for mm in ctx.mismatches:
        c = mm.get("case")
        if isinstance(c, dict) and "case" in c:
            suspects.append(dict(c["case"]))
    fresh = [gen_case(rng, 500000 + i) for i in range(ctx.n(600, 6000))]
    batch = suspects + fresh
    for k, c in enumerate(batch):
        c["id"] = 700000 + k
    results = run_worker(ctx, batch, "search")
    for c, r in zip(batch, results):
        why = oracle_check(c, r)
        if why:
            return {"kind": "tree", "input": _case_payload(c, r)["case"], "why": why}
    for k, c in enumerate(batch[: ctx.n(120, 1500)]):
        why = order_check(ctx, c, "search-order%d" % k)
        if why:
            return {"kind": "order", "input": _case_payload(c, {})["case"], "why": why}
    return None


def replay(ctx: "Ctx", payload: Dict[str, Any]) -> bool:
    fi = payload.get("failing_input")
    if not fi:
        return False
    case = dict(fi["input"])
    case["id"] = 800000
    if fi.get("kind") == "order":
        return order_check(ctx, case, "replay-order") is not None
    res = run_worker(ctx, [case], "replay")
    return oracle_check(case, res[0]) is not None


def replay_known(ctx: "Ctx", entry: Dict[str, Any]) -> Optional[bool]:
    f = common.VERIF / entry["replay"]
    data = json.loads(f.read_text())
    cases = []
    for k, c in enumerate(data["cases"]):
        c = dict(c)
        c["id"] = 600000 + k
        cases.append(c)
    raw = data["kind"] == "parallel-races"
    res = run_worker(ctx, cases, "known-" + entry["id"], par_mode="raw" if raw else "par", attempts=3 if raw else 1)
    if any("error" in r for r in res):
        return None
    r = res[0]
    if data["kind"] == "lost-sibling":
        # fixed by ca4e69e: True (= the defect is back) iff the sibling is lost again
        return data["lost"] not in r["walk"] or data["lost"] not in (r["cand1"][1] if r["cand1"][0] == "OK" else [])
    if data["kind"] == "order-dependent":
        # fixed: True (= the defect is back) iff the two listing orders give different sets again
        return sorted(res[0]["walk"]) != sorted(res[1]["walk"])
    if data["kind"] == "hang":
        # fixed: True iff a SystemExit out of a build backend again escapes / hangs the constructor
        return r["cand1"][0] != "OK" or r["cand4"][0] != "OK" or sorted(r["cand1"][1]) != sorted(r["cand4"][1])
    if data["kind"] == "marker-dir-not-entered":
        return data["lost"] not in r["walk"]
    if raw:
        # fixed: True iff an unserialised parallel run differs from the sequential one again
        seq = ["OK", sorted(r["cand1"][1])] if r["cand1"][0] == "OK" else [r["cand1"][0]]
        runs = [["OK", sorted(x[1])] if x[0] == "OK" else [x[0]] for x in (r.get("runs4") or [])]
        ctx.extra["raw_parallel_runs"] = {"sequential": seq, "parallelism4_as_is": runs}
        return any(x != seq for x in runs)
    return None


if __name__ == "__main__":
    if len(sys.argv) == 4 and sys.argv[1] == "--worker":
        worker_main(sys.argv[2], sys.argv[3])
    else:
        print("usage: c18.py --worker in.json out.json")
        sys.exit(2)

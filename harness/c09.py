"""C09 - Every run ends in a solution or an honest, located failure (DESIGN.md section 4).  Thin wrapper over solver_property.py."""
from __future__ import annotations

from typing import Any, Dict, List, Optional

import sys

import common
import solver_property as SP
from common import Ctx

ID = "C09"
PROPS = ["props/C09.v"]
EXTRACTS = ["Solver"]
THEOREMS = ['C09_no_candidate_is_honest_partial', 'C09_reported_chains_are_real', 'C09_refuted_internal_errors_escape', 'C09_refuted_unbounded_recursion', 'C09_refuted_is_possible_unsound', 'C09_unusable_solution_line_is_diagnosed',
            'C09_unusable_repository_argument_is_diagnosed_partial', 'C09_reported_failures_exit_1', 'C09_refuted_internal_error_reaches_the_user',
            'C09_unusable_source_findlinks_arguments_are_diagnosed', 'C09_walkback_spends_the_downgrade_budget']
MODES = ['conflict', 'conflict', 'dense', 'dense', 'extras', 'calm', 'cascade', 'deepconflict', 'triconflict']
RULE = ("universes (2-6 projects x 1-4 versions incl. pre/post/dev releases, requirements with the 7 operators, "
        "wildcards, extras, extra- and environment-markers, cycles, unreadable files, misnamed files), 1-3 input files, "
        "optional unpinned / fully pinned constraint files, remove_constraints, allow_prerelease, max_downgrade) are "
        "compiled by the real perform_compile on an in-memory Repository and by the extracted Coq model; outcome "
        "(solution / NoCandidate + requirement / internal error / divergence), final graph (metadata, links with "
        "reasons, requirers, extras), roots, emitted set and annotation structure are compared. non-trivial = run that fails, diverges, or succeeds after at least one invalidation (walk-back or discard); "
        "distinct = distinct (universe, inputs, constraints, options).")
TRUSTED_BASE = SP.TRUSTED_BASE
ASSUMPTIONS = SP.ASSUMPTIONS
LEVEL_TEXT = "Theorem for all universes: a NoCandidate answer (unbounded metadata budget) means no offered candidate is readable, correctly named and inside the specifier. 'Internal errors never escape' and 'terminates after bounded work' are refuted by six vm_compute witnesses (ValueError node gone / recursion too deep / version below zero, AssertionError, KeyError, unbounded recursion), each replayed on /repo as a known finding; exception class and divergence are part of the whole-compile correspondence. The command-line part (every failure incl. an unusable repository argument -> diagnostic and exit 1; repaired in /repo 0267ed8) is modelled by property C15's CLI flow (CliFlowC15), not here."
LEVEL_NOTE = ("Trusted: Coq kernel, extraction, OCaml drivers, T1/T2 harness, packaging semantics (validated by the C17 grid), the "
              "measured set-iteration and marker oracles. Modelled, not verified: compile.py, dists.py, versions.py, containers.py.")
TECHNIQUE = "Rocq theorems on a Gallina model of the solver + vm_compute refutation witnesses + extraction-based whole-compile differential correspondence"


def translate(ctx: Ctx) -> Dict[str, str]:
    return SP.translate(ctx)


def _nontrivial(c: Dict[str, Any], i: Dict[str, Any]) -> bool:
    return bool(i["kind"] != "OK" or i.get("invalidations", 0) > 0)


def correspondence(ctx: Ctx) -> None:
    SP.correspondence(ctx, ID, 1400, 60000, MODES, _nontrivial)


def search(ctx: Ctx) -> Optional[Dict[str, Any]]:
    return SP.search(ctx, ID, MODES)


def replay(ctx: Ctx, payload: Dict[str, Any]) -> bool:
    return SP.replay(ctx, ID, payload)


def replay_known(ctx: Ctx, entry: Dict[str, Any]) -> Optional[bool]:
    return SP.replay_known(ctx, ID, entry)


# ---- is_possible: "a set of constraints is called impossible only if no version could satisfy it" ----------

POSS_VERSIONS = ["0", "0.9", "1", "1.0", "1.0.0.1", "1.0.0.5", "1.0.1", "1.1", "1.4.4.21", "1.5", "1.9.9", "2", "2.0",
                 "2.0.0.1", "2.0.1", "2.1", "2.1.0", "2.1.0+cu118", "2.5", "3", "3.0", "3.0.0.1", "3.1", "4", "10", "0.0.1",
                 "1.0.post1", "2.0.post1", "1.0+local", "2.0a1", "1.1rc1"]


def gen_clause_set(rng) -> str:
    import enc440
    n = rng.choice([2, 2, 3, 3, 4])
    out = []
    for _ in range(n):
        op = rng.choice(["==", "!=", "<", "<=", ">", ">=", ">=", "<", "==*", "!=*", "~="])
        v = rng.choice(["1.0", "1.1", "2.0", "2.1", "2", "1", "3.0", "1.0.0.5", "1.4.4.22", "2.1.0", "0.9", "1.5"])
        if op in ("==*", "!=*"):
            out.append(op[:2] + v.split(".")[0] + rng.choice(["", ".0", ".1"]) + ".*")
        elif op == "~=":
            out.append("~=" + rng.choice(["1.0", "2.1", "1.4.4"]))
        elif op == "==" and rng.random() < 0.2:
            out.append("==" + rng.choice(["2.1.0+cu118", "1.0.0.5", "1.4.4.21"]))
        else:
            out.append(op + v)
    return ",".join(out)


def satisfying_version(spec_text: str):
    from packaging.specifiers import SpecifierSet
    from packaging.version import Version
    s = SpecifierSet(spec_text)
    for v in POSS_VERSIONS:
        if s.contains(Version(v), prereleases=True):
            return v
    return None


def possible_cases(ctx: Ctx, n: int):
    """(spec text, impl answer, model answer) for generated clause sets"""
    import enc440
    import common
    import req_compile.utils as U
    import req_compile.versions as V
    texts, lines = [], []
    for _ in range(n):
        t = gen_clause_set(ctx.rng)
        req = U.parse_requirement("p" + t)
        st = enc440.spec_tokens(req.specifier)
        if st is None:
            continue
        texts.append(t)
        lines.append("Q " + " ".join(st))
    impl = []
    for t in texts:
        try:
            impl.append("T" if V.is_possible(U.parse_requirement("p" + t)) else "F")
        except ValueError:
            impl.append("V")
        except Exception as ex:  # noqa: BLE001
            impl.append("X:" + type(ex).__name__)
    model = common.run_model("Solver", lines)
    return list(zip(texts, impl, model))


_sp_correspondence = correspondence


def correspondence(ctx: Ctx) -> None:  # noqa: F811
    _sp_correspondence(ctx)
    cases = possible_cases(ctx, ctx.n(1500, 40000))
    wrong_on_impl = 0
    new = []
    for t, i, m in cases:
        ctx.count("is_possible:" + i)
        ctx.case(key=("possible", t), nontrivial=(i == "F"))
        if m == "A":
            ctx.count("is_possible:model-hash-order-ambiguous")
            continue
        if i != m:
            ctx.mismatch("is_possible", t, i, m)
        if i == "F":
            v = satisfying_version(t)
            if v is not None:
                wrong_on_impl += 1
                if m != "F":
                    new.append({"spec": t, "version": v})
    ctx.extra["is_possible_called_impossible_although_satisfiable"] = wrong_on_impl
    ctx._possible_new = new  # type: ignore[attr-defined]


_sp_search = search


def search(ctx: Ctx):  # noqa: F811
    new = getattr(ctx, "_possible_new", [])
    if new:
        f = new[0]
        return {"input": {"kind": "is_possible", "specifier": f["spec"]},
                "why": f"is_possible calls '{f['spec']}' impossible although version {f['version']} satisfies it"}
    return _sp_search(ctx)


_sp_replay = replay


def replay(ctx: Ctx, payload):  # noqa: F811
    fi = payload.get("failing_input") or {}
    if isinstance(fi.get("input"), dict) and fi["input"].get("kind") == "is_possible":
        import req_compile.utils as U
        import req_compile.versions as V
        t = fi["input"]["specifier"]
        try:
            return (not V.is_possible(U.parse_requirement("p" + t))) and satisfying_version(t) is not None
        except ValueError:
            return False
    return _sp_replay(ctx, payload)


_sp_replay_known = replay_known


def replay_known(ctx: Ctx, entry):  # noqa: F811
    if entry.get("kind") == "repo-arg":
        tmp = ctx.tmpdir()
        afile = tmp / "known-a-file.txt"
        afile.write_text("x\n")
        inp = tmp / "known-in.txt"
        inp.write_text("b\n")
        rs = [run_cmdline_argv(["--find-links", str(afile), "--no-index", str(inp)]), run_cmdline_argv(["--solution", str(tmp), "--no-index", str(inp)])]
        return any(r["outcome"] == "traceback" for r in rs)
    if entry.get("kind") == "is_possible":
        import req_compile.utils as U
        import req_compile.versions as V
        t = entry["specifier"]
        return (not V.is_possible(U.parse_requirement("p" + t))) and satisfying_version(t) is not None
    return _sp_replay_known(ctx, entry)


# ----------------------------------------------------------------------------------------
# the command-line boundary: unusable --solution arguments (T1 tr_boundary.py -> gen/BoundaryConsts.v, model/Boundary.v)

_b_translate = translate


def translate(ctx: Ctx) -> Dict[str, str]:  # noqa: F811
    import tr_boundary
    out = dict(_b_translate(ctx))
    out["gen/BoundaryConsts.v"] = tr_boundary.gen_boundary_consts()
    return out


SOL_GOOD = [
    "a==1.0  # b (>=1), in.txt\nb==2.0  # in.txt\n",
    "a==1.0 \\\n    --hash=sha256:abcd\n    # via\n    #   b (>=1)\n    #   in.txt\n    # https://x/a-1.0-py3-none-any.whl\nb==2.0\n    # via in.txt\n",
    "a==1.0  # b[x] (>=1,<2)\nb==2.0  # in.txt ([x])\nc==3.0  # a, b (!=1.0)\n",
]
SOL_FRAGMENTS = ["a", "a>=1.0", "a==1.0", "a==1.0,==2.0", "a==1.x", "a[x]==1.0", "a ;;", "-e .", "a==1.0 ; extra == \"x\"", ""]
ANN_FRAGMENTS = ["", " ", " via", " via ", " via b(>=1)", " via b (>=1)", " b (>=1), in.txt", " b (", " b (>=)", " b ([x)", " b ([x])", " [", " [idx", " [idx] b",
                 " https://x/a.whl", " via\n    #   b(>=1)", " via\n    #   b (>=1)\n    # https://x/a-1.0.tar.gz#sha256=ab", " b, , c", " (>=1)", " b )>=1(", " é (>=1)", " b (>=1) (>=2)"]
EXC_MAP = [("RepositoryInitializationError", "ERepoInit"), ("ValueError", "EValueError"), ("TypeError", "ETypeError"), ("IndexError", "EIndexError"),
           ("KeyError", "EKeyError"), ("AttributeError", "EAttributeError"), ("AssertionError", "EAssertionError"), ("OSError", "EOSError"),
           ("NoCandidateException", "ENoCandidate"), ("MetadataError", "EMetadata"), ("Exception", "EOtherException"), ("BaseException", "EBaseOnly")]


def exc_ctor(ex: BaseException) -> str:
    names = [c.__name__ for c in type(ex).__mro__]
    for py, coq in EXC_MAP:
        if py in names:
            return coq
    return "EBaseOnly"


def gen_solution_text(rng) -> Any:
    r = rng.random()
    if r < 0.2:
        return "well-formed", rng.choice(SOL_GOOD)
    if r < 0.45:       # a well-formed file with one line damaged
        lines = rng.choice(SOL_GOOD).split("\n")
        i = rng.randrange(len(lines))
        k = rng.random()
        if k < 0.3:
            lines[i] = lines[i].replace("==", rng.choice(["", ">=", "=", "==="]), 1)
        elif k < 0.6:
            lines[i] = lines[i].replace(" (", rng.choice(["(", " ((", " "]), 1)
        elif k < 0.8:
            lines[i] = lines[i].replace("#", rng.choice(["", "##", "# #"]), 1)
        else:
            del lines[i]
        return "damaged-line", "\n".join(lines)
    out = []
    for _ in range(rng.choice([1, 1, 2, 3])):
        out.append(rng.choice(SOL_FRAGMENTS) + rng.choice(["  #", " #", "#", "\n    #", ""]) + rng.choice(ANN_FRAGMENTS))
    return "assembled", "\n".join(out) + "\n"


def run_cmdline_solution(text: str, tmp) -> Dict[str, Any]:
    """req-compile --solution <file> --no-index <inputs> in-process; also records what _add_sources raised (monkeypatched
    observer, nothing in /repo is edited)"""
    import contextlib
    import io
    import req_compile.cmdline as CL
    import req_compile.repos.solution as SOLM
    sol, inp = tmp / "boundary-sol.txt", tmp / "boundary-in.txt"
    sol.write_text(text, encoding="utf-8")
    inp.write_text("b\n")
    inner: List[str] = []
    orig = SOLM.SolutionRepository._add_sources

    def spy(self, *a, **k):
        try:
            return orig(self, *a, **k)
        except BaseException as ex:  # noqa: BLE001
            inner.append(exc_ctor(ex))
            raise
    SOLM.SolutionRepository._add_sources = spy
    out, err = io.StringIO(), io.StringIO()
    # write_requirements_file's default stream is the sys.stdout of import time: hand it ours for the call
    wrf = CL.write_requirements_file
    saved_defaults, saved_kwdefaults = wrf.__defaults__, wrf.__kwdefaults__
    wrf.__defaults__ = None if saved_defaults is None else tuple(out if d is sys.__stdout__ or d is sys.stdout else d for d in saved_defaults)
    if saved_kwdefaults:     # (the same default, should the parameter become keyword-only)
        wrf.__kwdefaults__ = {k: (out if d is sys.__stdout__ or d is sys.stdout else d) for k, d in saved_kwdefaults.items()}
    try:
        with contextlib.redirect_stdout(out), contextlib.redirect_stderr(err):
            CL.compile_main(["--solution", str(sol), "--no-index", str(inp)])
        res = {"outcome": "exit", "code": 0}
    except SystemExit as ex:
        res = {"outcome": "exit", "code": ex.code if isinstance(ex.code, int) else (0 if ex.code is None else 1)}
    except BaseException as ex:  # noqa: BLE001
        if isinstance(ex, KeyboardInterrupt):
            raise
        common.reraise_harness_fault(ex)     # an error of the harness's own observer frames is not a traceback of the tool
        res = {"outcome": "traceback", "class": type(ex).__name__, "msg": str(ex)[:120]}
    finally:
        SOLM.SolutionRepository._add_sources = orig
        wrf.__defaults__ = saved_defaults
        wrf.__kwdefaults__ = saved_kwdefaults
    res["inner"] = inner[:1]
    res["stderr_tail"] = err.getvalue().strip().split("\n")[-1][:160]
    return res


def run_cmdline_argv(argv: List[str]) -> Dict[str, Any]:
    import contextlib
    import io
    import req_compile.cmdline as CL
    out, err = io.StringIO(), io.StringIO()
    wrf = CL.write_requirements_file
    saved_defaults, saved_kwdefaults = wrf.__defaults__, wrf.__kwdefaults__
    wrf.__defaults__ = None if saved_defaults is None else tuple(out if d is sys.__stdout__ or d is sys.stdout else d for d in saved_defaults)
    if saved_kwdefaults:     # (the same default, should the parameter become keyword-only)
        wrf.__kwdefaults__ = {k: (out if d is sys.__stdout__ or d is sys.stdout else d) for k, d in saved_kwdefaults.items()}
    try:
        with contextlib.redirect_stdout(out), contextlib.redirect_stderr(err):
            CL.compile_main(list(argv))
        res: Dict[str, Any] = {"outcome": "exit", "code": 0}
    except SystemExit as ex:
        res = {"outcome": "exit", "code": ex.code if isinstance(ex.code, int) else (0 if ex.code is None else 1)}
    except BaseException as ex:  # noqa: BLE001
        if isinstance(ex, KeyboardInterrupt):
            raise
        common.reraise_harness_fault(ex)     # an error of the harness's own observer frames is not a traceback of the tool
        res = {"outcome": "traceback", "class": type(ex).__name__, "msg": str(ex)[:120]}
    finally:
        wrf.__defaults__ = saved_defaults
        wrf.__kwdefaults__ = saved_kwdefaults
    res["stderr_tail"] = err.getvalue().strip().split("\n")[-1][:160]
    return res


def boundary(ctx: Ctx) -> None:
    import logging
    tmp = ctx.tmpdir()
    rng = ctx.rng
    seen_inner: Dict[str, int] = {}
    new = []
    root_level = logging.getLogger().level
    for _ in range(ctx.n(400, 6000)):
        kind, text = gen_solution_text(rng)
        r = run_cmdline_solution(text, tmp)
        ctx.count("solution-arg:" + kind)
        ctx.count("solution-arg-outcome:" + (r["outcome"] + (str(r.get("code")) if r["outcome"] == "exit" else ":" + r["class"])))
        ctx.case(key=("solution-arg", text), nontrivial=(r["outcome"] == "exit" and r.get("code") == 1))
        for e in r["inner"]:
            seen_inner[e] = seen_inner.get(e, 0) + 1
            ctx.count("solution-arg-inner:" + e)
        if r["outcome"] == "traceback" and not new:
            new.append({"solution_text": text, "observed": r})
        elif r["outcome"] == "exit" and r["inner"] and r.get("code") != 1 and not new:
            new.append({"solution_text": text, "observed": r})
    # other unusable repository arguments
    missing = str(tmp / "no-such-dir")
    afile = tmp / "a-file.txt"
    afile.write_text("x\n")
    variants = [["--source", missing], ["--source", "no/such/relative/dir"], ["--find-links", missing], ["--solution", missing + ".txt"],
                ["--no-index"], ["--source", str(afile)], ["--find-links", str(afile)], ["--solution", str(tmp)],
                ["--source", missing, "--find-links", missing], ["--index-url", "not a url", "--no-index"]]
    inp = tmp / "boundary-in.txt"
    inp.write_text("b\n")
    for argv in variants:
        r = run_cmdline_argv(argv + (["--no-index"] if "--no-index" not in argv else []) + [str(inp)])
        ctx.count("repo-arg-outcome:" + (r["outcome"] + (str(r.get("code")) if r["outcome"] == "exit" else ":" + r["class"])))
        ctx.case(key=("repo-arg", tuple(argv)), nontrivial=(r["outcome"] == "exit" and r.get("code") == 1))
        if r["outcome"] == "traceback" and not new:
            new.append({"argv": argv + ["--no-index", "<file containing 'b'>"], "observed": r})
    logging.getLogger().setLevel(root_level)
    # the model's verdict for every exception class seen inside _add_sources (and for all the others) is Exits 1
    ctors = sorted(set(seen_inner) | {c for _, c in EXC_MAP if c != "EBaseOnly"})
    term = "[" + "; ".join(f"match solution_line_failure {c} with Exits n => n | Propagates _ => 99 end" for c in ctors) + "]"
    ok, out = common.coq_eval("c09_boundary", "From Coq Require Import List.\nImport ListNotations.\nFrom RC Require Import model.BoundaryTypes gen.BoundaryConsts model.Boundary.",
                              [f"Eval vm_compute in {term}."])
    want = "[" + ";".join("1" for _ in ctors) + "]"
    got = "".join(out.split()).split(":")[0].lstrip("=")
    if not ok or got != want:
        ctx.mismatch("boundary-model", ctors, want, out[-400:])
    if new:
        ctx.mismatch("solution-argument-boundary", {k: v for k, v in new[0].items() if k != "observed"}, new[0]["observed"], "exit 1 with a diagnostic")
    ctx._boundary_new = new  # type: ignore[attr-defined]


_p_correspondence = correspondence


def correspondence(ctx: Ctx) -> None:  # noqa: F811
    _p_correspondence(ctx)
    boundary(ctx)


_p_search = search


def search(ctx: Ctx):  # noqa: F811
    new = getattr(ctx, "_boundary_new", [])
    if new:
        o = new[0]["observed"]
        what = (f"a traceback ({o.get('class')}: {o.get('msg')})" if o["outcome"] == "traceback" else f"exit status {o.get('code')}")
        if "argv" in new[0]:
            return {"input": {"kind": "repository-argument", "argv": new[0]["argv"]},
                    "why": f"req-compile {' '.join(new[0]['argv'][:-2])} ends in {what} instead of a diagnostic and exit status 1"}
        return {"input": {"kind": "solution-argument", "solution_text": new[0]["solution_text"], "argv": ["--solution", "<file>", "--no-index", "<file containing 'b'>"]},
                "why": f"req-compile --solution <file> ends in {what} instead of a diagnostic and exit status 1"}
    return _p_search(ctx)


_p_replay = replay


def replay(ctx: Ctx, payload):  # noqa: F811
    fi = payload.get("failing_input") or {}
    if isinstance(fi.get("input"), dict) and fi["input"].get("kind") == "solution-argument":
        r = run_cmdline_solution(fi["input"]["solution_text"], ctx.tmpdir())
        return r["outcome"] == "traceback"
    return _p_replay(ctx, payload)

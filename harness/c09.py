"""C09 - Every run ends in a solution or an honest, located failure (DESIGN.md section 4).  Thin wrapper over solver_property.py."""
from __future__ import annotations

from typing import Any, Dict, Optional

import solver_property as SP
from common import Ctx

ID = "C09"
PROPS = ["props/C09.v"]
EXTRACTS = ["Solver"]
THEOREMS = ['C09_no_candidate_is_honest_partial', 'C09_reported_chains_are_real', 'C09_refuted_internal_errors_escape', 'C09_refuted_unbounded_recursion']
MODES = ['conflict', 'conflict', 'dense', 'dense', 'extras', 'calm']
RULE = ("universes (2-6 projects x 1-4 versions incl. pre/post/dev releases, requirements with the 7 operators, "
        "wildcards, extras, extra- and environment-markers, cycles, unreadable files, misnamed files), 1-3 input files, "
        "optional unpinned / fully pinned constraint files, remove_constraints, allow_prerelease, max_downgrade) are "
        "compiled by the real perform_compile on an in-memory Repository and by the extracted Coq model; outcome "
        "(solution / NoCandidate + requirement / internal error / divergence), final graph (metadata, links with "
        "reasons, requirers, extras), roots, emitted set and annotation structure are compared. non-trivial = run that fails, diverges, or succeeds after at least one invalidation (walk-back or discard); "
        "distinct = distinct (universe, inputs, constraints, options).")
TRUSTED_BASE = SP.TRUSTED_BASE
ASSUMPTIONS = SP.ASSUMPTIONS
LEVEL_TEXT = "Theorem for all universes: a NoCandidate answer (unbounded metadata budget) means no offered candidate is readable, correctly named and inside the specifier. 'Internal errors never escape' and 'terminates after bounded work' are refuted by six vm_compute witnesses (ValueError node gone / recursion too deep / version below zero, AssertionError, KeyError, unbounded recursion), each replayed on /repo as a known finding; exception class and divergence are part of the whole-compile correspondence. The command-line part (every failure incl. an unusable repository argument -> diagnostic and exit 1; repaired in /repo 0267ed8) is modelled by property C15's CLI flow (CliFlowC15), not here."
LEVEL_NOTE = ("Trusted: Coq kernel, extraction, OCaml drivers, T1/T2 harness, packaging semantics (validated by the C17 grid), the "
              "measured set-iteration and marker oracles. Modelled, not verified: compile.py, dists.py, versions.py, containers.py.")
TECHNIQUE = "Rocq theorems on a Gallina model of the solver + vm_compute refutation witnesses + extraction-based whole-compile differential correspondence"


def translate(ctx: Ctx) -> Dict[str, str]:
    return SP.translate(ctx)


def _nontrivial(c: Dict[str, Any], i: Dict[str, Any]) -> bool:
    return bool(i["kind"] != "OK" or i.get("invalidations", 0) > 0)


def correspondence(ctx: Ctx) -> None:
    SP.correspondence(ctx, ID, 1400, 60000, MODES, _nontrivial)


def search(ctx: Ctx) -> Optional[Dict[str, Any]]:
    return SP.search(ctx, ID, MODES)


def replay(ctx: Ctx, payload: Dict[str, Any]) -> bool:
    return SP.replay(ctx, ID, payload)


def replay_known(ctx: Ctx, entry: Dict[str, Any]) -> Optional[bool]:
    return SP.replay_known(ctx, ID, entry)

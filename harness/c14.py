"""C14 - Index pages and file names map to the right candidates (DESIGN.md section 4)."""
from __future__ import annotations

import hashlib
import io
import json
import logging
import os
import urllib.parse
import zipfile
import zlib
from typing import Any, Dict, List, Optional, Tuple

import common
from common import Ctx, hx, unhx
from common import run_model as _run_model


def run_model(name: str, lines):
    """common.run_model; retried when the binary is being re-linked by a concurrent check (rc 126, text busy)"""
    import time
    lines = list(lines)
    for attempt in range(6):
        try:
            return _run_model(name, lines)
        except RuntimeError as ex:
            if attempt == 5 or not any(t in str(ex) for t in ("rc=126", "Text file busy", "Permission denied", "No such file")):
                raise
            time.sleep(2.0)

ID = "C14"
PROPS = ["props/C14.v"]
EXTRACTS = ["C14"]
THEOREMS = [
    "C14_wheel_roundtrip", "C14_wheel_file_roundtrip", "C14_sdist_roundtrip", "C14_sdist_canonical_versions",
    "C14_sdist_file_roundtrip_partial", "C14_sdist_file_refuted_dumb_marker_in_name", "C14_sdist_name_normalises", "C14_source_never_raises",
    "C14_requires_python_agrees", "C14_requires_python_list_agrees", "C14_compat3_refuted",
    "C14_requires_total", "C14_malformed_hides_nothing", "C14_hidden_only_by_false_clause",
    "C14_page_exact", "C14_page_dom",
    "C14_hash_is_links_fragment", "C14_findlinks_exact",
    "C14_pin_file_is_link_file", "C14_pin_history_files_are_link_files",
    "C14_links_are_relative_to_the_page_served",
]
RULE = ("four generated families, each run through the real code and the extracted Gallina model: (R) requires-python "
        "strings (comma lists of >=,<,==,!=,~=,<=,>,bare and wildcard clauses with 1-4 components near the interpreter "
        "version, white-space variants, pre/post/epoch forms, ~15% malformed) x interpreter versions patched into "
        "SYS_PY_VERSION/SYS_PY_MAJOR/SYS_PY_MAJOR_MINOR -> True/False/exception class; (W) wheel and sdist file names "
        "(dotted/dashed/digit-bearing names, PEP 440 versions incl. epoch/pre/post/dev/local, build tags, compressed tag "
        "sets, all extensions, dumb-binary markers, ~15% malformed) -> filename_to_candidate's Candidate fields / None / "
        "exception; (P) HTML pages fed to LinksHTMLParser (through _scan_page_links with a fake session), the events the "
        "real html.parser delivers are recorded and replayed on the model -> ordered (candidate, href) list; anchors that are never closed are generated, and every third page is served after a redirect: the link base of every candidate must be the address of the page served; (L/H) find-links "
        "directories and resolve_candidate hash/URL; (Q) HISTORIES of 2-5 resolve_candidate calls that share one wheel directory, "
        "against two or three indexes serving different bytes under one file name (links relative/absolute/rooted, with a true "
        "sha256 fragment, without one, md5, doubled or trailing fragments, a digest of other bytes) -> per step which bytes the "
        "metadata came from, hash, cached flag, URLs downloaded, wheel directory afterwards. parse_version is answered for the model by packaging (oracle table). "
        "Non-trivial = the case yields a candidate / a True-False verdict / a page with >=1 offered file; distinct = distinct input.")
TRUSTED_BASE = [
    "T1 harness/translate.py: replace chain of normalize_project_name -> gen/NameConsts.v (shared with C17; used by C14_sdist_name_normalises)",
    "T1 harness/tr_c14.py: AST skeletons of filename_to_candidate, _wheel_filename_to_candidate, _tar_gz_filename_to_candidate, "
    "parse_source_filename, check_python_compatibility, _check_py_constraint, LinksHTMLParser.{__init__,handle_starttag,handle_data}, "
    "both resolve_candidate, _find_all_links must equal the recorded shape; _scan_page_links is read for the address it hands to the page parser (response.url / an expression free of the response / anything else fails closed); every literal (extension lists, dumb-binary markers, "
    "indexes, separators, OPS keys and lambda comparisons, dotted_parts table, ~= format, attribute names, hash separators) -> gen/ConstsC14.v",
    "T2 harness/c14.py: generators, event recorder (subclass of the real LinksHTMLParser), fake requests session, canonicalisation "
    "(tag sets and platform sets sorted, versions as enc440 tokens)",
    "version-string parsing is NOT modelled: pkg_resources.parse_version (packaging 26.3) is an oracle `pv : string -> option version`; "
    "the theorems hold for every pv (file names) / for every pv that reads dotted digit strings as releases (requires-python); "
    "the harness answers the model's pv queries with packaging",
    "T1 reads the two tests of _do_download that decide whether a file already in the wheel directory is reused, as a boolean "
    "expression over {digest advertised, file exists, digest matches} -> gen/ConstsC14.v dl_reuse_outer/dl_reuse_inner (model/ResolveC14.v "
    "interprets them; proofs/ResolveC14P.v gen_reuse_condition is the obligation: reuse only on an advertised, matching digest)",
    "html.parser tokenisation (events delivered for a page), urllib.parse.urljoin, sha256, os.listdir, posixpath are not modelled; "
    "model/StrC14.v (str/posixpath operations) is validated against CPython on ASCII strings by sampling (command U)",
    "lib/Pep440.v version order and clause semantics validated against packaging by C17's grid",
    "modelled, not verified: the anchored code of /repo",
]
ASSUMPTIONS = [
    "C14_pin_*: sha256 is collision free and an index advertises (#sha256=) only the digest of the bytes it serves at that link; the network is a "
    "function url -> bytes per step; MetadataError clean-up and partial files are C15's side of _do_download",
    "inputs are ASCII (str.strip/lower/isdigit and \\d are modelled for ASCII only)",
    "the interpreter version is a (major, minor, patch) triple of naturals patched into the three module constants",
    "int() is modelled as succeeding exactly on non-empty ASCII digit strings (its callers only reach it after parse_version accepted the text)",
    "a page is the sequence of handle_starttag/handle_endtag/handle_data calls html.parser makes; other callbacks do nothing in LinksHTMLParser",
    "the href of an offered anchor is a string when resolve_candidate is modelled (href-less anchors are offered with link (url, None))",
]

INTERPS = [(2, 7, 18), (3, 0, 1), (3, 5, 0), (3, 6, 4), (3, 7, 12), (3, 8, 0), (3, 9, 1), (3, 10, 0), (3, 11, 6), (3, 12, 1),
           (3, 13, 0), (4, 0, 0), (3, 5, 10), (10, 1, 2), (3, 100, 3), (0, 9, 0)]


def translate(ctx: Ctx) -> Dict[str, str]:
    import tr_c14
    import translate as _tr
    text, info = tr_c14.gen_consts()
    ctx.extra["t1_constants"] = info
    return {"gen/ConstsC14.v": text, "gen/NameConsts.v": _tr.gen_name_consts()}


# ----------------------------------------------------------------------------------------
# the real code

_IMP: Dict[str, Any] = {}


def imp():
    if _IMP:
        return _IMP
    import warnings
    warnings.filterwarnings("ignore")
    logging.disable(logging.CRITICAL)
    import enc440
    import pkg_resources
    from packaging.version import Version
    import req_compile.repos.pypi as P
    import req_compile.repos.repository as R
    import req_compile.repos.findlinks as F
    import req_compile.filename as FN
    _IMP.update(enc440=enc440, pkg_resources=pkg_resources, Version=Version, P=P, R=R, F=F, FN=FN)
    return _IMP


def oracle_pv(s: str) -> str:
    m = imp()
    try:
        return m["enc440"].ver_token(m["pkg_resources"].parse_version(s))
    except Exception:
        return "N"


class PyVer:
    """patch the three module constants the way tests/conftest.py mock_py_version does"""

    def __init__(self, triple: Tuple[int, int, int]) -> None:
        self.t = triple

    def __enter__(self):
        m = imp()
        P, pv = m["P"], m["pkg_resources"].parse_version
        self.saved = (P.SYS_PY_VERSION, P.SYS_PY_MAJOR, P.SYS_PY_MAJOR_MINOR)
        P.SYS_PY_VERSION = pv("{}.{}.{}".format(*self.t))
        P.SYS_PY_MAJOR = pv("{}".format(self.t[0]))
        P.SYS_PY_MAJOR_MINOR = pv("{}.{}".format(*self.t[:2]))

    def __exit__(self, *a):
        P = imp()["P"]
        P.SYS_PY_VERSION, P.SYS_PY_MAJOR, P.SYS_PY_MAJOR_MINOR = self.saved


def impl_requires(triple, s: Optional[str]) -> str:
    P = imp()["P"]
    with PyVer(triple):
        try:
            r = P.check_python_compatibility(s)
            return "T" if r is True else "F" if r is False else "?" + repr(r)
        except ValueError:
            return "VE"
        except RecursionError:
            return "FUEL"
        except Exception as ex:  # any other class is a failure mode the model does not have
            return "EXC:" + type(ex).__name__


def obs_cand(c: Any) -> Dict[str, Any]:
    m = imp()
    return {
        "kind": "W" if c.type == m["R"].DistributionType.WHEEL else "S" if c.type == m["R"].DistributionType.SDIST else str(c.type),
        "name": c.name, "file": c.filename, "ver": m["enc440"].ver_token(c.version),
        "build": c.extra_sort_info,
        "py": None if c.py_version is None else sorted(c.py_version.py_versions or []),
        "abi": c.abi, "plats": sorted(c.platforms),
    }


def impl_file(s: str) -> Any:
    R = imp()["R"]
    try:
        c = R.filename_to_candidate(("U", "H"), s)
    except RecursionError:
        return "RAISE"
    except Exception as ex:
        return "RAISE"
    return "NONE" if c is None else obs_cand(c)


class Toks:
    def __init__(self, toks: List[str]) -> None:
        self.t, self.i = toks, 0

    def next(self) -> str:
        x = self.t[self.i]
        self.i += 1
        return x

    def strs(self) -> List[str]:
        return [unhx(self.next()) for _ in range(int(self.next()))]

    def cand(self) -> Dict[str, Any]:
        assert self.next() == "C"
        kind, name, file, ver, build = self.next(), unhx(self.next()), unhx(self.next()), self.next(), unhx(self.next())
        py = sorted(set(self.strs())) if self.next() == "S" else None
        abi = unhx(self.next()) if self.next() == "S" else None
        plats = sorted(set(self.strs()))
        return {"kind": kind, "name": name, "file": file, "ver": ver, "build": build, "py": py, "abi": abi, "plats": plats}


def parse_fres(ans: str) -> Any:
    if ans in ("NONE", "RAISE"):
        return ans
    return Toks(ans.split()).cand()


def run_oracle(lines: List[str], max_rounds: int = 100) -> Tuple[List[str], List[Dict[str, str]]]:
    """Run the model; answer its parse_version questions with packaging until none is left."""
    tables: List[Dict[str, str]] = [dict() for _ in lines]
    answers: List[Optional[str]] = [None] * len(lines)
    todo = list(range(len(lines)))
    for _ in range(max_rounds):
        if not todo:
            break
        batch = []
        for i in todo:
            tb = tables[i]
            batch.append(lines[i] + " | " + str(len(tb)) + "".join(f" {hx(k)} {v}" for k, v in tb.items()))
        out = run_model("C14", batch)
        if len(out) != len(batch):
            raise RuntimeError(f"model gave {len(out)} answers for {len(batch)} cases")
        nxt = []
        for i, a in zip(todo, out):
            if a.startswith("ASK "):
                q = unhx(a[4:])
                tables[i][q] = oracle_pv(q)
                nxt.append(i)
            else:
                answers[i] = a
        todo = nxt
    for i in todo:
        answers[i] = "!NOCONVERGE"
    return [a or "" for a in answers], tables


# ----------------------------------------------------------------------------------------
# generators

NAMES_W = ["foo", "Foo_Bar", "zope.interface", "a", "my_pkg2", "backports.zoneinfo", "py3dns", "x_1_0", "ruamel.yaml.clib",
           "Django", "v8", "2to3", "A.B_c", "numpy", "linux_tools", "win32_setctime"]
NAMES_S = ["foo", "foo-bar", "zope.interface", "python-project-3", "foo-2", "django-1.6-fine-uploader", "py3-foo", "v8-bindings",
           "backports-thing", "my_pkg", "A", "foo.zip", "pkg-v2", "x-1", "divisor-1.0.0s", "selenium", "a-b-c-d", "foo-", "-foo",
           "foo--bar", "2to3", "linux-tools", "V2-thing", "pytest-ui", "a.tar.gz-b"]
PY_TAGS = ["py3", "py2.py3", "cp38", "cp312", "cp39.cp310", "pp39", "py27", "cp3", "py2", "ip27", "3"]
ABIS = ["none", "cp38", "abi3", "cp38m", "cp312", "none.abi3", "NONE", "pypy39_pp73"]
PLATS = ["any", "manylinux1_x86_64", "manylinux1_x86_64.manylinux2010_x86_64", "win_amd64", "win32", "macosx_10_9_x86_64",
         "linux_x86_64", "manylinux_2_17_x86_64.manylinux2014_x86_64", "any.any", "macosx_10_9_universal2.macosx_11_0_arm64"]
EXTS_S = [".tar.gz", ".tar.gz", ".tar.gz", ".zip", ".zip", ".tgz", ".tar.bz2", ".tar", ".bz2", ".gz", ".TAR.GZ", ".Zip", ".egg", ".exe",
          "", ".tar.xz", ".whl", ".tar.gz.asc", ".tar.gz "]


def gen_version_str(rng, enc440) -> str:
    r = rng.random()
    if r < 0.7:
        from packaging.version import Version
        return str(Version(enc440.gen_version(rng)))
    if r < 0.8:
        return enc440.gen_version(rng)
    return rng.choice(["1.0-1", "1.0_1", "v1.0", "2.0-dev-9429", "1.0+abc.linux", "1.0+a.zip", "0.3b0", "1.0.0s", "1.0.post1", "2014.1.1",
                       "5.5.0-2014.1.1", "1.0+linux", "1.0.linux-x86_64", "1", "1.0rc1", "1!2.0", "1.0.dev0", "1.0+macosx.1", "x.y", "",
                       "1.0-windows", "1.0.windows", "V2.0", "1_0", "1.0a1.post2.dev3+l.1", "00.01", "1.0-r5", "1.0.tgz.1"])


def rand_str(rng, alphabet: str, lo: int, hi: int) -> str:
    return "".join(rng.choice(alphabet) for _ in range(rng.randint(lo, hi)))


def gen_wheel(rng, enc440) -> Tuple[str, str]:
    name = rng.choice(NAMES_W) if rng.random() < 0.8 else rand_str(rng, "abcXYZ019_.", 1, 8)
    ver = gen_version_str(rng, enc440)
    if rng.random() < 0.6:
        ver = ver.replace("-", "_")
    parts = [name, ver]
    tag = "wheel"
    if rng.random() < 0.25:
        parts.append(rng.choice(["1", "2b", "123abc", "0", "1_local"]))
        tag = "wheel-build"
    parts += [rng.choice(PY_TAGS), rng.choice(ABIS), rng.choice(PLATS)]
    r = rng.random()
    if r < 0.06:
        parts.pop(rng.randrange(len(parts)))
        tag = "wheel-short"
    elif r < 0.10:
        parts.insert(rng.randrange(len(parts) + 1), rng.choice(["x", "", "1"]))
        tag = "wheel-long"
    s = "-".join(parts) + rng.choice([".whl"] * 8 + [".WHL", ".Whl"])
    if rng.random() < 0.1:
        s = rng.choice(["dir/", "/abs/path.d/", "a.b/", "./", "x.linux-1/"]) + s
    return s, tag


def gen_sdist(rng, enc440) -> Tuple[str, str]:
    r0 = rng.random()
    name = rng.choice(NAMES_S) if r0 < 0.6 else gen_sdist_project(rng) if r0 < 0.85 else rand_str(rng, "abV019_.-", 1, 8)
    ver = gen_version_str(rng, enc440) if rng.random() < 0.85 else rng.choice(["2024", "1", "7", "0.3.post1", "2024.1", "3"])
    ext = rng.choice(EXTS_S)
    tag = "sdist"
    mid = ""
    if rng.random() < 0.08:
        mid = rng.choice([".linux-x86_64", ".win-amd64", ".macosx-10.9-x86_64", ".win32", ".linux_x86_64", ".macosx"])
        tag = "sdist-dumb"
    sep = "-" if rng.random() < 0.93 else rng.choice(["_", "", "--"])
    s = name + sep + ver + mid + ext
    if rng.random() < 0.1:
        s = rng.choice(["dir/", "/abs/path.d/", "a.b/", "./", "x.linux-1/", " "]) + s
    return s, tag


def gen_junk_name(rng) -> str:
    return rand_str(rng, "ab1.-_v/ ", 0, 14) + rng.choice(["", ".whl", ".tar.gz", ".zip", ".egg", ".tgz", ".gz", "."])


def gen_component(rng, triple) -> str:
    M, m, p = triple
    n = rng.choice([1, 2, 2, 2, 3, 3, 4])
    base = [M + rng.choice([0, 0, 0, 0, 1, -1]), m + rng.choice([0, 0, 0, 1, -1, 2, -2]), p + rng.choice([0, 0, 1, -1, 5]), rng.choice([0, 1])]
    base = [max(0, x) for x in base]
    if rng.random() < 0.1:
        base = [rng.choice([2, 3, 4]), rng.choice([0, 5, 6, 9, 10, 11]), rng.choice([0, 1, 2]), 0]
    s = ".".join(("0" if rng.random() < 0.03 else "") + str(x) for x in base[:n])
    return s


def gen_clause_rp(rng, triple) -> str:
    op = rng.choice([">=", ">=", ">=", "<", "<", "==", "!=", "!=", "~=", "<=", ">", "", "==", "==="])
    v = gen_component(rng, triple)
    r = rng.random()
    if op in ("==", "!=") and r < 0.7 or r < 0.05:
        v += ".*"
    elif r < 0.12:
        v += rng.choice(["rc1", "a1", ".post1", ".dev0", "b2", "+local", "-1", ".0"])
    elif r < 0.15:
        v = rng.choice(["v", "1!", "0!"]) + v
    sp = lambda: rng.choice(["", "", "", " ", "  ", "\t"])
    return sp() + op + sp() + v + sp()


def gen_requires(rng, triple) -> Tuple[str, str]:
    if rng.random() < 0.85:
        k = rng.choice([1, 1, 2, 2, 3, 4])
        parts = [gen_clause_rp(rng, triple) for _ in range(k)]
        if rng.random() < 0.05:
            parts.insert(rng.randrange(len(parts) + 1), rng.choice(["", " "]))
        return ",".join(parts), "structured"
    junk = [">=", "abc", ">=3.x", ">>3", "=>3.6", ">= 3.6 , , <4", "3.6.*.*", "~=3", "~=v3.5", "~=3.5.*", ">=3.6;", ">=3,6", "!3", "~3",
            "=3.6", "<>3", ">=3.6 <4", "python>=3", "3", "3.*", "*", ".*", ">=.*", "~=1!3.5", "~=3.5.2", "~=3.5rc1", ">=3.6,", ",", " ",
            "<3,garbage", "garbage,<3", ">=3.6.*", "<3.*", "==3.6.1.*", "==3.6.1.0.*", "== 3.6 . *", ">=3.6 .0", "3.6 3.7", "~=03.5", "~= 3 .5",
            ">=3.5,~=3.5,<4", "~=3.5,~=3.6", "!=3.5.1", "3.5>=3.5", ">=3.5>=", "~=3.12", "~=10.1"]
    if rng.random() < 0.7:
        return rng.choice(junk), "malformed"
    return rand_str(rng, "<>=!~ ,.*0123459ab", 0, 12), "malformed"


HEX = "0123456789abcdef"


def gen_page(rng, enc440, triple) -> Tuple[str, Dict[str, int]]:
    """HTML text of a simple-index page, with attribute variants and some odd markup."""
    stats: Dict[str, int] = {}
    out = [rng.choice(["<!DOCTYPE html>\n<html><head><title>Links for p</title></head><body><h1>Links for p</h1>\n", "<html><body>\n", ""])]
    for _ in range(rng.choice([1, 2, 3, 4, 6, 9])):
        r = rng.random()
        if r < 0.5:
            fname, _ = gen_wheel(rng, enc440)
        elif r < 0.92:
            fname, _ = gen_sdist(rng, enc440)
        else:
            fname = gen_junk_name(rng)
        fname = fname.replace("<", "").replace("&", "")
        base = rng.choice(["", "../../packages/ab/cd/", "https://files.example.org/packages/", "/packages/", "./"])
        href = base + (fname.strip() if rng.random() < 0.9 else "other-0.1.tar.gz")
        r = rng.random()
        if r < 0.6:
            href += "#sha256=" + rand_str(rng, HEX, 64, 64)
        elif r < 0.7:
            href += "#md5=" + rand_str(rng, HEX, 32, 32)
        elif r < 0.75:
            href += rng.choice(["#", "#sha256=", "#sha256=ab#sha256=cd", "#egg=foo", "?x=1#sha256=ab=cd"])
        attrs: List[str] = []
        q = rng.choice(['"', '"', '"', "'"])
        hrefattr = rng.choice(["href", "href", "href", "HREF"]) + "=" + q + href + q
        rp = None
        if rng.random() < 0.5:
            rp, kind = gen_requires(rng, triple)
            rp = rp.replace('"', "").replace("'", "")
            esc = rp.replace("&", "&amp;").replace("<", "&lt;").replace(">", "&gt;") if rng.random() < 0.8 else rp
            attrs.append(rng.choice(["data-requires-python", "data-requires-python", "metadata-requires-python", "DATA-REQUIRES-PYTHON"]) + '="' + esc + '"')
            stats["anchor-with-requires-" + kind] = stats.get("anchor-with-requires-" + kind, 0) + 1
        if rng.random() < 0.15:
            attrs.append(rng.choice(['rel="internal"', 'data-yanked=""', 'data-dist-info-metadata="sha256=ab"', "download", 'data-requires-python-x=">=9"']))
        r = rng.random()
        if r < 0.9:
            attrs.insert(rng.randrange(len(attrs) + 1), hrefattr)
        elif r < 0.95:
            attrs.insert(0, hrefattr)
            attrs.append('href="second-9.9.tar.gz"')
            stats["anchor-two-hrefs"] = stats.get("anchor-two-hrefs", 0) + 1
        else:
            if rng.random() < 0.5:
                attrs.append("href")
            stats["anchor-no-href"] = stats.get("anchor-no-href", 0) + 1
        text = fname
        r = rng.random()
        odd = None
        if r < 0.04:
            text = "<b>" + fname + "</b>"
            odd = "nested-text"
        elif r < 0.07:
            text = fname + "<br>"
            odd = "br-inside"
        elif r < 0.10:
            text = " " + fname + "\n"
            odd = "padded-text"
        tag = rng.choice(["a", "a", "a", "a", "A"])
        line = "<" + tag + " " + " ".join(attrs) + (">" if rng.random() < 0.97 else " >") + text + "</" + tag + ">"
        r = rng.random()
        if r < 0.04:
            line += " " + gen_sdist(rng, enc440)[0].replace("<", "")
            odd = "trailing-text"
        elif r < 0.08:
            line = "<!-- " + line.replace("--", "") + " -->"
            odd = "commented-out"
        elif r < 0.10:
            line = "<a " + " ".join(attrs) + "/>" + fname
            odd = "self-closing"
        elif r < 0.12:
            line = "<link href=\"x\">" + fname
            odd = "not-an-anchor"
        elif r < 0.16:
            # an anchor that is never closed: the next <a> starts a new link, and nothing of this one (its
            # requires-python verdict in particular) may leak into the next
            line = "<" + tag + " " + " ".join(attrs) + ">" + fname
            odd = "unclosed"
        if odd:
            stats["odd:" + odd] = stats.get("odd:" + odd, 0) + 1
        out.append(line + rng.choice(["<br/>\n", "<br />\n", "\n", "<br>\n"]))
    out.append(rng.choice(["</body></html>\n<!--SERIAL 123-->", "</body></html>", ""]))
    return "".join(out), stats


def make_recorder():
    P = imp()["P"]

    class Recorder(P.LinksHTMLParser):  # type: ignore[misc,name-defined]
        events: List[Any] = []

        def handle_starttag(self, tag, attrs, *args, **kwargs):
            Recorder.events.append(("S", tag, list(attrs)))
            super().handle_starttag(tag, attrs, *args, **kwargs)

        def handle_endtag(self, tag, *args, **kwargs):
            Recorder.events.append(("E", tag))
            super().handle_endtag(tag, *args, **kwargs)

        def handle_data(self, data, *args, **kwargs):
            Recorder.events.append(("D", data))
            super().handle_data(data, *args, **kwargs)

    return Recorder


class FakeResponse(common.FakeResponseBase):
    def __init__(self, url: str, body: bytes, status: int = 200) -> None:
        self.url, self.content, self.status_code = url, body, status

    def raise_for_status(self, *args: Any, **kwargs: Any) -> None:
        if self.status_code >= 400:
            raise RuntimeError("status")

    def iter_content(self, chunk_size: Any = 1, *args: Any, **kwargs: Any):
        n = chunk_size if isinstance(chunk_size, int) and chunk_size > 0 else max(len(self.content), 1)
        for i in range(0, len(self.content), n):
            yield self.content[i:i + n]


class FakeSession(common.FakeSessionBase):
    def __init__(self, pages: Dict[str, bytes], final: Optional[Dict[str, str]] = None) -> None:
        self.pages, self.requested = pages, []
        self.final = final or {}      # requested address -> address the (redirected) response reports as its own

    def get(self, url: str, *args: Any, **kwargs: Any) -> FakeResponse:     # stream=, timeout=, headers= ...: all the same here
        self.requested.append(url)
        if url in self.pages:
            return FakeResponse(self.final.get(url, url), self.pages[url])
        bare = urllib.parse.urldefrag(url)[0]     # a fragment is never sent to the server
        if bare in self.pages:
            return FakeResponse(bare, self.pages[bare])
        return FakeResponse(url, b"", 404)

    def close(self, *args: Any, **kwargs: Any) -> None:
        pass


def impl_page(html: str, triple) -> Tuple[Any, List[Any], str]:
    """Feed html through _scan_page_links (fake session); returns (obs, events, response url)."""
    P = imp()["P"]
    Rec = make_recorder()
    Rec.events = []
    asked = "https://idx.example.org/simple/proj/"
    # every third page is served after a redirect (requests follows it; response.url is the final address):
    # relative links are relative to the page that was actually served, and the link a candidate carries is that page's
    redirected = zlib.crc32(html.encode("utf-8")) % 3 == 0
    url = "https://mirror.example.net/root/pypi/simple/proj/" if redirected else asked
    sess = FakeSession({asked: html.encode("utf-8")}, final={asked: url})
    scan = getattr(P._scan_page_links, "__wrapped__", P._scan_page_links)
    saved = P.LinksHTMLParser
    P.LinksHTMLParser = Rec
    holder: List[Any] = []
    orig_init = Rec.__init__

    def init(self, *args, **kwargs):    # whatever arguments the code passes to its parser
        orig_init(self, *args, **kwargs)
        holder.append(self)
    Rec.__init__ = init  # type: ignore[method-assign]
    raised = False
    try:
        with PyVer(triple):
            try:
                scan("https://idx.example.org/simple", "Proj", sess, 0)
            except Exception as ex:
                common.reraise_harness_fault(ex)     # the recording parser / fake session are the harness's, not the page parser
                raised = True
    finally:
        P.LinksHTMLParser = saved
    dists = holder[0].dists if holder else []
    obs = {"raised": raised, "dists": [(obs_cand(c), c.link[1] if isinstance(c.link, tuple) else repr(c.link)) for c in dists],
           "urls": sorted({c.link[0] for c in dists if isinstance(c.link, tuple)})}
    return obs, list(Rec.events), url


def enc_events(events: List[Any]) -> str:
    toks = [str(len(events))]
    for e in events:
        if e[0] == "S":
            toks += ["S", hx(e[1]), str(len(e[2]))]
            for k, v in e[2]:
                toks += [hx(k)] + (["N"] if v is None else ["S", hx(v)])
        elif e[0] == "D":
            toks += ["D", hx(e[1])]
        elif e[0] == "E":
            toks += ["E", hx(e[1])]
        else:
            toks += ["O"]
    return " ".join(toks)


def parse_page_ans(ans: str) -> Any:
    t = Toks(ans.split())
    head = t.next()
    n = int(t.next())
    ds = []
    for _ in range(n):
        c = t.cand()
        l = unhx(t.next()) if t.next() == "S" else None
        ds.append((c, l))
    return {"raised": head == "RAISED", "dists": ds}


def is_ascii(s: str) -> bool:
    return all(ord(ch) < 128 for ch in s)


def wheel_bytes(name: str, version: str, requires: Tuple[str, ...] = ()) -> bytes:
    """deterministic bytes (fixed time stamps): digests written into replay files stay valid"""
    buf = io.BytesIO()
    with zipfile.ZipFile(buf, "w") as z:
        di = f"{name}-{version}.dist-info"

        def put(path: str, text: str) -> None:
            z.writestr(zipfile.ZipInfo(path, date_time=(2020, 1, 1, 0, 0, 0)), text)
        put(di + "/METADATA", f"Metadata-Version: 2.1\nName: {name}\nVersion: {version}\n" + "".join(f"Requires-Dist: {r}\n" for r in requires))
        put(di + "/WHEEL", "Wheel-Version: 1.0\nGenerator: verif\nRoot-Is-Purelib: true\nTag: py3-none-any\n")
        put(di + "/RECORD", "")
    return buf.getvalue()


# ----------------------------------------------------------------------------------------
# sequences of resolutions that share one wheel directory (two indexes, same file name, different bytes)

SEQ_FILES = {"shared_pkg-1.0-py3-none-any.whl": ("shared-pkg", "shared_pkg", "1.0"),
             "other_pkg-2.0-py3-none-any.whl": ("other-pkg", "other_pkg", "2.0")}
SEQ_INDEXES = ["https://index-a.example.org/simple", "https://mirror-b.example.org/root/pypi/+simple", "https://idx.example.org/c/simple/"]
_SEQ_BYTES: Dict[Tuple[str, str], bytes] = {}


def seq_bytes(fname: str, cid: str) -> bytes:
    """content variant `cid` of the wheel `fname`: same name and version, different requirements"""
    key = (fname, cid)
    if key not in _SEQ_BYTES:
        _, dist, ver = SEQ_FILES[fname]
        _SEQ_BYTES[key] = wheel_bytes(dist, ver, (f"dep-{cid}>=1", f"extra-{cid}"))
    return _SEQ_BYTES[key]


def gen_sequence(rng, honest_only: bool = False) -> Dict[str, Any]:
    steps = []
    shared = "shared_pkg-1.0-py3-none-any.whl"
    for _ in range(rng.choice([2, 2, 3, 3, 4, 5])):
        fname = shared if rng.random() < 0.8 else "other_pkg-2.0-py3-none-any.whl"
        cid = rng.choice(["a", "a", "b", "b", "c"])
        index = rng.choice(SEQ_INDEXES)
        style = rng.choice(["relative", "relative", "absolute", "rooted"])
        base = {"relative": f"../../packages/{cid}{rng.randint(0, 1)}/", "absolute": f"https://files.example.org/p/{cid}/", "rooted": f"/pkgs/{cid}/"}[style]
        true_sha = hashlib.sha256(seq_bytes(fname, cid)).hexdigest()
        r = rng.random()
        if r < 0.45:
            frag = ""
        elif r < 0.78:
            frag = "#sha256=" + true_sha
        elif r < 0.83:
            frag = "#md5=" + hashlib.md5(seq_bytes(fname, cid)).hexdigest()
        elif r < 0.88:
            frag = "#sha256=" + true_sha + rng.choice(["#egg=x", "#sha256=" + true_sha, "&x=1"])
        elif r < 0.91:
            frag = rng.choice(["#", "#sha256=", "#egg=shared"])
        elif honest_only:
            frag = ""
        else:   # an index advertising the digest of other bytes (outside the theorem's hypothesis; model and code must still agree)
            other = rng.choice([c for c in "abc" if c != cid])
            frag = "#sha256=" + hashlib.sha256(seq_bytes(fname, other)).hexdigest()
        steps.append({"index": index, "file": fname, "cid": cid, "href": base + fname + frag})
    return {"steps": steps}


def seq_network(step: Dict[str, Any]) -> Tuple[str, str, Dict[str, bytes]]:
    """(page url, file url without fragment, url -> bytes) of the index consulted in this step"""
    project = SEQ_FILES[step["file"]][0]
    index = step["index"][:-1] if step["index"].endswith("/") else step["index"]
    page_url = index + "/" + project + "/"
    file_url = urllib.parse.urldefrag(urllib.parse.urljoin(page_url, step["href"]))[0]
    html = f'<!DOCTYPE html><html><body><h1>Links for {project}</h1>\n<a href="{step["href"]}">{step["file"]}</a><br/>\n</body></html>'
    return page_url, file_url, {page_url: html.encode(), file_url: seq_bytes(step["file"], step["cid"])}


def _cid_of_dist(dist: Any) -> str:
    names = sorted(str(r) for r in dist.requires())
    for n in names:
        if n.startswith("dep-"):
            return n[4:].split(">")[0].split("=")[0]
    return "?" + ",".join(names)


def _cid_of_bytes(fname: str, body: bytes) -> str:
    for c in "abc":
        if seq_bytes(fname, c) == body:
            return c
    return "?" + hashlib.sha256(body).hexdigest()[:8]


def impl_sequence(scn: Dict[str, Any], wheeldir: str, through_get_dist: bool = False) -> List[Dict[str, Any]]:
    """Run the steps on the real code with ONE wheel directory; one observation per step."""
    m = imp()
    P, pkg_resources = m["P"], m["pkg_resources"]
    out = []
    for step in scn["steps"]:
        page_url, file_url, table = seq_network(step)
        sess = FakeSession(table)
        repo = P.PyPIRepository(step["index"], wheeldir)
        repo.session = sess
        req = pkg_resources.Requirement.parse(SEQ_FILES[step["file"]][0])
        obs: Dict[str, Any] = {}
        try:
            if through_get_dist:
                dist, cached = repo.get_dist(req)
                link = dist.candidate.link
            else:
                cands = list(repo.get_candidates(req))
                link = cands[0].link
                dist, cached = repo.resolve_candidate(cands[0])
            obs = {"cid": _cid_of_dist(dist), "hash": dist.hash, "cached": bool(cached), "name": dist.name, "version": str(dist.version),
                   "printed_url": urllib.parse.urljoin(link[0], link[1]),
                   "downloads": [u for u in sess.requested if u != page_url]}
        except Exception as ex:
            common.reraise_harness_fault(ex)     # the fake session / responses are the harness's
            obs = {"exc": type(ex).__name__}
        obs["wheeldir"] = {f: _cid_of_bytes(f, open(os.path.join(wheeldir, f), "rb").read()) for f in sorted(os.listdir(wheeldir)) if f in SEQ_FILES}
        out.append(obs)
    return out


def model_sequence_line(scn: Dict[str, Any]) -> str:
    steps, serve, digs = [], [], {}
    for i, step in enumerate(scn["steps"]):
        page_url, file_url, _ = seq_network(step)
        key = urllib.parse.urljoin(page_url, step["href"]) + "@" + str(i)      # the network may change between steps
        steps += [hx(step["file"]), hx(step["href"]), hx(key)]
        serve += [hx(key), hx(step["cid"] + ":" + step["file"])]
        for c in "abc":
            for f in SEQ_FILES:
                digs[c + ":" + f] = hashlib.sha256(seq_bytes(f, c)).hexdigest()
    toks = ["Q", str(len(scn["steps"]))] + steps + [str(len(scn["steps"]))] + serve + [str(len(digs))]
    for k, v in digs.items():
        toks += [hx(k), hx(v)]
    toks += ["0"]
    return " ".join(toks)


def parse_sequence_ans(ans: str) -> Any:
    t = Toks(ans.split())
    pins = []
    for _ in range(int(t.next())):
        cid = unhx(t.next()).split(":")[0]
        h = unhx(t.next()) if t.next() == "S" else None
        pins.append({"cid": cid, "hash": h, "cached": t.next() == "1"})
    tail = t.next()
    if tail == "NOFILE":
        return pins, None
    wd = {}
    for _ in range(int(t.next())):
        f, c = unhx(t.next()), unhx(t.next())
        wd[f] = c.split(":")[0]
    return pins, wd


def oracle_sequence(scn: Dict[str, Any]) -> Optional[str]:
    """The statement on the real code only: metadata and hash reported for a pin are those of the bytes
    served at urljoin(page url, link) of that pin - whatever earlier resolutions left in the wheel directory."""
    import shutil
    import tempfile
    from req_compile.metadata import extract_metadata
    wd = tempfile.mkdtemp(prefix="c14seq-", dir=str(common.BUILD))
    try:
        obs = impl_sequence(scn, wd, through_get_dist=True)
        for i, (step, o) in enumerate(zip(scn["steps"], obs)):
            page_url, file_url, table = seq_network(step)
            if "exc" in o:
                return f"step {i + 1}: resolving {step['file']} from {step['index']} raised {o['exc']}"
            printed = urllib.parse.urldefrag(o["printed_url"])[0]
            if printed not in table:
                return f"step {i + 1}: the pin's URL {o['printed_url']} is not a file of the index that was asked"
            served = table[printed]
            ref_dir = tempfile.mkdtemp(prefix="c14ref-", dir=str(common.BUILD))
            try:
                path = os.path.join(ref_dir, step["file"])
                with open(path, "wb") as fh:
                    fh.write(served)
                ref = extract_metadata(path)
                want = (ref.name, str(ref.version), _cid_of_dist(ref))
            finally:
                shutil.rmtree(ref_dir, ignore_errors=True)
            got = (o["name"], o["version"], o["cid"])
            if got != want:
                return (f"step {i + 1}: the pin reports URL {o['printed_url']} but its metadata {got} is not that of the file "
                        f"served there {want} (wheel directory held {obs[i - 1]['wheeldir'] if i else {}})")
            import re
            frag = urllib.parse.urldefrag(o["printed_url"])[1]
            if re.fullmatch(r"sha256=[0-9a-f]{64}", frag) and o["hash"] != "sha256:" + hashlib.sha256(served).hexdigest():
                return f"step {i + 1}: printed hash {o['hash']} is not the sha256 of the file at {o['printed_url']}"
        return None
    finally:
        shutil.rmtree(wd, ignore_errors=True)


def sequences(ctx: Ctx) -> None:
    """T2 for resolve_candidate over histories: same wheel directory, several indexes."""
    rng = ctx.rng
    tmp = ctx.tmpdir()
    scns, lines = [], []
    fixed = [
        {"steps": [{"index": SEQ_INDEXES[0], "file": "shared_pkg-1.0-py3-none-any.whl", "cid": "a", "href": "../../packages/aa/shared_pkg-1.0-py3-none-any.whl"},
                   {"index": SEQ_INDEXES[1], "file": "shared_pkg-1.0-py3-none-any.whl", "cid": "b", "href": "../../+f/123/shared_pkg-1.0-py3-none-any.whl"},
                   {"index": SEQ_INDEXES[1], "file": "shared_pkg-1.0-py3-none-any.whl", "cid": "b", "href": "https://mirror-b.example.org/root/pypi/+f/123/shared_pkg-1.0-py3-none-any.whl"}]},
    ]
    for i in range(ctx.n(150, 1500)):
        scn = fixed[i] if i < len(fixed) else gen_sequence(rng)
        scns.append(scn)
        lines.append(model_sequence_line(scn))
    answers = run_model("C14", lines)
    for i, (scn, ans) in enumerate(zip(scns, answers)):
        wd = tmp / f"seq{i}"
        wd.mkdir()
        obs = impl_sequence(scn, str(wd))
        try:
            pins, fin = parse_sequence_ans(ans)
        except Exception:
            pins, fin = "?" + ans[:200], None
        impl = {"pins": [({"cid": o["cid"], "hash": o["hash"], "cached": o["cached"]} if "exc" not in o else o["exc"]) for o in obs],
                "wheeldir": obs[-1]["wheeldir"] if obs else {}}
        model = {"pins": pins, "wheeldir": fin}
        reuse = sum(1 for o in obs if o.get("cached"))
        ctx.count("kind:Q")
        ctx.count("Q-steps", len(scn["steps"]))
        ctx.count("Q-reused", reuse)
        ctx.count("Q-overwritten", sum(1 for j, o in enumerate(obs) if j and not o.get("cached") and scn["steps"][j]["file"] in obs[j - 1]["wheeldir"]))
        ctx.case(key=("Q", json.dumps(scn, sort_keys=True)), nontrivial=len({s["cid"] for s in scn["steps"]}) > 1,
                 sample={"kind": "Q", "steps": scn["steps"], "impl": impl} if i == 1 else None)
        if json.dumps(impl, sort_keys=True) != json.dumps(model, sort_keys=True):
            ctx.mismatch("resolve-sequence", scn, impl, model)
        # downloads happen exactly when the file is not reused, and from the pin's own URL
        for o in obs:
            if "exc" not in o and o["downloads"] != ([] if o["cached"] else [o["printed_url"]]):
                ctx.mismatch("resolve-sequence-download", scn, o["downloads"], [] if o["cached"] else [o["printed_url"]])


# ----------------------------------------------------------------------------------------
# T2

def correspondence(ctx: Ctx) -> None:
    m = imp()
    enc440 = m["enc440"]
    rng = ctx.rng
    corpus_cases(ctx)

    # (U) string helpers against CPython
    import posixpath
    import re
    ulines, uexp = [], []
    for _ in range(ctx.n(1500, 8000)):
        s = rand_str(rng, "ab.-_/ A1*<>=!~\t", 0, 12)
        t = rand_str(rng, "ab.", 1, 3)
        for f, line, exp in [
            ("splitext", f"U splitext {hx(s)}", hx(posixpath.splitext(s)[1])),
            ("basename", f"U basename {hx(s)}", hx(posixpath.basename(s))),
            ("strip", f"U strip {hx(s)}", hx(s.strip())),
            ("lower", f"U lower {hx(s)}", hx(s.lower())),
            ("remove", f"U remove {hx(t)} {hx(s)}", hx(s.replace(t, ""))),
            ("split", f"U split {hx(t[0])} {hx(s)}", (lambda l: str(len(l)) + "".join(" " + hx(x) for x in l))(s.split(t[0]))),
            ("endswith", f"U endswith {hx(t)} {hx(s)}", "1" if s.endswith(t) else "0"),
            ("contains", f"U contains {hx(t)} {hx(s)}", "1" if t in s else "0"),
            ("afterops", f"U afterops {hx(s)}", hx(re.split("[" + ctx.extra.get("t1_constants", {}).get("op_chars", "!=<>~") + "]", s)[-1])),
            ("droplast4", f"U droplast4 {hx(s)}", hx(s[:-4])),
        ]:
            ulines.append(line)
            uexp.append((f, (s, t), exp))
    for n in [0, 1, 9, 10, 99, 100, 4, 123456789012345]:
        ulines.append(f"U dec {hx(str(n))}")
        uexp.append(("dec", n, hx("{}".format(n))))
        ulines.append(f"U int {hx('00' + str(n))}")
        uexp.append(("int", n, str(n)))
    for (f, case, exp), ans in zip(uexp, run_model("C14", ulines)):
        ctx.count("kind:U")
        ctx.case(key=("U", f, case), nontrivial=False)
        if ans != exp:
            ctx.mismatch("str-helper:" + f, case, exp, ans)

    # (R) requires-python
    rcases = []
    for _ in range(ctx.n(8000, 100000)):
        triple = rng.choice(INTERPS) if rng.random() < 0.9 else (rng.randint(0, 4), rng.randint(0, 14), rng.randint(0, 20))
        s, kind = gen_requires(rng, triple)
        rcases.append((triple, s, kind))
    rcases.append(((3, 8, 0), None, "none"))
    rlines = ["R {} {} {} {}".format(t[0], t[1], t[2], "N" if s is None else "S " + hx(s)) for t, s, _ in rcases]
    ranswers, rtables = run_oracle(rlines)
    rsample = []
    for (triple, s, kind), ans, tb in zip(rcases, ranswers, rtables):
        exp = impl_requires(triple, s)
        got = ans.split(" ")[0]
        ctx.count("R:" + kind)
        ctx.count("R-result:" + exp)
        ctx.case(key=("R", triple, s), nontrivial=exp in ("T", "F"),
                 sample={"kind": "R", "interp": triple, "requires": s, "impl": exp, "model": got} if ctx.evaluations % 701 == 0 else None)
        if got != exp:
            ctx.mismatch("requires-python", {"interp": list(triple), "requires": s}, exp, got)
        elif len(rsample) < ctx.n(120, 400) and s is not None and is_ascii(s):
            rsample.append((triple, s, exp, tb))

    # (W) file names
    wcases = []
    for _ in range(ctx.n(12000, 150000)):
        r = rng.random()
        if r < 0.42:
            s, tag = gen_wheel(rng, enc440)
        elif r < 0.85:
            s, tag = gen_sdist(rng, enc440)
        else:
            s, tag = gen_junk_name(rng), "malformed"
        wcases.append((s, tag))
    wanswers, wtables = run_oracle(["W " + hx(s) for s, _ in wcases])
    wsample = []
    for (s, tag), ans, tb in zip(wcases, wanswers, wtables):
        exp = impl_file(s)
        try:
            got = parse_fres(ans)
        except Exception:
            got = "?" + ans
        ctx.count("W:" + tag)
        ctx.count("W-result:" + (exp if isinstance(exp, str) else "cand-" + exp["kind"]))
        ctx.case(key=("W", s), nontrivial=isinstance(exp, dict),
                 sample={"kind": "W", "file": s, "impl": exp, "model": got} if ctx.evaluations % 911 == 0 else None)
        if got != exp:
            ctx.mismatch("file-name", s, exp, got)
        elif len(wsample) < ctx.n(120, 400):
            wsample.append((s, ans, tb))

    # (P) pages
    plines, pexp = [], []
    for _ in range(ctx.n(1200, 8000)):
        triple = rng.choice(INTERPS)
        html, stats = gen_page(rng, enc440, triple)
        for k, v in stats.items():
            ctx.count("P:" + k, v)
        obs, events, url = impl_page(html, triple)
        if obs["urls"] not in ([], [url]):
            ctx.mismatch("page-link-url", html, obs["urls"], [url])
        plines.append("P {} {} {} {}".format(triple[0], triple[1], triple[2], enc_events(events)))
        pexp.append((html, triple, obs, len(events)))
    panswers, _ = run_oracle(plines)
    for (html, triple, obs, nev), ans in zip(pexp, panswers):
        try:
            got = parse_page_ans(ans)
        except Exception:
            got = {"raised": None, "dists": "?" + ans[:200]}
        exp = {"raised": obs["raised"], "dists": obs["dists"]}
        ctx.count("kind:P")
        ctx.count("P-events", nev)
        ctx.count("P-offered", len(obs["dists"]))
        ctx.case(key=("P", triple, html), nontrivial=bool(obs["dists"]),
                 sample={"kind": "P", "interp": triple, "html": html, "offered": [(d[0]["file"], d[1]) for d in obs["dists"]]} if ctx.evaluations % 173 == 0 else None)
        if json.dumps(got, sort_keys=True) != json.dumps(json.loads(json.dumps(exp)), sort_keys=True):
            ctx.mismatch("page", {"interp": list(triple), "html": html}, exp, got)

    hash_and_findlinks(ctx)
    sequences(ctx)
    coq_recheck(ctx, rsample, wsample)


def hash_and_findlinks(ctx: Ctx) -> None:
    """resolve_candidate on both repository kinds: the hash/URL are those of the file that was read."""
    m = imp()
    P, F = m["P"], m["F"]
    rng = ctx.rng
    tmp = ctx.tmpdir()
    hlines, hexp = [], []
    for i in range(ctx.n(60, 400)):
        name, ver = rng.choice(["foo", "bar_baz", "zope.interface"]), rng.choice(["1.0", "2.3.4", "0.1rc1"])
        fname = f"{name}-{ver}-py3-none-any.whl"
        body = wheel_bytes(name, ver)
        digest = hashlib.sha256(body).hexdigest()
        frag = rng.choice(["#sha256=" + digest] * 5 + ["", "#md5=" + "0" * 32, "#sha256=" + digest + "#x=y", "#", "?a=b#sha256=" + digest])
        base = rng.choice(["", "../../packages/ab/", "https://files.example.org/p/", "/packages/"])
        resource = base + fname + frag
        page_url = "https://idx.example.org/simple/" + name + "/"
        full = urllib.parse.urljoin(page_url, resource)
        sess = FakeSession({full: body})
        wd = tmp / f"wd{i}"
        wd.mkdir()
        repo = P.PyPIRepository("https://idx.example.org/simple/", str(wd))
        repo.session = sess
        lp = P.LinksHTMLParser(page_url)
        lp.feed(f'<a href="{resource}">{fname}</a>')
        try:
            dist, _ = repo.resolve_candidate(lp.dists[0])
            impl = {"hash": dist.hash, "requested": sess.requested, "name": dist.name}
        except Exception as ex:
            common.reraise_harness_fault(ex)     # the fake session / responses are the harness's
            impl = {"exc": type(ex).__name__}
        hlines.append("H " + hx(resource))
        hexp.append((resource, full, impl, name))
    for (resource, full, impl, name), ans in zip(hexp, run_model("C14", hlines)):
        model_hash = unhx(ans[2:]) if ans.startswith("S ") else None
        ctx.count("kind:H")
        ctx.case(key=("H", resource), nontrivial=model_hash is not None)
        want = {"hash": model_hash, "requested": [full], "name": name}
        if impl != want:
            ctx.mismatch("link-hash", resource, impl, want)

    # find-links directories
    for i in range(ctx.n(40, 300)):
        d = tmp / rng.choice([f"fl{i}", f"fl{i}.d", f"fl.linux-{i}"])
        d.mkdir()
        files = {}
        for _ in range(rng.randint(1, 6)):
            r = rng.random()
            if r < 0.5:
                name, ver = rng.choice(["foo", "bar_baz"]), rng.choice(["1.0", "2.3.4", "0.1rc1", "1!2"])
                files[f"{name}-{ver}-py3-none-any.whl"] = wheel_bytes(name, ver)
            else:
                fn = (gen_sdist(rng, m["enc440"])[0] if r < 0.9 else gen_junk_name(rng)).replace("/", "").strip()
                if fn and fn not in (".", "..") and is_ascii(fn):
                    files[fn] = b"not really an archive " + fn.encode()
        for fn, body in files.items():
            (d / fn).write_bytes(body)
        rel = rng.random() < 0.5
        try:
            repo = F.FindLinksRepository(str(d), relative_to=str(tmp) if rel else None)
            impl: Any = [(obs_cand(c), c.link[1], c.link[0]) for c in repo.links]
        except Exception as ex:
            repo = None
            impl = "RAISED"
        listing = os.listdir(str(d))
        src = os.path.relpath(str(d), str(tmp)) if rel else str(d)
        line = "L {} {} {} {}".format(hx(str(d)), hx(src), len(listing), " ".join(hx(f) for f in listing))
        ans, _ = run_oracle([line])
        t = Toks(ans[0].split())
        if t.next() == "OK":
            got: Any = []
            for _ in range(int(t.next())):
                c = t.cand()
                got.append((c, unhx(t.next()), src))
        else:
            got = "RAISED"
        ctx.count("kind:L")
        ctx.case(key=("L", tuple(sorted(files)), rel, d.name), nontrivial=bool(impl) and impl != "RAISED")
        if json.dumps(got, sort_keys=True) != json.dumps(impl, sort_keys=True):
            ctx.mismatch("find-links", {"dir": d.name, "files": sorted(files), "relative": rel}, impl, got)
        if repo is not None:
            for c in repo.links:
                if c.filename.endswith(".whl") and files.get(c.filename, b"")[:2] == b"PK":
                    try:
                        dist, _ = repo.resolve_candidate(c)
                        h = dist.hash
                    except Exception as ex:
                        h = "EXC:" + type(ex).__name__
                    want = ctx.extra.get("t1_constants", {}).get("fl_hash_prefix", "sha256:") + hashlib.sha256(files[c.filename]).hexdigest()
                    ctx.count("kind:L-hash")
                    ctx.case(key=("LH", c.filename, d.name), nontrivial=True)
                    if h != want:
                        ctx.mismatch("find-links-hash", c.filename, h, want)


def coq_tbl(tb: Dict[str, str], enc440, as_version: bool) -> str:
    items = []
    for k, v in tb.items():
        if v == "N":
            val = "None"
        elif as_version:
            val = "(Some " + enc440.coq_version_tok(v) + ")"
        else:
            val = "(Some " + common.coq_string(v) + ")"
        items.append("(" + common.coq_string(k) + ", " + val + ")")
    return "[" + "; ".join(items) + "]"


def coq_recheck(ctx: Ctx, rsample, wsample) -> None:
    """A sample of agreeing cases (and the protocol itself) re-evaluated inside Coq by vm_compute."""
    enc440 = imp()["enc440"]
    header = ("From Coq Require Import List String Ascii NArith Bool.\n"
              "From RC Require Import lib.Pep440 model.StrC14 model.FileNameC14 model.PyRequiresC14.\n"
              "Import ListNotations.\nOpen Scope string_scope.\n"
              "Definition look {A} (t : list (string * option A)) (s : string) : option A :=\n"
              "  match find (fun kv => String.eqb (fst kv) s) t with Some kv => snd kv | None => None end.\n"
              "Definition code (r : rres) : nat := match r with ROk true => 1 | ROk false => 0 | RValueError => 2 | ROutOfFuel => 3 end.\n")
    code = {"T": 1, "F": 0, "VE": 2, "FUEL": 3}
    ritems = []
    for triple, s, exp, tb in rsample:
        if exp not in code:
            continue
        ritems.append("(code (check_python (look {}) (mkI {}%N {}%N {}%N) (Some {})), {}%nat)".format(
            coq_tbl(tb, enc440, True), triple[0], triple[1], triple[2], common.coq_string(s), code[exp]))
    witems = []
    for s, ans, tb in wsample:
        if not is_ascii(s):
            continue
        kind = 0 if ans == "NONE" else 2 if ans == "RAISE" else 1
        name = unhx(ans.split()[2]) if kind == 1 else ""
        witems.append("(match file_to_cand string (look {}) {} with FNone => (0%nat, \"\") | FCand c => (1%nat, c_name c) | FRaise => (2%nat, \"\") end, ({}%nat, {}))".format(
            coq_tbl(tb, enc440, False), common.coq_string(s), kind, common.coq_string(name)))
    body = ["Definition rcases : list (nat * nat) := [" + ";\n ".join(ritems) + "].",
            "Definition wcases : list ((nat * string) * (nat * string)) := [" + ";\n ".join(witems) + "].",
            "Definition rbad := filter (fun c => negb (Nat.eqb (fst c) (snd c))) rcases.",
            "Definition wbad := filter (fun c => negb (Nat.eqb (fst (fst c)) (fst (snd c)) && String.eqb (snd (fst c)) (snd (snd c)))) wcases.",
            "Eval vm_compute in (List.length rbad + List.length wbad)."]
    ok, out = common.coq_eval("c14_cases", header, body)
    ctx.extra["coq_recheck"] = {"requires_cases": len(ritems), "file_cases": len(witems), "ok": ok}
    if not ok or "= 0" not in out:
        ctx.mismatch("coq-vm_compute-recheck", {"n": len(ritems) + len(witems)}, "0 mismatches", out[-600:])


# ----------------------------------------------------------------------------------------
# corpus: witnesses of the _refuted theorems and known findings, replayed on every run

def corpus_cases(ctx: Ctx) -> None:
    d = common.CORPUS / "C14"
    if not d.exists():
        return
    for f in sorted(d.glob("*.json")):
        entry = json.loads(f.read_text())
        kind = entry.get("kind")
        ctx.count("corpus")
        if kind == "file":
            ans, _ = run_oracle(["W " + hx(entry["file"])])
            exp, got = impl_file(entry["file"]), parse_fres(ans[0])
            ctx.case(key=("corpus", f.name), nontrivial=True)
            if exp != got:
                ctx.mismatch("corpus-file-name", entry["file"], exp, got)
        elif kind == "page":
            triple = tuple(entry["interp"])
            obs, events, _ = impl_page(entry["html"], triple)
            ans, _ = run_oracle(["P {} {} {} {}".format(triple[0], triple[1], triple[2], enc_events(events))])
            got = parse_page_ans(ans[0])
            exp = {"raised": obs["raised"], "dists": obs["dists"]}
            ctx.case(key=("corpus", f.name), nontrivial=True)
            if json.dumps(got, sort_keys=True) != json.dumps(json.loads(json.dumps(exp)), sort_keys=True):
                ctx.mismatch("corpus-page", entry["html"], exp, got)
        elif kind == "requires":
            triple = tuple(entry["interp"])
            ans, _ = run_oracle(["R {} {} {} S {}".format(triple[0], triple[1], triple[2], hx(entry["requires"]))])
            exp, got = impl_requires(triple, entry["requires"]), ans[0].split(" ")[0]
            ctx.case(key=("corpus", f.name), nontrivial=True)
            if exp != got:
                ctx.mismatch("corpus-requires", entry, exp, got)


# ----------------------------------------------------------------------------------------
# independent oracle: the property STATEMENT on the real code (never calls the model)

def norm_name(s: str) -> str:
    import re
    return re.sub(r"[-_.]+", "-", s).lower()


def oracle_wheel(name: str, ver: str, build: Optional[str], py: List[str], abi: str, plats: List[str]) -> Optional[str]:
    m = imp()
    fn = "-".join([name, ver] + ([build] if build else []) + [".".join(py), abi, ".".join(plats)]) + ".whl"
    try:
        c = m["R"].filename_to_candidate(("U", fn + "#sha256=00"), fn)
    except Exception as ex:
        return f"{fn}: exception {type(ex).__name__}"
    if c is None:
        return f"{fn}: spec-conformant wheel name is not offered"
    from packaging.version import Version
    pver = Version(ver.replace("_", "-"))      # PEP 427 escaping: '-' in a component is written '_'
    if norm_name(c.name) != norm_name(name) or c.version != pver:
        return f"{fn}: name/version {c.name} {c.version} differ from what the name encodes ({name} {pver})"
    if (c.extra_sort_info or "") != (build or ""):
        return f"{fn}: build tag {c.extra_sort_info!r} != {build!r}"
    if sorted(c.py_version.py_versions) != sorted(set(py)) or (c.abi or "none") != abi or sorted(c.platforms) != sorted(set(plats)):
        return f"{fn}: compatibility tags differ from the file name's"
    if c.type != m["R"].DistributionType.WHEEL or c.filename != fn or c.link != ("U", fn + "#sha256=00"):
        return f"{fn}: type/filename/link wrong"
    return None


def name_part_looks_like_version(name: str) -> bool:
    for part in name.replace("_", "-").split("-"):
        if part and (part[0].isdigit() or (len(part) > 1 and part[0] in "vV" and part[1].isdigit())):
            return True
    return False


PLAIN_PARTS = ["foo", "bar", "tool", "lib", "google", "tools", "emu", "py", "zope.interface", "my_pkg", "backports", "thing", "linux", "a"]
DIGIT_PARTS = ["oauth2", "x86", "py3", "utf8", "s3", "k8s", "md5", "h5py", "base64", "ipv6", "x86_64", "e2e", "Py3K", "b2.sdk"]


def gen_sdist_project(rng) -> str:
    """dashed project names of 1-4 parts; inner and last parts often carry a digit WITHOUT starting like a version
    (oauth2, x86, py3 ...): the positions the version-start search of parse_source_filename looks at"""
    k = rng.choice([1, 2, 2, 3, 3, 4])
    parts = []
    for i in range(k):
        digit = rng.random() < (0.15 if i == 0 else 0.45)
        parts.append(rng.choice(DIGIT_PARTS if digit else PLAIN_PARTS))
    return "-".join(parts)


def split_sdist_name(fn: str) -> Optional[Tuple[str, str, str]]:
    """(project, version, ext) of a file name of the shape <parts>-<canonical version><ext>, else None"""
    from packaging.version import Version, InvalidVersion
    for ext in (".tar.gz", ".tar.bz2", ".zip", ".tgz"):
        if fn.endswith(ext) and "/" not in fn:
            stem = fn[: -len(ext)]
            name, _, ver = stem.rpartition("-")
            try:
                if name and str(Version(ver)) == ver and "-" not in ver and "_" not in ver:
                    return name, ver, ext
            except InvalidVersion:
                pass
    return None


def oracle_sdist(name: str, ver: str, ext: str) -> Optional[str]:
    """canonical versions (local labels included) and dashed/dotted names"""
    m = imp()
    from packaging.version import Version
    fn = f"{name}-{ver}{ext}"
    try:
        c = m["R"].filename_to_candidate(("U", fn), fn)
    except Exception as ex:
        return f"{fn}: exception {type(ex).__name__}"
    if c is None:
        return f"{fn}: supported source archive is not offered"
    if name_part_looks_like_version(name):
        return None
    if norm_name(c.name) != norm_name(name) or c.version != Version(ver):
        return f"{fn}: parsed as ({c.name}, {c.version}), the name encodes ({name}, {ver})"
    if c.type != m["R"].DistributionType.SDIST or c.filename != fn or c.link != ("U", fn):
        return f"{fn}: type/filename/link wrong"
    return None


def oracle_requires(triple, forms: List[str], sep: str = ",") -> Optional[str]:
    """forms: clauses in the component-independent forms; the verdict must be PEP 440 containment"""
    from packaging.specifiers import SpecifierSet
    from packaging.version import Version
    s = sep.join(forms)
    want = SpecifierSet(",".join(f.strip() for f in forms)).contains(Version("{}.{}.{}".format(*triple)), prereleases=True)
    got = impl_requires(triple, s)
    if got != ("T" if want else "F"):
        return f"requires-python {s!r} on {triple}: code says {got}, PEP 440 says {want}"
    return None


def gen_indep_form(rng, triple) -> str:
    M, m_, p = triple
    X = max(0, M + rng.choice([0, 0, 0, 1, -1]))
    Y = max(0, m_ + rng.choice([0, 0, 1, -1, 2]))
    Z = max(0, p + rng.choice([0, 0, 1, -1]))
    k = rng.choice(["ge1", "ge2", "ge3", "lt1", "lt2", "lt3", "eqw1", "eqw2", "eqw3", "new1", "new2", "new3", "cp2", "full"])
    if k == "ge1": return f">={X}"
    if k == "ge2": return f">={X}.{Y}"
    if k == "ge3": return f">={X}.{Y}.{Z}"
    if k == "lt1": return f"<{X}"
    if k == "lt2": return f"<{X}.{Y}"
    if k == "lt3": return f"<{X}.{Y}.{Z}"
    if k == "eqw1": return f"=={X}.*"
    if k == "eqw2": return f"=={X}.{Y}.*"
    if k == "eqw3": return f"=={X}.{Y}.{Z}.*"
    if k == "new1": return f"!={X}.*"
    if k == "new2": return f"!={X}.{Y}.*"
    if k == "new3": return f"!={X}.{Y}.{Z}.*"
    if k == "cp2": return f"~={X}.{Y}"
    return rng.choice(["==", "!=", "<=", ">", ">=", "<"]) + f"{X}.{Y}.{Z}"


class _Dom:
    """independent reading of a page: anchors with their own href and the text nodes inside <a>...</a> (any depth)"""

    def __init__(self, html: str) -> None:
        from html.parser import HTMLParser
        anchors: List[Dict[str, Any]] = []
        stray: List[str] = []
        nested: List[str] = []

        class Pz(HTMLParser):
            cur: Optional[Dict[str, Any]] = None
            depth = 0

            def handle_starttag(s, tag, attrs):
                if tag == "a":
                    s.cur = {"attrs": attrs, "text": []}
                    s.depth = 0
                    anchors.append(s.cur)
                elif s.cur is not None:
                    s.depth += 1

            def handle_endtag(s, tag):
                if tag == "a":
                    s.cur = None
                elif s.cur is not None and s.depth > 0:
                    s.depth -= 1

            def handle_data(s, data):
                if s.cur is None:
                    stray.append(data)
                else:
                    if s.depth > 0:
                        nested.append(data)
                    s.cur["text"].append(data)      # text at any depth belongs to the anchor element
        Pz().feed(html)
        self.anchors, self.stray, self.nested = anchors, stray, nested


SUPPORTED = (".whl", ".gz", ".zip", ".tgz", ".bz2", ".tar")   # upper bound: what the code may treat as a distribution


def is_subsequence(a: List[Any], b: List[Any]) -> bool:
    it = iter(b)
    return all(any(x == y for y in it) for x in a)


def clearly_well_formed(text: str) -> bool:
    import re
    from packaging.version import Version, InvalidVersion
    if text.endswith(".whl"):
        try:
            from packaging.utils import parse_wheel_filename
            parse_wheel_filename(text)
            return "/" not in text
        except Exception:
            return False
    m = re.fullmatch(r"([A-Za-z][A-Za-z_.]*(?:-[A-Za-z][A-Za-z_.]*)*)-([0-9][0-9a-z.!]*)(\.tar\.gz|\.zip|\.tgz|\.tar\.bz2)", text)
    if not m or any(x in m.group(1) + "-" + m.group(2) for x in (".tar.gz", ".zip", ".tgz", ".tar.bz2", ".linux", ".win", ".macos")):
        return False
    try:
        Version(m.group(2))
        return True
    except InvalidVersion:
        return False


def oracle_page(html: str, triple) -> Optional[str]:
    """Simple pages only (what gen_simple_page makes): every anchor holds one text node = its file name."""
    m = imp()
    from packaging.specifiers import SpecifierSet, InvalidSpecifier
    from packaging.version import Version
    obs, _, url = impl_page(html, triple)
    if obs["raised"]:
        return "the page parser raised"
    if obs["urls"] not in ([], [url]):
        return f"links are relative to {obs['urls']}, the page was served from {url}"
    dom = _Dom(html)
    want_max, want_min = [], []
    for a, text in [(a_, t_) for a_ in dom.anchors for t_ in a_["text"]]:     # each text node is read on its own
        hrefs = [v for k, v in a["attrs"] if k == "href"]
        if not hrefs or not text.lower().endswith(SUPPORTED):
            continue
        rp = [v for k, v in a["attrs"] if k in ("data-requires-python", "metadata-requires-python")]
        must = True
        if rp and rp[-1]:
            parts = [p for p in rp[-1].split(",") if p.strip()]
            if parts and all(_indep(p) for p in parts):
                # the stated forms: the verdict is PEP 440 containment
                if not SpecifierSet(",".join(p.strip() for p in parts)).contains(Version("{}.{}.{}".format(*triple)), prereleases=True):
                    continue
            else:
                import re
                # a clause that mentions a number may be understood (by PEP 440 or by the code's lenient reading, e.g.
                # "3.6.*.*" or "3.5>=3.5"): either answer is accepted; a declaration without any must hide nothing
                must = not any(re.search(r"[0-9]", p_) for p_ in parts)
        import posixpath
        want_max.append((posixpath.basename(text), hrefs[-1]))
        if must and clearly_well_formed(text):
            want_min.append((text, hrefs[-1]))
    got = [(d[0]["file"], d[1]) for d in obs["dists"]]
    if not is_subsequence(got, want_max):
        return f"offered {got}, which is not among the page's supported, admitted links {want_max} (interpreter {triple})"
    if not is_subsequence(want_min, got):
        return f"offered {got} but the page links the well-formed, admitted files {want_min} (interpreter {triple})"
    for d, _ in obs["dists"]:
        fn = d["file"]
        if fn.endswith(".whl") and clearly_well_formed(fn):
            from packaging.utils import parse_wheel_filename
            pn, pver, _, _ = parse_wheel_filename(fn)
            if d["ver"] != m["enc440"].ver_token(pver):
                return f"{fn}: version differs from the file name's"
    return None


def gen_simple_page(rng, triple) -> str:
    out = ["<html><body>\n"]
    for _ in range(rng.randint(1, 5)):
        name = rng.choice(["foo", "foo_bar", "zope.interface"])
        ver = rng.choice(["1.0", "2.0.1", "1.0rc1", "0.9.post1"])
        fn = rng.choice([f"{name}-{ver}-py3-none-any.whl", f"{name}-{ver}.tar.gz", f"{name}-{ver}.zip", f"{name}-{ver}.exe", f"{name}-{ver}.egg"])
        href = rng.choice(["", "../../p/", "https://f.example.org/"]) + fn + rng.choice(["#sha256=" + "ab" * 32, ""])
        rp = ""
        r = rng.random()
        if r < 0.5:
            forms = [gen_indep_form(rng, triple) for _ in range(rng.choice([1, 2]))]
            rp = ' ' + rng.choice(["data-requires-python", "metadata-requires-python"]) + '="' + ",".join(forms).replace("<", "&lt;").replace(">", "&gt;") + '"'
        elif r < 0.6:
            rp = ' ' + rng.choice(["data-requires-python", "metadata-requires-python"]) + '="' + rng.choice(["garbage", "&gt;=3.x", "=&gt;3", "&gt;&gt;3"]) + '"'
        r = rng.random()
        if r < 0.1:      # text nested in a child element still belongs to its anchor
            out.append(f'<a href="{href}"{rp}><span>{fn}</span></a><br/>\n')
        elif r < 0.2:    # text after </a> is not a link
            out.append(f'<a href="{href}"{rp}>{fn}</a> stray_pkg-9.9.tar.gz<br/>\n')
        else:
            out.append(f'<a href="{href}"{rp}>{fn}</a><br/>\n')
    out.append("</body></html>")
    return "".join(out)


def oracle_hash(resource_base: str, digest: str) -> Optional[str]:
    m = imp()
    P = m["P"]
    import tempfile
    body = wheel_bytes("foo", "1.0")
    digest = hashlib.sha256(body).hexdigest()
    fname = "foo-1.0-py3-none-any.whl"
    resource = resource_base + fname + "#sha256=" + digest
    page_url = "https://idx.example.org/simple/foo/"
    full = urllib.parse.urljoin(page_url, resource)
    sess = FakeSession({full: body})
    with tempfile.TemporaryDirectory(dir=str(common.BUILD)) as wd:
        repo = P.PyPIRepository("https://idx.example.org/simple", wd)
        repo.session = sess
        lp = P.LinksHTMLParser(page_url)
        lp.feed(f'<a href="{resource}">{fname}</a>')
        if len(lp.dists) != 1:
            return "anchor not offered"
        try:
            dist, _ = repo.resolve_candidate(lp.dists[0])
        except Exception as ex:
            common.reraise_harness_fault(ex)     # the fake session / responses are the harness's
            return f"resolve_candidate raised {type(ex).__name__}"
        if dist.hash != "sha256:" + digest:
            return f"hash {dist.hash!r} is not the link's fragment sha256:{digest}"
        if sess.requested != [full]:
            return f"downloaded {sess.requested}, the link is {full}"
    return None


def run_oracles(ctx: Ctx, n: int) -> Optional[Dict[str, Any]]:
    from packaging.version import Version
    enc440 = imp()["enc440"]
    rng = ctx.rng
    for _ in range(n):
        r = rng.random()
        if r < 0.25:
            args = [rng.choice(["foo", "Foo_Bar", "zope.interface", "my_pkg2", "x_1_0", "py3dns"]),
                    str(Version(enc440.gen_version(rng))) if rng.random() < 0.9 else rng.choice(["1.0_1", "2.1_3"]),
                    rng.choice([None, None, "1", "2b"]), rng.choice(PY_TAGS[:6]).split("."), rng.choice(["none", "cp38", "abi3"]),
                    rng.choice(PLATS[:8]).split(".")]
            why = oracle_wheel(*args)
            if why:
                return {"kind": "wheel", "input": args, "why": why}
        elif r < 0.5:
            ver = str(Version(enc440.gen_version(rng, allow_local=True))) if rng.random() < 0.85 else rng.choice(["1.0+abc.linux", "1.0+a.zip", "2.1+windows.1", "1.0+x.tgz.1", "1!1.0+macos"])
            if rng.random() < 0.3:
                ver = rng.choice(["2024", "1", "7", "0.3.post1", "1.0", "2.1.0", "3", "2024.1"])      # dotless and dotted
            args = [gen_sdist_project(rng), ver, rng.choice([".tar.gz", ".zip", ".tgz", ".tar.bz2"])]
            why = oracle_sdist(*args)
            if why:
                return {"kind": "sdist", "input": args, "why": why}
        elif r < 0.8:
            triple = rng.choice(INTERPS)
            forms = [gen_indep_form(rng, triple) for _ in range(rng.choice([1, 1, 2, 3]))]
            sep = rng.choice([",", ", ", " ,"])
            why = oracle_requires(triple, forms, sep)
            if why:
                return {"kind": "requires", "input": [list(triple), forms, sep], "why": why}
        elif r < 0.97:
            triple = rng.choice(INTERPS)
            html = gen_simple_page(rng, triple)
            why = oracle_page(html, triple)
            if why:
                return {"kind": "page", "input": [list(triple), html], "why": why}
        elif r < 0.985:
            scn = gen_sequence(rng, honest_only=True)
            why = oracle_sequence(scn)
            if why:
                return {"kind": "sequence", "input": scn, "why": why}
        else:
            base = rng.choice(["", "../../p/", "https://f.example.org/"])
            why = oracle_hash(base, "")
            if why:
                return {"kind": "hash", "input": [base], "why": why}
    return None


def seq_is_honest(scn: Dict[str, Any]) -> bool:
    for st in scn["steps"]:
        parts = st["href"].split("#sha256=")
        if len(parts) > 1 and any(parts[1] == hashlib.sha256(seq_bytes(st["file"], c)).hexdigest() for c in "abc" if c != st["cid"]):
            return False
    return True


def search(ctx: Ctx) -> Optional[Dict[str, Any]]:
    imp()
    # suspects first: cases on which code and model disagreed
    for mm in ctx.mismatches:
        try:
            c = mm["case"]
            if mm["where"].startswith("resolve-sequence") and seq_is_honest(c):
                why = oracle_sequence(c)
                if why:
                    return {"kind": "sequence", "input": c, "why": why}
                continue
            if mm["where"] == "requires-python" and c.get("requires") is not None:
                parts = [p for p in c["requires"].split(",") if p.strip()]
                try:
                    why = oracle_requires(tuple(c["interp"]), parts) if parts and all(_indep(p) for p in parts) else None
                except Exception:
                    why = None
                if why:
                    return {"kind": "requires", "input": [c["interp"], parts, ","], "why": why}
            elif mm["where"] == "file-name" and isinstance(c, str) and c.endswith(".whl") and "/" not in c:
                parts = c[:-4].split("-")
                if len(parts) in (5, 6) and all(parts):
                    try:
                        from packaging.version import Version
                        Version(parts[1].replace("_", "-"))
                    except Exception:
                        continue
                    if len(parts) == 6 and not parts[2][:1].isdigit():
                        continue
                    args = [parts[0], parts[1], parts[2] if len(parts) == 6 else None, parts[-3].split("."), parts[-2], parts[-1].split(".")]
                    why = oracle_wheel(*args)
                    if why:
                        return {"kind": "wheel", "input": args, "why": why}
            elif mm["where"] in ("file-name", "corpus-file-name") and isinstance(c, str) and split_sdist_name(c):
                args = list(split_sdist_name(c))
                if any(x in c for x in (".linux-", ".win-", ".macosx-")):
                    continue
                why = oracle_sdist(*args)
                if why:
                    return {"kind": "sdist", "input": args, "why": why}
            elif mm["where"] == "page":
                why = oracle_page(c["html"], tuple(c["interp"]))     # any markup: text belongs to the anchor element it is in
                if why:
                    return {"kind": "page", "input": [c["interp"], c["html"]], "why": why}
        except Exception:
            continue
    # histories that share a wheel directory are cheap to try and rarely reached by the mixed stream below
    for _ in range(ctx.n(200, 2000)):
        scn = gen_sequence(ctx.rng, honest_only=True)
        why = oracle_sequence(scn)
        if why:
            return {"kind": "sequence", "input": scn, "why": why}
    return run_oracles(ctx, ctx.n(6000, 60000))


def _indep(part: str) -> bool:
    import re
    p = part.strip()
    return bool(re.fullmatch(r"(>=|<)\s*\d+(\.\d+)*", p) or re.fullmatch(r"(==|!=)\s*\d+(\.\d+){0,2}\.\*", p)
                or re.fullmatch(r"~=\s*\d+\.\d+", p) or re.fullmatch(r"(==|!=|<=|>=|<|>)\s*\d+\.\d+\.\d+", p))


def replay(ctx: Ctx, payload: Dict[str, Any]) -> bool:
    fi = payload.get("failing_input")
    if not fi:
        return False
    k, a = fi["kind"], fi["input"]
    if k == "wheel":
        return oracle_wheel(*a) is not None
    if k == "sdist":
        return oracle_sdist(*a) is not None
    if k == "requires":
        return oracle_requires(tuple(a[0]), a[1], a[2]) is not None
    if k == "page":
        return oracle_page(a[1], tuple(a[0])) is not None
    if k == "hash":
        return oracle_hash(a[0], "") is not None
    if k == "sequence":
        return oracle_sequence(a) is not None
    return False


def replay_known(ctx: Ctx, entry: Dict[str, Any]) -> Optional[bool]:
    """Re-run the stored input of a known finding on the real code; True = still violates the statement."""
    imp()
    path = common.VERIF / entry["replay"]
    e = json.loads(path.read_text())
    if e["kind"] == "page":
        obs, _, _ = impl_page(e["html"], tuple(e["interp"]))
        offered = [(d[0]["file"], d[1]) for d in obs["dists"]]
        return offered != [tuple(x) for x in e["linked"]]
    if e["kind"] == "file":
        got = impl_file(e["file"])
        return not (isinstance(got, dict) and got["ver"] == imp()["enc440"].ver_token(imp()["Version"](e["encoded_version"])))
    return None


LEVEL_TEXT = ("Theorems over Gallina transcriptions of filename_to_candidate / _wheel_filename_to_candidate / parse_source_filename, "
              "check_python_compatibility / _check_py_constraint and LinksHTMLParser: wheel and sdist file-name round trips for all "
              "well-formed components, agreement of the requires-python gate with PEP 440 containment for every interpreter version "
              "on the component-independent forms, fail-open on malformed declarations, exactness of the offered list over all event "
              "streams, hash = link fragment, every candidate of a page carries the address of the page that was served (after a redirect not the one asked for); tied to /repo by AST skeletons + generated constants (T1) and differential execution (T2).")
LEVEL_NOTE = ("Version-string parsing is an oracle (packaging) on both sides; html.parser tokenisation, urljoin and sha256 are trusted "
              "(sha256 collision free; an index advertises only true digests); after the two repairs (anchor scope, local version labels) the "
              "sdist round trip and the DOM-level page statement are proved at full strength; through filename_to_candidate the sdist statement "
              "stays partial (the dumb-binary filter looks at the whole file name: refuted witness, known finding).")
TECHNIQUE = "Rocq proof over Gallina model (string-function lemmas, lexicographic order on release keys, fold invariants) + extraction-based differential correspondence with a parse_version oracle"

"""T1: fail-closed readers of /repo's source (Python ast).  Each helper raises
TranslateError on any shape it does not recognise."""
from __future__ import annotations

import ast
from pathlib import Path
from typing import Any, List, Optional, Tuple

from common import REPO


class TranslateError(Exception):
    pass


LOG_METHODS = {"debug", "info", "warning", "warn", "error", "exception", "critical", "log"}
_PURE_CALLS = {"len", "str", "repr", "sorted", "list", "tuple", "set", "type", "bool", "int"}


def _pure(e: ast.AST) -> bool:
    """syntactically effect-free argument of a logging call: constants, names, attribute chains and constant subscripts of
    names, f-strings / % / + of such, and len/str/repr/sorted/... of such.  (An attribute may be a property; the readers
    treat reading an attribute FOR A LOG LINE as effect-free - what the line logs is not part of any modelled behaviour,
    and a behavioural difference would still show in the correspondence.)"""
    if isinstance(e, (ast.Constant, ast.Name)):
        return True
    if isinstance(e, ast.Attribute):
        return _pure(e.value)
    if isinstance(e, ast.Subscript):
        return _pure(e.value) and _pure(e.slice)
    if isinstance(e, (ast.Tuple, ast.List)):
        return all(_pure(x) for x in e.elts)
    if isinstance(e, ast.JoinedStr):
        return all(_pure(v) for v in e.values)
    if isinstance(e, ast.FormattedValue):
        return _pure(e.value)
    if isinstance(e, ast.BinOp) and isinstance(e.op, (ast.Mod, ast.Add)):
        return _pure(e.left) and _pure(e.right)
    if isinstance(e, ast.BoolOp):
        return all(_pure(v) for v in e.values)
    if isinstance(e, ast.IfExp):
        return _pure(e.test) and _pure(e.body) and _pure(e.orelse)
    if isinstance(e, ast.Compare):
        return _pure(e.left) and all(_pure(c) for c in e.comparators)
    if isinstance(e, ast.Call) and isinstance(e.func, ast.Name) and e.func.id in _PURE_CALLS and not e.keywords:
        return all(_pure(a) for a in e.args)
    return False


def is_log_statement(st: ast.AST) -> bool:
    """`LOG.debug(...)`, `logger.info(...)`, `self.logger.error(...)`, `logging.warning(...)` as a statement, all arguments
    syntactically effect-free"""
    if not (isinstance(st, ast.Expr) and isinstance(st.value, ast.Call) and isinstance(st.value.func, ast.Attribute)):
        return False
    f = st.value.func
    if f.attr not in LOG_METHODS:
        return False
    recv = ast.unparse(f.value)
    if not (recv in ("LOG", "logger", "logging", "self.logger", "log", "_LOG", "_logger") or recv.endswith(".logger") or recv.endswith(".LOG")):
        return False
    return all(_pure(a) for a in st.value.args) and all(_pure(k.value) for k in st.value.keywords)


class _Normalizer(ast.NodeTransformer):
    """what a reader of behaviour does not look at: docstrings, annotations, log lines"""

    def _body(self, body):
        out = []
        for i, st in enumerate(body):
            if is_log_statement(st):
                continue
            out.append(st)
        return out or [ast.Pass()]

    def generic_visit(self, node):
        node = super().generic_visit(node)
        for field in ("body", "orelse", "finalbody"):
            b = getattr(node, field, None)
            if isinstance(b, list) and b and isinstance(b[0], ast.stmt):
                nb = self._body(b)
                if field != "body" and nb == [ast.Pass()] and False:
                    nb = []
                setattr(node, field, nb if (field == "body" or any(not isinstance(x, ast.Pass) for x in nb)) else [])
        return node

    def visit_FunctionDef(self, node):
        node = self.generic_visit(node)
        if node.body and isinstance(node.body[0], ast.Expr) and isinstance(node.body[0].value, ast.Constant) and isinstance(node.body[0].value.value, str):
            node.body = node.body[1:] or [ast.Pass()]
        node.returns = None
        for a in node.args.args + node.args.kwonlyargs + node.args.posonlyargs + [x for x in (node.args.vararg, node.args.kwarg) if x]:
            a.annotation = None
        return node

    visit_AsyncFunctionDef = visit_FunctionDef

    def visit_ClassDef(self, node):
        node = self.generic_visit(node)
        if node.body and isinstance(node.body[0], ast.Expr) and isinstance(node.body[0].value, ast.Constant) and isinstance(node.body[0].value.value, str):
            node.body = node.body[1:] or [ast.Pass()]
        return node

    def visit_AnnAssign(self, node):
        node = self.generic_visit(node)
        if node.value is None:
            return None
        return ast.copy_location(ast.Assign(targets=[node.target], value=node.value, type_comment=None), node)


def normalize(tree: ast.AST) -> ast.AST:
    tree = _Normalizer().visit(tree)
    ast.fix_missing_locations(tree)
    return tree


def parse_src(text: str, filename: str = "<template>") -> ast.Module:
    """parse + normalize: for the expected shapes the readers compare against"""
    return normalize(ast.parse(text, filename=filename))


def parse(rel: str) -> ast.Module:
    import os
    import subprocess
    path = REPO / rel
    try:
        if os.environ.get("VERIF_T1_SOURCE") == "HEAD":
            # fall-back of the driver after a reader failed on the working tree: the committed source (see common.run_property)
            text = subprocess.run(["git", "-C", str(REPO), "show", "HEAD:" + rel], check=True, capture_output=True, text=True).stdout
        else:
            text = path.read_text()
        tree = ast.parse(text, filename=str(path))
    except Exception as ex:
        raise TranslateError(f"cannot parse {rel}: {ex}")
    return tree if os.environ.get("VERIF_T1_RAW") else normalize(tree)


def func(mod: ast.AST, name: str) -> ast.FunctionDef:
    for node in ast.walk(mod):
        if isinstance(node, (ast.FunctionDef, ast.AsyncFunctionDef)) and node.name == name:
            return node
    raise TranslateError(f"function {name} not found")


def klass(mod: ast.AST, name: str) -> ast.ClassDef:
    for node in ast.walk(mod):
        if isinstance(node, ast.ClassDef) and node.name == name:
            return node
    raise TranslateError(f"class {name} not found")


def module_const(mod: ast.Module, name: str) -> ast.expr:
    for node in mod.body:
        if isinstance(node, ast.Assign) and len(node.targets) == 1 and isinstance(node.targets[0], ast.Name) and node.targets[0].id == name:
            return node.value
        if isinstance(node, ast.AnnAssign) and isinstance(node.target, ast.Name) and node.target.id == name and node.value is not None:
            return node.value
    raise TranslateError(f"module constant {name} not found")


def literal(node: ast.expr) -> Any:
    try:
        return ast.literal_eval(node)
    except Exception:
        raise TranslateError(f"not a literal: {ast.dump(node)[:200]}")


def method_chain(node: ast.expr) -> Tuple[ast.expr, List[Tuple[str, List[Any]]]]:
    """x.a(1).b(2,3) -> (x, [("a",[1]),("b",[2,3])]) with literal arguments."""
    chain: List[Tuple[str, List[Any]]] = []
    while isinstance(node, ast.Call) and isinstance(node.func, ast.Attribute):
        if node.keywords:
            raise TranslateError("keyword arguments in method chain")
        chain.append((node.func.attr, [literal(a) for a in node.args]))
        node = node.func.value
    chain.reverse()
    return node, chain


def coq_str(s: str) -> str:
    for ch in s:
        if not (32 <= ord(ch) < 127) or ch == '"':
            raise TranslateError(f"unsupported character in literal {s!r}")
    return '"' + s + '"'


def coq_list(items: List[str]) -> str:
    return "[" + "; ".join(items) + "]"


HEADER = "(* GENERATED by harness/translate.py from /repo on every run -- do not edit *)\nFrom Coq Require Import List String Ascii ZArith NArith Bool.\nImport ListNotations.\nOpen Scope string_scope.\n"


def norm_chain_from(rel: str, fname: str, argname: str) -> Tuple[bool, List[Tuple[str, str]]]:
    """Reads `<arg>.lower().replace(a,b)...` out of the single assignment/return in fname
    that mentions .replace.  Returns (lower_first, [(a,b),...]) in application order."""
    f = func(parse(rel), fname)
    found = []
    for node in ast.walk(f):
        if isinstance(node, ast.Call) and isinstance(node.func, ast.Attribute) and node.func.attr in ("replace", "lower"):
            base, chain = method_chain(node)
            if isinstance(base, ast.Name) and base.id == argname:
                found.append(chain)
    if not found:
        raise TranslateError(f"no normalisation chain on {argname} in {fname}")
    chain = max(found, key=len)
    lower = False
    reps: List[Tuple[str, str]] = []
    for i, (m, args) in enumerate(chain):
        if m == "lower" and not args:
            if reps:
                # lower after replace of non-letters commutes; we still record order strictly
                raise TranslateError("lower() after replace() not supported")
            lower = True
        elif m == "replace" and len(args) == 2 and all(isinstance(a, str) and len(a) == 1 for a in args):
            reps.append((args[0], args[1]))
        else:
            raise TranslateError(f"unsupported call .{m}{tuple(args)} in normalisation chain")
    return lower, reps


def gen_name_consts() -> str:
    lower, reps = norm_chain_from("req_compile/utils.py", "normalize_project_name", "project_name")
    body = HEADER
    body += f"Definition norm_lower : bool := {'true' if lower else 'false'}.\n"
    body += "Definition norm_chain : list (ascii * ascii) := " + coq_list(
        [f"({coq_str(a)}%char, {coq_str(b)}%char)" for a, b in reps]) + ".\n"
    return body

"""C02 - The output is exactly the transitive closure of the inputs (DESIGN.md section 4).  Thin wrapper over solver_property.py."""
from __future__ import annotations

from typing import Any, Dict, Optional

import solver_property as SP
from common import Ctx

ID = "C02"
PROPS = ["props/C02.v"]
EXTRACTS = ["Solver"]
THEOREMS = ['C02_every_success_is_closed', 'C02_traversal_exact_for_every_success', 'C02_emitted_only_reachable', 'C02_traversal_exact_when_checker_accepts', 'C02_closure_checker_sound', 'C02_success_leaves_no_required_project_unsolved', 'C02_final_check_failure_is_located', 'C02_unsolved_in_output_now_fails_honestly', 'C02_refuted_leftover_and_constraint_extra', 'C02_requested_extra_is_expanded']
MODES = ['calm', 'conflict', 'extras', 'extras', 'dense', 'cascade', 'srcextras', 'projects']
RULE = ("universes (2-6 projects x 1-4 versions incl. pre/post/dev releases, requirements with the 7 operators, "
        "wildcards, extras, extra- and environment-markers, cycles, unreadable files, misnamed files), 1-3 input files, "
        "optional unpinned / fully pinned constraint files, remove_constraints, allow_prerelease, max_downgrade) are "
        "compiled by the real perform_compile on an in-memory Repository and by the extracted Coq model; outcome "
        "(solution / NoCandidate + requirement / internal error / divergence), final graph (metadata, links with "
        "reasons, requirers, extras), roots, emitted set and annotation structure are compared. non-trivial = successful compile emitting at least two pins; "
        "distinct = distinct (universe, inputs, constraints, options).")
TRUSTED_BASE = SP.TRUSTED_BASE
ASSUMPTIONS = SP.ASSUMPTIONS
LEVEL_TEXT = "Theorems for EVERY run on the Gallina solver model: the graph a successful compile returns is closed and the traversal that selects the output returns exactly the reachable set (ClosedP); a compile that succeeds leaves no project reachable from the inputs unsolved (SolvedP, by the final check of perform_compile, repaired in /repo 88940d5), and a failing final check names the merged constraints of a required unsolved project; emitted is a subset of the reachable closure; closure checker sound (for all graphs) and evaluated on every correspondence outcome; a requested extra is expanded (former counter-example repaired in /repo 371114e, kept as positive witness). Minimality ('nothing is emitted that nobody requires') is refuted by two vm_compute witnesses replayed on /repo (a link kept from an abandoned candidate; an extra requested only through a constraint file) - known findings. The solver model is tied to /repo by whole-compile correspondence (emitted set included)."
LEVEL_NOTE = ("Trusted: Coq kernel, extraction, OCaml drivers, T1/T2 harness, packaging semantics (validated by the C17 grid), the "
              "measured set-iteration and marker oracles. Modelled, not verified: compile.py, dists.py, versions.py, containers.py.")
TECHNIQUE = "Rocq theorems on a Gallina model of the solver + vm_compute refutation witnesses + extraction-based whole-compile differential correspondence"


def translate(ctx: Ctx) -> Dict[str, str]:
    return SP.translate(ctx)


def _nontrivial(c: Dict[str, Any], i: Dict[str, Any]) -> bool:
    return bool(i["kind"] == "OK" and len(i.get("emitted") or []) >= 2)


def correspondence(ctx: Ctx) -> None:
    SP.correspondence(ctx, ID, 1400, 60000, MODES, _nontrivial)


def search(ctx: Ctx) -> Optional[Dict[str, Any]]:
    return SP.search(ctx, ID, MODES)


def replay(ctx: Ctx, payload: Dict[str, Any]) -> bool:
    return SP.replay(ctx, ID, payload)


def replay_known(ctx: Ctx, entry: Dict[str, Any]) -> Optional[bool]:
    return SP.replay_known(ctx, ID, entry)

"""T1 readers for C18 (req_compile/repos/source.py).  Fail-closed: every AST shape the
model relies on is matched literally; anything else raises TranslateError.

The readers see the NORMALISED AST of translate.parse (T1_NORMALIZE.md): no docstrings, no
annotations (`x: T = v` is `x = v`), no effect-free log statements.  Expected shapes written as
source text go through T.parse_src, so both sides are normalised the same way.  Tolerated on
top of that: extra optional parameters (with defaults) at the end of _extract_metadata /
_extract_metadata_locked and keyword arguments handing them on; statements in the two
`except` handlers of _extract_metadata that only append to / assign an attribute of self that
the modelled code never reads (anything but _find_later, distributions, marker_files, path,
parallelism); a new attribute assigned in __init__.

Generated: coq/gen/C18Consts.v with
  special_dirs, marker_files_default, project_files, testdir_names, testdir_suffixes,
  defer_file, pass1_allow_setup_py, pass2_allow_setup_py.
Checked shapes (no definition generated; the Gallina model hard-codes them, so a change
of shape must stop the run): exclusion test `root == excluded_path or
root.startswith(excluded_path.rstrip(os.sep) + os.sep)` (since ca4e69e), special test on `os.path.basename(root)`, the root exemption
`if is_excluded and not root == self.path: dirs[:] = []; continue`, removal of EVERY
marker directory `dirs[:] = [d for d in dirs if d not in self.marker_files]` else the loop over files,
`except SystemExit` next to `except MetadataError` in _extract_metadata (both: project skipped), the walk call
`os.walk(self.path)`, `yield root` under `if root_is_valid`.
"""
from __future__ import annotations

import ast
from typing import Any, List, Tuple

import translate as T
from translate import TranslateError

REL = "req_compile/repos/source.py"


def _src(node: ast.AST) -> str:
    return ast.unparse(node)


def _str_set(node: ast.expr, what: str) -> List[str]:
    if not isinstance(node, (ast.Set, ast.List, ast.Tuple)):
        raise TranslateError(f"{what}: expected a set/list/tuple literal, got {_src(node)[:80]}")
    vals = T.literal(node)
    if not all(isinstance(v, str) for v in vals):
        raise TranslateError(f"{what}: non-string member")
    return sorted(set(vals))


def _tmpl(text: str) -> str:
    """one expected statement, normalised like the code that is read"""
    m = T.parse_src(text)
    if len(m.body) != 1:
        raise TranslateError("internal: template is not a single statement: " + text[:60])
    return _src(m.body[0])


MODELLED_ATTRS = {"_find_later", "distributions", "marker_files", "path", "parallelism", "logger"}


def _params(fn: ast.FunctionDef, want: List[str], what: str) -> List[str]:
    """the parameters the reader needs, by name, in order; any further ones must be optional.
    Returns the names of the extra (defaulted) parameters."""
    a = fn.args
    names = [x.arg for x in a.args]
    if names[:len(want)] != want or a.vararg or a.kwarg or a.posonlyargs:
        raise TranslateError(f"{what}: argument list changed: {names}")
    extra = names[len(want):]
    if len(a.defaults) < len(extra):
        raise TranslateError(f"{what}: new parameter without a default: {extra}")
    if len(a.defaults) > len(extra):
        raise TranslateError(f"{what}: a modelled parameter got a default")
    kwonly = [x.arg for x in a.kwonlyargs]
    if any(d is None for d in a.kw_defaults):
        raise TranslateError(f"{what}: required keyword-only parameter")
    return extra + kwonly


def _uses(node: ast.AST, names: List[str]) -> bool:
    return any(isinstance(n, ast.Name) and n.id in names for n in ast.walk(node))


def _inert_self_update(st: ast.stmt) -> bool:
    """`self.<new attr>.append(<name>)` / `self.<new attr> = <effect-free>` / `self.<new attr> += ...`:
    book-keeping on an attribute the modelled code never reads"""
    def fresh(t: ast.AST) -> bool:
        return (isinstance(t, ast.Attribute) and isinstance(t.value, ast.Name) and t.value.id == "self"
                and t.attr not in MODELLED_ATTRS)
    if (isinstance(st, ast.Expr) and isinstance(st.value, ast.Call) and isinstance(st.value.func, ast.Attribute)
            and st.value.func.attr in ("append", "add", "extend", "update") and fresh(st.value.func.value)
            and not st.value.keywords and all(T._pure(a) for a in st.value.args)):
        return True
    if isinstance(st, ast.Assign) and len(st.targets) == 1 and fresh(st.targets[0]) and T._pure(st.value):
        return True
    if isinstance(st, ast.AugAssign) and fresh(st.target) and T._pure(st.value):
        return True
    return False


def _method(cls: ast.ClassDef, name: str) -> ast.FunctionDef:
    for n in cls.body:
        if isinstance(n, ast.FunctionDef) and n.name == name:
            return n
    raise TranslateError(f"method {name} not found")


def read_source(ctx: Any = None) -> dict:
    mod = T.parse(REL)
    special = _str_set(T.module_const(mod, "SPECIAL_DIRS"), "SPECIAL_DIRS")
    markers = _str_set(T.module_const(mod, "MARKER_FILES"), "MARKER_FILES")
    cls = T.klass(mod, "SourceRepository")

    # ---- __init__: marker set and excluded paths
    init = _method(cls, "__init__")
    init_src = _src(init)
    for needle in ("self.path = os.path.abspath(path)",
                   "self.marker_files = set(MARKER_FILES)",
                   "if marker_files:\n        self.marker_files |= set(marker_files)",
                   "self._find_all_distributions([os.path.abspath(path) for path in excluded_paths or []])"):
        if needle not in init_src:
            raise TranslateError("SourceRepository.__init__: expected statement missing: " + needle)

    # ---- the walk
    fn = _method(cls, "_find_all_source_dirs")
    if [a.arg for a in fn.args.args][:2] != ["self", "excluded_paths"]:
        raise TranslateError("_find_all_source_dirs: argument list changed")
    body = list(fn.body)          # normalised: no docstring, no log lines
    if len(body) != 1 or not isinstance(body[0], ast.For):
        raise TranslateError("_find_all_source_dirs: body is not a single for loop")
    loop = body[0]
    if _src(loop.target) != "(root, dirs, files)" or _src(loop.iter) != "os.walk(self.path)" or loop.orelse:
        raise TranslateError("_find_all_source_dirs: not `for root, dirs, files in os.walk(self.path)`")
    st = loop.body
    if len(st) != 8:
        raise TranslateError(f"_find_all_source_dirs: loop body has {len(st)} statements, 8 expected")
    fixed = {
        0: "is_excluded = False",
        1: "filename = os.path.basename(root)",
        2: ("if filename in SPECIAL_DIRS:\n    is_excluded = True\nelse:\n    for excluded_path in excluded_paths:\n"
            "        if root == excluded_path or root.startswith(excluded_path.rstrip(os.sep) + os.sep):\n"
            "            is_excluded = True\n            break"),
        3: ("if not is_excluded:\n    if any((dir_ in self.marker_files for dir_ in dirs)):\n"
            "        dirs[:] = [dir_ for dir_ in dirs if dir_ not in self.marker_files]\n"
            "        is_excluded = True\n    else:\n"
            "        for file_ in files:\n            if file_ in self.marker_files:\n"
            "                is_excluded = True\n                break"),
        4: "if is_excluded and (not root == self.path):\n    dirs[:] = []\n    continue",
        5: "root_is_valid = False",
    }
    for i, want in fixed.items():
        want = _tmpl(want)
        if _src(st[i]) != want:
            raise TranslateError(f"_find_all_source_dirs: statement {i + 1} changed:\n{_src(st[i])}\n-- expected:\n{want}")
    # statement 7: for filename in files: if filename in (<project files>): root_is_valid = True
    s7 = st[6]
    ok = (isinstance(s7, ast.For) and _src(s7.target) == "filename" and _src(s7.iter) == "files" and not s7.orelse
          and len(s7.body) == 1 and isinstance(s7.body[0], ast.If) and not s7.body[0].orelse
          and [_src(x) for x in s7.body[0].body] == ["root_is_valid = True"])
    if not ok:
        raise TranslateError("_find_all_source_dirs: project-file loop changed:\n" + _src(s7))
    test = s7.body[0].test
    if not (isinstance(test, ast.Compare) and _src(test.left) == "filename" and len(test.ops) == 1
            and isinstance(test.ops[0], ast.In)):
        raise TranslateError("_find_all_source_dirs: project-file test changed: " + _src(test))
    project_files_raw = T.literal(test.comparators[0])
    if not (isinstance(project_files_raw, (tuple, list, set)) and all(isinstance(x, str) for x in project_files_raw)):
        raise TranslateError("project file names are not a tuple of strings")
    project_files = list(dict.fromkeys(project_files_raw)) if not isinstance(project_files_raw, set) else sorted(project_files_raw)
    # statement 8: if root_is_valid: for dir_ in list(dirs): if <test-dir>: dirs.remove(dir_) ; yield root
    s8 = st[7]
    ok = (isinstance(s8, ast.If) and _src(s8.test) == "root_is_valid" and not s8.orelse and len(s8.body) == 2
          and isinstance(s8.body[0], ast.For) and _src(s8.body[0].target) == "dir_"
          and _src(s8.body[0].iter) == "list(dirs)" and not s8.body[0].orelse
          and len(s8.body[0].body) == 1 and isinstance(s8.body[0].body[0], ast.If)
          and not s8.body[0].body[0].orelse
          and [_src(x) for x in s8.body[0].body[0].body] == ["dirs.remove(dir_)"]
          and _src(s8.body[1]) == "yield root")
    if not ok:
        raise TranslateError("_find_all_source_dirs: test-directory pruning / yield changed:\n" + _src(s8))
    tt = s8.body[0].body[0].test
    names: List[str] = []
    suffixes: List[str] = []
    if not (isinstance(tt, ast.BoolOp) and isinstance(tt.op, ast.Or)):
        raise TranslateError("test-directory rule is not an `or` chain: " + _src(tt))
    for v in tt.values:
        if (isinstance(v, ast.Compare) and _src(v.left) == "dir_" and len(v.ops) == 1 and isinstance(v.ops[0], ast.Eq)
                and isinstance(v.comparators[0], ast.Constant) and isinstance(v.comparators[0].value, str)):
            names.append(v.comparators[0].value)
        elif (isinstance(v, ast.Compare) and _src(v.left) == "dir_" and len(v.ops) == 1 and isinstance(v.ops[0], ast.In)):
            names += list(_str_set(v.comparators[0], "test-dir names"))
        elif (isinstance(v, ast.Call) and _src(v.func) == "dir_.endswith" and len(v.args) == 1 and not v.keywords):
            a = T.literal(v.args[0])
            if isinstance(a, str):
                a = (a,)
            if not (isinstance(a, tuple) and all(isinstance(x, str) and x for x in a)):
                raise TranslateError("endswith argument is not a tuple of non-empty strings")
            suffixes += list(a)
        else:
            raise TranslateError("unrecognised test-directory clause: " + _src(v))

    # ---- _extract_metadata: (optionally) one analysis at a time; deferral of setup.py projects in
    # the first pass; MetadataError and SystemExit mean "this project cannot be analysed"
    em = _method(cls, "_extract_metadata")
    extra = _params(em, ["self", "allow_setup_py", "source_dir"], "_extract_metadata")
    serialised = False
    if len(em.body) == 1 and isinstance(em.body[0], ast.With):
        w = em.body[0]
        ok = (len(w.items) == 1 and _src(w.items[0].context_expr) == "_ANALYSIS_LOCK" and w.items[0].optional_vars is None
              and len(w.body) == 1 and isinstance(w.body[0], ast.Return) and isinstance(w.body[0].value, ast.Call))
        if ok:
            call = w.body[0].value
            ok = (_src(call.func) == "self._extract_metadata_locked"
                  and [_src(x) for x in call.args][:2] == ["allow_setup_py", "source_dir"]
                  and all(isinstance(x, ast.Name) and x.id in extra for x in call.args[2:])
                  and all(k.arg is not None and isinstance(k.value, ast.Name) and k.value.id in extra for k in call.keywords))
        if not ok:
            raise TranslateError("_extract_metadata: lock wrapper changed:\n" + _src(w))
        lock = _src(T.module_const(mod, "_ANALYSIS_LOCK"))
        if lock not in ("threading.RLock()", "threading.Lock()"):
            raise TranslateError("_ANALYSIS_LOCK is not a threading lock: " + lock)
        em = _method(cls, "_extract_metadata_locked")
        extra = _params(em, ["self", "allow_setup_py", "source_dir"], "_extract_metadata_locked")
        serialised = True
    if len(em.body) != 2:
        raise TranslateError(f"_extract_metadata: body has {len(em.body)} statements, 2 expected (deferral, analysis)")
    first = em.body[0]
    ok = (isinstance(first, ast.If) and _src(first.test) == "not allow_setup_py" and not first.orelse
          and len(first.body) == 1 and isinstance(first.body[0], ast.If) and not first.body[0].orelse
          and [_src(x) for x in first.body[0].body] == ["self._find_later.append(source_dir)", "return (source_dir, None)"])
    if not ok:
        raise TranslateError("_extract_metadata: deferral block changed:\n" + _src(first))
    t = first.body[0].test
    if not (isinstance(t, ast.Call) and _src(t.func) == "os.path.exists" and len(t.args) == 1
            and isinstance(t.args[0], ast.Call) and _src(t.args[0].func) == "os.path.join"
            and len(t.args[0].args) == 2 and _src(t.args[0].args[0]) == "source_dir"
            and isinstance(t.args[0].args[1], ast.Constant) and isinstance(t.args[0].args[1].value, str)):
        raise TranslateError("_extract_metadata: deferral test changed: " + _src(t))
    defer_file = t.args[0].args[1].value
    second = em.body[1]
    ok = (isinstance(second, ast.Try) and not second.finalbody and not second.orelse
          and [_src(h.type) for h in second.handlers] == ["req_compile.errors.MetadataError", "SystemExit"]
          and [_src(x) for x in second.body] == [_tmpl("return (source_dir, req_compile.metadata.extract_metadata(source_dir, origin=self))")])
    if ok:
        for h in second.handlers:
            if not h.body or _src(h.body[-1]) != "return (source_dir, None)" or not all(_inert_self_update(x) for x in h.body[:-1]):
                ok = False
    if not ok:
        raise TranslateError("_extract_metadata: analysis block changed (one return of extract_metadata(source_dir, origin=self); "
                             "handlers MetadataError, SystemExit, each only returning (source_dir, None))")
    if extra and (_uses(first, extra) or _uses(second, extra)):
        raise TranslateError(f"_extract_metadata: the new parameter(s) {extra} are used by the modelled statements")

    # ---- _find_all_distributions: two passes
    fd = _method(cls, "_find_all_distributions")
    fsrc = _src(fd)
    if "source_dirs = set(self._find_all_source_dirs(excluded_paths))" not in fsrc:
        raise TranslateError("_find_all_distributions: source_dirs is no longer the set of walked directories")
    partials = []
    for node in ast.walk(fd):
        if isinstance(node, ast.For) and isinstance(node.iter, ast.Call):
            call = node.iter
            if len(call.args) == 2 and isinstance(call.args[0], ast.Call) and _src(call.args[0].func) == "functools.partial":
                p = call.args[0]
                if not (len(p.args) == 2 and _src(p.args[0]) == "self._extract_metadata" and not p.keywords
                        and isinstance(p.args[1], ast.Constant) and isinstance(p.args[1].value, bool)):
                    raise TranslateError("functools.partial(self._extract_metadata, <bool>) shape changed")
                body_ok = (_src(node.target) == "(source_dir, result)" and len(node.body) == 1
                           and _src(node.body[0]) == "if result is not None:\n    self._add_distribution(source_dir, result)")
                if not body_ok:
                    raise TranslateError("pass body is not `if result is not None: self._add_distribution(...)`")
                partials.append((node.lineno, _src(call.func), p.args[1].value, _src(call.args[1])))
    partials.sort()
    if len(partials) != 2:
        raise TranslateError(f"expected two analysis passes, found {len(partials)}")
    (l1, f1, allow1, it1), (l2, f2, allow2, it2) = partials
    if not (f1 == "map_func" and it1 == "source_dirs" and f2 == "map" and it2 == "self._find_later"):
        raise TranslateError(f"passes changed: {f1}({it1}) / {f2}({it2})")
    choice = _tmpl("if self.parallelism == 1:\n    pool = None\n    map_func = map\nelse:\n"
                   "    pool = ThreadPool(self.parallelism)\n    map_func = pool.imap_unordered")
    if choice not in [_src(x) for x in fd.body]:
        raise TranslateError("_find_all_distributions: choice of map function changed")
    if [a.arg for a in fd.args.args][:2] != ["self", "excluded_paths"]:
        raise TranslateError("_find_all_distributions: argument list changed")

    # ---- get_candidates(None): all candidates
    gc = _src(_method(cls, "get_candidates"))
    if "if req is None:\n        return list(itertools.chain(*self.distributions.values()))" not in gc:
        raise TranslateError("get_candidates(None) changed")
    ad = _src(_method(cls, "_add_distribution"))
    if "self.distributions[utils.normalize_project_name(result.name)].append(candidate)" not in ad:
        raise TranslateError("_add_distribution no longer appends the candidate")

    return {
        "special_dirs": special, "marker_files_default": markers, "project_files": project_files,
        "testdir_names": names, "testdir_suffixes": suffixes, "defer_file": defer_file,
        "pass1_allow_setup_py": allow1, "pass2_allow_setup_py": allow2,
        "analysis_serialised": serialised,
    }


def gen_consts() -> str:
    c = read_source()
    sl = lambda xs: T.coq_list([T.coq_str(x) for x in xs])
    b = lambda v: "true" if v else "false"
    out = T.HEADER.replace("harness/translate.py", "harness/tr_c18.py")
    out += "(* req_compile/repos/source.py *)\n"
    out += f"Definition special_dirs : list string := {sl(c['special_dirs'])}.\n"
    out += f"Definition marker_files_default : list string := {sl(c['marker_files_default'])}.\n"
    out += f"Definition project_files : list string := {sl(c['project_files'])}.\n"
    out += f"Definition testdir_names : list string := {sl(c['testdir_names'])}.\n"
    out += f"Definition testdir_suffixes : list string := {sl(c['testdir_suffixes'])}.\n"
    out += f"Definition defer_file : string := {T.coq_str(c['defer_file'])}.\n"
    out += f"Definition pass1_allow_setup_py : bool := {b(c['pass1_allow_setup_py'])}.\n"
    out += f"Definition pass2_allow_setup_py : bool := {b(c['pass2_allow_setup_py'])}.\n"
    out += ("(* _extract_metadata runs under one process-wide lock (the analysis code monkey-patches process state) *)\n"
            f"Definition analysis_serialised : bool := {b(c['analysis_serialised'])}.\n")
    return out

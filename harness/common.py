"""Shared machinery of the /verif checks (see DESIGN.md section 1).

Every property module ``harness/cNN.py`` exposes a small interface (see
``PropertyModule`` below); ``run_property`` drives one complete check:

  T1 translate -> build Coq cone (+ Print Assumptions audit) -> corpus/known findings
  -> T2 correspondence -> (only if something broke) violation search -> evidence.
"""
from __future__ import annotations

import fcntl
import hashlib
import importlib
import json
import os
import random
import re
import shutil
import subprocess
import sys
import time
import traceback
from pathlib import Path
from typing import Any, Callable, Dict, Iterable, List, Optional, Sequence, Tuple

VERIF = Path(__file__).resolve().parent.parent
REPO = Path(os.environ.get("VERIF_REPO", "/repo"))
COQ = VERIF / "coq"
BUILD = VERIF / "build"
REPLAYS = VERIF / "replays"
EVIDENCE = VERIF / "evidence"
CORPUS = VERIF / "corpus"
PY = "/venv/bin/python"

# Axioms a property theorem may depend on (DESIGN.md section 5).  Empty: every property
# theorem must be "Closed under the global context".
ALLOWED_AXIOMS: Tuple[str, ...] = ()

FORBIDDEN = re.compile(
    r"\b(Admitted|admit|Axiom|Axioms|Parameter|Parameters|Conjecture|Conjectures|"
    r"Admit Obligations|Unset Guard Checking|Unset Positivity Checking|"
    r"Unset Universe Checking|bypass_check|type-in-type|impredicative-set)\b"
)


def log(*a: Any) -> None:
    print(*a, file=sys.stderr, flush=True)


# ----------------------------------------------------------------------------------------
# Errors of the harness's own wrappers / fakes / stubs are harness crashes, never observations of the code under test


class HarnessFault(BaseException):
    """An error that originates in the harness's own frames (a wrapper, fake, stub or subclass the harness puts in
    place of something of the code under test), e.g. because a harmless signature change of the code no longer fits
    a stub.  Deliberately not an ``Exception``: no ``except Exception`` that turns errors of the code under test into
    an observation ("raised", "EXC ...") can swallow it; ``run_property`` reports it as a harness crash."""


_HARNESS_DIR = str(Path(__file__).resolve().parent) + os.sep
_BIND_ERR = re.compile(
    r"^([\w.<>]+)\(\) (?:got an unexpected keyword argument|got multiple values for (?:keyword )?argument|"
    r"got some positional-only arguments|takes (?:no|exactly|at least|at most|from|\d+) |missing \d+ required )")
_OWN_BUG = (TypeError, AttributeError, NameError)


def _harness_owned(obj: Any) -> bool:
    mod = sys.modules.get(getattr(obj, "__module__", None) or "")
    return str(getattr(mod, "__file__", None) or "").startswith(_HARNESS_DIR)


def _names_harness_callable(first: str, caller_globals: Dict[str, Any]) -> Optional[str]:
    there = caller_globals.get(first)
    if there is not None and not _harness_owned(there):
        return None         # the caller's own module defines that name: the code's function, not a harness one
    for mod in list(sys.modules.values()):
        if not str(getattr(mod, "__file__", None) or "").startswith(_HARNESS_DIR):
            continue
        obj = vars(mod).get(first)
        if callable(obj) and getattr(obj, "__module__", None) == mod.__name__:
            return str(mod.__file__)
    return None


def harness_fault(ex: BaseException) -> Optional[str]:
    """Why ``ex`` (or an exception it was raised from / while handling) is the harness's own error, or None.

    (a) a TypeError of argument binding ("f() got an unexpected keyword argument ...", "f() takes 2 positional
        arguments but ..."): Python raises it in the CALLER's frame and names the callee.  It is the harness's iff the
        named function / class (first component of its qualified name) is one a harness module defines - wherever
        the caller is; a binding error that names a function of the code is the code's (also when a harness wrapper
        merely forwarded the call).
    (b) any other TypeError / AttributeError / NameError whose innermost frame is a file of /verif/harness AND that
        was reached through a frame of the code under test: a bug in the body of a wrapper / fake / stub the code
        called (the fakes raise their scripted errors with other types: RuntimeError, OSError, requests exceptions;
        a fake that must raise one of these three on purpose marks the exception with ``verif_scripted = True``).
        An error in harness code that was not called by the code under test is left to the handler as before.
    """
    repo_dir = os.path.abspath(str(REPO)) + os.sep
    seen = 0
    cur: Optional[BaseException] = ex
    while cur is not None and seen < 8:
        seen += 1
        if isinstance(cur, _OWN_BUG) and not getattr(cur, "verif_scripted", False):
            files: List[str] = []
            tb = cur.__traceback__
            last = None
            while tb is not None:
                last = tb
                files.append(os.path.abspath(tb.tb_frame.f_code.co_filename))
                tb = tb.tb_next
            m = _BIND_ERR.match(str(cur)) if isinstance(cur, TypeError) else None
            if m:
                where = _names_harness_callable(m.group(1).split(".")[0], last.tb_frame.f_globals if last is not None else {})
                if where is not None:
                    return "%s: %s (%s is defined in %s)" % (type(cur).__name__, cur, m.group(1), where)
            elif files and files[-1].startswith(_HARNESS_DIR) and any(f.startswith(repo_dir) for f in files[:-1]):
                return "%s: %s (innermost frame %s:%d, called by the code under test)" % (
                    type(cur).__name__, cur, files[-1], last.tb_lineno)
        cur = cur.__cause__ or cur.__context__
    return None


_MISSING = object()


def arg_of(orig: Any, args: Sequence[Any], kwargs: Dict[str, Any], name: str, pos: Optional[int] = None,
           default: Any = None) -> Any:
    """What the call ``orig(*args, **kwargs)`` gives to parameter ``name`` of the wrapped original, however the code
    under test spells the call (positionally or by keyword, with or without further arguments).  ``pos`` is the
    position to fall back on (counting as the wrapper's ``args`` do) when ``orig`` has no inspectable signature.
    Never raises: a call that does not fit ``orig`` gets ``default`` here and its own TypeError from ``orig``."""
    try:
        import inspect
        bound = inspect.signature(orig).bind_partial(*args, **kwargs)
        got = bound.arguments.get(name, _MISSING)
        if got is not _MISSING:
            return got
    except (TypeError, ValueError):
        pass
    if name in kwargs:
        return kwargs[name]
    if pos is not None and 0 <= pos < len(args):
        return args[pos]
    return default


def bound_call(orig: Any, args: Sequence[Any], kwargs: Dict[str, Any]) -> Any:
    """``inspect.BoundArguments`` of the call ``orig(*args, **kwargs)``: a wrapper reads (and may replace) arguments by
    the ORIGINAL's parameter names and then calls ``orig(*b.args, **b.kwargs)``.  None when the call does not fit
    ``orig`` (or ``orig`` cannot be inspected): the wrapper then forwards ``orig(*args, **kwargs)`` untouched and the
    code under test gets its own error, not one of the wrapper."""
    try:
        import inspect
        return inspect.signature(orig).bind(*args, **kwargs)
    except (TypeError, ValueError):
        return None


class _Default:
    """non-data descriptor: a computed default an instance (or subclass) attribute of the same name overrides"""

    def __init__(self, fn: Callable[[Any], Any]) -> None:
        self.fn = fn

    def __get__(self, obj: Any, owner: Any = None) -> Any:
        return self if obj is None else self.fn(obj)


class FakeResponseBase:
    """Attributes and methods of ``requests.Response`` a harmless change of the code under test may start to use;
    the fake responses of the checks inherit them (each keeps its own url/status_code/content/raise_for_status...)."""

    status_code = 200
    url = ""
    content = b""
    reason = "scripted"
    encoding = "utf-8"
    history: Tuple[Any, ...] = ()

    ok = _Default(lambda self: int(self.status_code) < 400)
    headers = _Default(lambda self: {})
    text = _Default(lambda self: self.content.decode(self.encoding or "utf-8", "replace")
                    if isinstance(self.content, (bytes, bytearray)) else str(self.content))

    def close(self, *args: Any, **kwargs: Any) -> None:
        return None

    def __enter__(self) -> Any:
        return self

    def __exit__(self, *exc: Any) -> None:
        self.close()


class FakeSessionBase:
    """Likewise for ``requests.Session``: what the code may touch besides ``get`` exists and does nothing."""

    def __init__(self, *args: Any, **kwargs: Any) -> None:
        pass

    headers = _Default(lambda self: self.__dict__.setdefault("headers", {}))
    auth = None
    verify = True
    proxies: Dict[str, str] = {}

    def mount(self, *args: Any, **kwargs: Any) -> None:
        return None

    def close(self, *args: Any, **kwargs: Any) -> None:
        return None

    def __enter__(self) -> Any:
        return self

    def __exit__(self, *exc: Any) -> None:
        self.close()


def reraise_harness_fault(ex: BaseException) -> None:
    """First statement of every broad ``except`` that turns an error of a call into the code under test into an
    observation: an error of the harness's own wrapper frames is re-raised as a harness crash instead."""
    if isinstance(ex, HarnessFault):
        raise ex
    why = harness_fault(ex)
    if why is not None:
        raise HarnessFault(why) from ex


# ----------------------------------------------------------------------------------------
# Coq build


def coq_sources() -> List[str]:
    files = []
    for p in sorted(COQ.rglob("*.v")):
        rel = p.relative_to(COQ).as_posix()
        if rel.startswith("scratch/"):
            continue
        files.append(rel)
    return files


def gen_coqproject() -> None:
    """(Re)generate coq/_CoqProject and coq/Makefile when the file list changed."""
    body = "-Q . RC\n-arg -w -arg -notation-overridden,-deprecated-hint-without-locality,-deprecated-instance-without-locality\n" + "\n".join(coq_sources()) + "\n"
    proj = COQ / "_CoqProject"
    mk = COQ / "Makefile"
    if not proj.exists() or proj.read_text() != body or not mk.exists():
        proj.write_text(body)
        subprocess.run(
            ["coq_makefile", "-f", "_CoqProject", "-o", "Makefile"],
            cwd=COQ, check=True, stdout=subprocess.DEVNULL, stderr=subprocess.DEVNULL,
        )


class BuildLock:
    def __enter__(self) -> "BuildLock":
        BUILD.mkdir(exist_ok=True)
        self.fh = open(BUILD / ".lock", "w")
        fcntl.flock(self.fh, fcntl.LOCK_EX)
        return self

    def __exit__(self, *a: Any) -> None:
        fcntl.flock(self.fh, fcntl.LOCK_UN)
        self.fh.close()


def make(targets: Sequence[str], timeout: int = 1500, force: Sequence[str] = ()) -> Tuple[bool, str]:
    """Full .vo build of the given targets (relative to coq/).  Never -vos."""
    with BuildLock():
        gen_coqproject()
        for f in force:
            for ext in (".vo", ".vok", ".vos", ".glob"):
                try:
                    (COQ / (f[:-2] + ext)).unlink()
                except FileNotFoundError:
                    pass
        cmd = ["timeout", str(timeout), "make", "-f", "Makefile", "-j16", "--no-print-directory"] + list(targets)
        p = subprocess.run(cmd, cwd=COQ, stdout=subprocess.PIPE, stderr=subprocess.STDOUT, text=True)
        return p.returncode == 0, p.stdout


def cone(roots: Sequence[str]) -> List[str]:
    """Files (relative to coq/) reachable from roots through `From RC Require ...` lines."""
    seen: List[str] = []
    todo = list(roots)
    while todo:
        rel = todo.pop()
        if rel in seen or not (COQ / rel).exists():
            continue
        seen.append(rel)
        text = strip_coq_comments((COQ / rel).read_text())
        for m in re.finditer(r"From\s+RC\s+Require\s+(?:Import\s+|Export\s+)?(.*?)\.(?:\s|$)", text, re.S):
            for name in m.group(1).split():
                todo.append(name.replace(".", "/") + ".v")
        for m in re.finditer(r"Require\s+(?:Import\s+|Export\s+)?(.*?)\.(?:\s|$)", text, re.S):
            for name in m.group(1).split():
                if name.startswith("RC."):
                    todo.append(name[3:].replace(".", "/") + ".v")
    return seen


def lint(files: Optional[Sequence[str]] = None) -> List[str]:
    """Forbidden constructs in the given files (default: the whole development)."""
    bad = []
    for rel in (files if files is not None else coq_sources()):
        text = (COQ / rel).read_text()
        text = strip_coq_comments(text)
        for i, line in enumerate(text.split("\n"), 1):
            m = FORBIDDEN.search(line)
            if m:
                bad.append(f"{rel}:{i}: {m.group(0)}")
            if re.search(r"^\s*(Variable|Variables|Hypothesis|Hypotheses|Context)\b", line):
                # allowed only inside a Section: checked structurally below
                pass
        bad.extend(f"{rel}: {x}" for x in _vars_outside_sections(text))
    return bad


def strip_coq_comments(text: str) -> str:
    out = []
    depth = 0
    i = 0
    in_str = False
    while i < len(text):
        c = text[i]
        if depth == 0 and c == '"':
            in_str = not in_str
            out.append(c)
            i += 1
            continue
        if not in_str and text.startswith("(*", i):
            depth += 1
            i += 2
            continue
        if not in_str and depth > 0 and text.startswith("*)", i):
            depth -= 1
            i += 2
            continue
        if depth == 0:
            out.append(c)
        elif c == "\n":
            out.append(c)
        i += 1
    return "".join(out)


def _vars_outside_sections(text: str) -> List[str]:
    depth = 0
    bad = []
    names: List[str] = []
    for i, line in enumerate(text.split("\n"), 1):
        m = re.match(r"^\s*Section\s+(\w+)", line)
        if m:
            depth += 1
            names.append(m.group(1))
            continue
        m = re.match(r"^\s*End\s+(\w+)\s*\.", line)
        if m and names and names[-1] == m.group(1):
            names.pop()
            depth -= 1
            continue
        if depth == 0 and re.match(r"^\s*(Variable|Variables|Hypothesis|Hypotheses)\b", line):
            bad.append(f"line {i}: Variable/Hypothesis outside a Section")
    return bad


def parse_assumptions(out: str, theorems: Sequence[str]) -> Dict[str, Any]:
    """Parse the output of a props file.  Each theorem T is followed by
    ``Print Assumptions T.`` whose output is either 'Closed under the global context'
    or 'Axioms:' followed by indented lines.  We rely on the props files printing a
    marker line ``(*ASSUME T*)`` through ``Redirect``-free plain output order: the n-th
    answer belongs to the n-th theorem listed in the file."""
    answers: List[Any] = []
    lines = out.split("\n")
    i = 0
    while i < len(lines):
        ln = lines[i]
        if ln.startswith("Closed under the global context"):
            answers.append([])
        elif ln.startswith("Axioms:"):
            axs = []
            i += 1
            while i < len(lines) and (lines[i].startswith(" ") or lines[i].strip() == ""):
                s = lines[i].strip()
                if s and re.match(r"^[\w.']+\s*:", s):
                    axs.append(s.split(":")[0].strip())
                elif s and re.match(r"^[\w.']+$", s):
                    axs.append(s)
                i += 1
            answers.append(axs)
            continue
        i += 1
    res = {}
    for n, t in enumerate(theorems):
        res[t] = answers[n] if n < len(answers) else None
    return res


def theorems_in_props(rel: str) -> List[str]:
    text = strip_coq_comments((COQ / rel).read_text())
    printed = re.findall(r"Print Assumptions\s+([\w.']+)\s*\.", text)
    return printed


# ----------------------------------------------------------------------------------------
# Extraction binaries


def build_extract(name: str, timeout: int = 600) -> Tuple[bool, str]:
    """coq/extract/Extract<name>.v writes build/ocaml/<name>/model.ml(i); the driver is
    coq/extract/driver_<name>.ml.  Produces build/ocaml/<name>/run."""
    out_dir = BUILD / "ocaml" / name
    out_dir.mkdir(parents=True, exist_ok=True)
    src_v = f"extract/Extract{name}.v"
    ok, out = make([src_v + "o"], timeout=timeout, force=[src_v])
    if not ok:
        return False, out
    drv = COQ / "extract" / f"driver_{name}.ml"
    with BuildLock():
        shutil.copy(drv, out_dir / "driver.ml")
        dtext = drv.read_text()
        libs = ["drvlib.ml"] + [f"drv{n}.ml" for n in ("440", "graph") if f"Drv{n}" in dtext or (n == "440" and "Drvgraph" in dtext)]
        for lib in libs:
            shutil.copy(COQ / "extract" / lib, out_dir / lib)
        p = subprocess.run(
            ["timeout", "300", "ocamlfind", "ocamlopt", "-w", "-a", "-inline", "50",
             "model.mli", "model.ml"] + libs + ["driver.ml", "-o", "run"],
            cwd=out_dir, stdout=subprocess.PIPE, stderr=subprocess.STDOUT, text=True,
        )
    return p.returncode == 0, out + p.stdout


def run_model(name: str, lines: Iterable[str], timeout: int = 600) -> List[str]:
    """Feed one case per line to the extracted model; one answer line per case."""
    exe = BUILD / "ocaml" / name / "run"
    data = "\n".join(lines) + "\n"
    p = subprocess.run(["bash", "-c", f"ulimit -s unlimited 2>/dev/null; exec timeout {timeout} {exe}"],
                       input=data, stdout=subprocess.PIPE, stderr=subprocess.PIPE, text=True)
    if p.returncode != 0:
        raise RuntimeError(f"model runner {name} failed rc={p.returncode}: {p.stderr[-2000:]}")
    out = p.stdout.split("\n")
    if out and out[-1] == "":
        out.pop()
    return out


def hx(s: str) -> str:
    """hex token of a (unicode) string: utf-8 bytes; empty string -> '-'"""
    b = s.encode("utf-8", "surrogatepass")
    return b.hex() if b else "-"


def unhx(t: str) -> str:
    return "" if t == "-" else bytes.fromhex(t).decode("utf-8", "surrogatepass")


def coq_string(s: str) -> str:
    """A Coq string literal for arbitrary bytes (utf-8 bytes of s).  Non printable bytes
    cannot be written inside a literal, so we build them with String (ascii_of_nat n)."""
    b = s.encode("utf-8", "surrogatepass")
    parts: List[str] = []
    cur = []
    for ch in b:
        if 32 <= ch < 127 and ch != 34:
            cur.append(chr(ch))
        else:
            if cur:
                parts.append('"' + "".join(cur) + '"')
                cur = []
            parts.append(f"(String (Ascii.ascii_of_nat {ch}) EmptyString)")
    if cur:
        parts.append('"' + "".join(cur) + '"')
    if not parts:
        return '""'
    if len(parts) == 1:
        return parts[0]
    return "(" + " ++ ".join(parts) + ")"


def coq_eval(file_stem: str, header: str, body_lines: Sequence[str], timeout: int = 900) -> Tuple[bool, str]:
    """Compile a scratch .v (header + body) under coq/scratch and return coqc's stdout."""
    scratch = COQ / "scratch"
    scratch.mkdir(exist_ok=True)
    path = scratch / f"{file_stem}.v"
    path.write_text(header + "\n" + "\n".join(body_lines) + "\n")
    p = subprocess.run(
        ["bash", "-c", f"ulimit -s unlimited 2>/dev/null; exec timeout {timeout} coqc -Q . RC -w -all scratch/{file_stem}.v"],
        cwd=COQ, stdout=subprocess.PIPE, stderr=subprocess.STDOUT, text=True,
    )
    for ext in (".vo", ".glob", ".vok", ".vos", ".aux"):
        for q in (scratch / f"{file_stem}{ext}", scratch / f".{file_stem}{ext}"):
            try:
                q.unlink()
            except FileNotFoundError:
                pass
    return p.returncode == 0, p.stdout


# ----------------------------------------------------------------------------------------
# Context handed to property modules


class Ctx:
    def __init__(self, pid: str, tier: str, seed: int) -> None:
        self.pid = pid
        self.tier = tier
        self.seed = seed
        self.rng = random.Random(seed * 1000003 + int(hashlib.sha256(pid.encode()).hexdigest()[:8], 16))
        self.t0 = time.time()
        self.evaluations = 0
        self.nontrivial: set = set()
        self.samples: List[Any] = []
        self.dist: Dict[str, int] = {}
        self.mismatches: List[Dict[str, Any]] = []
        self.broken: List[str] = []          # names of broken obligations / correspondences
        self.notes: List[str] = []
        self.known_lines: List[str] = []
        self.extra: Dict[str, Any] = {}
        self.scratch = Path(BUILD / "scratch" / f"{pid}-{os.getpid()}")

    # --- sizes
    def n(self, quick: int, thorough: int) -> int:
        return thorough if self.tier == "thorough" else quick

    # --- bookkeeping
    def count(self, tag: str, k: int = 1) -> None:
        self.dist[tag] = self.dist.get(tag, 0) + k

    def case(self, key: Any = None, nontrivial: bool = False, sample: Any = None) -> None:
        self.evaluations += 1
        if nontrivial and key is not None:
            self.nontrivial.add(hashlib.sha1(repr(key).encode()).hexdigest())
        if sample is not None and len(self.samples) < 5:
            self.samples.append(sample)

    def mismatch(self, where: str, case: Any, impl: Any, model: Any) -> None:
        if len(self.mismatches) < 200:
            self.mismatches.append({"where": where, "case": case, "impl": impl, "model": model})
        self.count("mismatch:" + where)
        if ("correspondence:" + where) not in self.broken:
            self.broken.append("correspondence:" + where)

    def obligation_broken(self, name: str, detail: str = "") -> None:
        if name not in self.broken:
            self.broken.append(name)
        if detail:
            self.notes.append(f"{name}: {detail[-1500:]}")

    def tmpdir(self) -> Path:
        self.scratch.mkdir(parents=True, exist_ok=True)
        return self.scratch

    def cleanup(self) -> None:
        shutil.rmtree(self.scratch, ignore_errors=True)


# ----------------------------------------------------------------------------------------
# Known findings


def load_known(pid: str) -> List[Dict[str, Any]]:
    out: List[Dict[str, Any]] = []
    files = [VERIF / "known_findings.json"] + sorted((VERIF / "known_findings.d").glob("*.json"))
    for f in files:
        if f.exists():
            data = json.loads(f.read_text())
            out += [e for e in data.get("findings", []) if e.get("property") == pid]
    return out


# ----------------------------------------------------------------------------------------
# Running one property


def setup_repo_path() -> None:
    for k in list(sys.modules):
        if k == "req_compile" or k.startswith("req_compile."):
            del sys.modules[k]
    p = str(REPO)
    if p in sys.path:
        sys.path.remove(p)
    sys.path.insert(0, p)


def load_module(pid: str):
    sys.path.insert(0, str(VERIF / "harness"))
    return importlib.import_module(pid.lower())


def write_replay(pid: str, payload: Dict[str, Any]) -> Path:
    REPLAYS.mkdir(exist_ok=True)
    h = hashlib.sha1(json.dumps(payload, sort_keys=True, default=str).encode()).hexdigest()[:12]
    path = REPLAYS / f"{pid}-{h}.json"
    path.write_text(json.dumps(payload, indent=1, sort_keys=True, default=str))
    return path


def run_property(pid: str, tier: str, seed: int) -> int:
    mod = load_module(pid)
    ctx = Ctx(pid, tier, seed)
    setup_repo_path()
    theorems: List[str] = []
    discharged = 0
    obligations = 0
    axioms_used: Dict[str, Any] = {}
    checker_cmd = "make -f Makefile -j16 " + " ".join(p + "o" for p in mod.PROPS) + " (coqc 8.16.1, full .vo build; Print Assumptions parsed)"
    try:
        # 0. lint
        roots = list(mod.PROPS) + [f"extract/Extract{n}.v" for n in getattr(mod, "EXTRACTS", [])]
        bad = lint(cone(roots))
        if bad:
            ctx.obligation_broken("lint", "; ".join(bad[:20]))
        # 1. T1
        if hasattr(mod, "translate"):
            try:
                gens = mod.translate(ctx)  # dict relpath -> text
                for rel, text in gens.items():
                    path = COQ / rel
                    path.parent.mkdir(parents=True, exist_ok=True)
                    if not path.exists() or path.read_text() != text:
                        path.write_text(text)
                    obligations += 1
                    discharged += 1
            except (Exception, HarnessFault) as ex:  # fail closed
                obligations += 1
                ctx.obligation_broken("translator:" + pid, "".join(traceback.format_exception_only(type(ex), ex)))
                # The obligation stays broken.  For the violation search the model should still be the UNCHANGED tree's (not
                # whatever an earlier run left in coq/gen): regenerate from the committed source of the repository, if any.
                try:
                    os.environ["VERIF_T1_SOURCE"] = "HEAD"
                    for rel, text in mod.translate(ctx).items():
                        path = COQ / rel
                        path.parent.mkdir(parents=True, exist_ok=True)
                        if not path.exists() or path.read_text() != text:
                            path.write_text(text)
                    ctx.notes.append("generated files taken from the committed source (HEAD) because the reader failed on the working tree")
                except (Exception, HarnessFault):
                    pass
                finally:
                    os.environ.pop("VERIF_T1_SOURCE", None)
        # 2. Coq cone of the property theorems
        for rel in mod.PROPS:
            ths = theorems_in_props(rel)
            theorems += ths
            obligations += len(ths)
            force = [rel]
            if tier == "thorough":
                force = [rel]
            ok, out = make([rel + "o"], force=force)
            if not ok:
                ctx.obligation_broken("coq-build:" + rel, out)
                # which theorems survived cannot be told: none counted
                continue
            ans = parse_assumptions(out, ths)
            for t in ths:
                a = ans.get(t)
                axioms_used[t] = a
                if a is None:
                    ctx.obligation_broken("print-assumptions-missing:" + t)
                elif [x for x in a if x not in ALLOWED_AXIOMS]:
                    ctx.obligation_broken("axiom:" + t, ",".join(a))
                else:
                    discharged += 1
        expected = getattr(mod, "THEOREMS", [])
        for t in expected:
            if t not in theorems:
                obligations += 1
                ctx.obligation_broken("theorem-missing:" + t)
        # extraction
        for name in getattr(mod, "EXTRACTS", []):
            ok, out = build_extract(name)
            if not ok:
                ctx.obligation_broken("extraction:" + name, out)
        if tier == "thorough" and getattr(mod, "COQCHK", True) and not ctx.broken:
            t1 = time.time()
            libs = ["RC." + rel[:-2].replace("/", ".") for rel in mod.PROPS]
            p = subprocess.run(["timeout", "1200", "coqchk", "-silent", "-o", "-Q", ".", "RC"] + libs,
                               cwd=COQ, stdout=subprocess.PIPE, stderr=subprocess.STDOUT, text=True)
            ctx.extra["coqchk"] = {"rc": p.returncode, "wall_s": round(time.time() - t1, 1),
                                    "tail": p.stdout[-1500:]}
            if p.returncode != 0:
                ctx.obligation_broken("coqchk", p.stdout[-1500:])
        # 3+4. corpus, correspondence (module decides the order: corpus first)
        if not any(b.startswith("extraction:") for b in ctx.broken):
            try:
                mod.correspondence(ctx)
            except HarnessFault:
                ctx.obligation_broken("harness-fault-in-own-wrapper", traceback.format_exc())
            except Exception as ex:
                ctx.obligation_broken("correspondence-harness-crashed", traceback.format_exc())
        # 5. known findings
        for e in load_known(pid):
            try:
                still = mod.replay_known(ctx, e)
            except (Exception, HarnessFault):
                still = None
                ctx.notes.append("known finding replay crashed: " + traceback.format_exc()[-800:])
            if e.get("status") == "known":
                if still:
                    ctx.known_lines.append(f"KNOWN-FINDING: property={pid} {e['what']}")
                elif still is False:
                    ctx.notes.append(f"known finding {e.get('id')} no longer reproduces")
            elif e.get("status") == "fixed":
                if still:
                    ctx.obligation_broken("fixed-finding-returned:" + str(e.get("id")), e["what"])
        # 6. verdict
        rc = 0
        replay_path = None
        if ctx.broken:
            found = None
            try:
                if hasattr(mod, "search"):
                    found = mod.search(ctx)
            except (Exception, HarnessFault):
                ctx.notes.append("search crashed: " + traceback.format_exc()[-1500:])
            payload = {
                "property": pid, "seed": seed, "tier": tier,
                "broken": ctx.broken, "notes": ctx.notes,
                "mismatches": ctx.mismatches[:20],
                "failing_input": found,
            }
            replay_path = write_replay(pid, payload)
            rc = 1
        elif os.environ.get("VERIF_SOAK") and hasattr(mod, "search"):
            # self-test of the violation search (development aid, never part of a registered command): nothing is
            # broken, so a "failing input" found now is either a defect the model shares and no finding lists, or a
            # false alarm of the search oracle / its generators - both must be dealt with before a real break meets them
            try:
                found = mod.search(ctx)
            except (Exception, HarnessFault):
                found = {"search crashed": traceback.format_exc()[-1500:]}
            if found is not None:
                sp = write_replay(pid, {"property": pid, "seed": seed, "tier": tier, "broken": ["soak"], "notes": ctx.notes,
                                        "mismatches": [], "failing_input": found})
                print(f"SOAK-HIT property={pid} replay={sp}")
            else:
                print(f"SOAK-CLEAN property={pid} seed={seed}")
        for ln in ctx.known_lines:
            print(ln)
        if rc:
            tail = "" if payload["failing_input"] is not None else " no-failing-input-found"
            print(f"VIOLATION property={pid} replay={replay_path}{tail}")
        # 7. evidence
        write_evidence(mod, ctx, obligations, discharged, checker_cmd, axioms_used, theorems, rc)
        return rc
    finally:
        ctx.cleanup()


def write_evidence(mod, ctx: Ctx, obligations: int, discharged: int, checker_cmd: str,
                   axioms_used: Dict[str, Any], theorems: List[str], rc: int) -> None:
    EVIDENCE.mkdir(exist_ok=True)
    tb = list(getattr(mod, "TRUSTED_BASE", []))
    tb = [
        "Coq 8.16.1 kernel (coqc; coqchk -o in the thorough tier); vm_compute used, native_compute not used",
        "Axioms per theorem as printed by Print Assumptions: " + json.dumps(axioms_used, sort_keys=True),
        "Extraction: ExtrOcamlBasic + ExtrOcamlString (+ ExtrOcamlNatInt never); Z/N/positive/nat kept inductive; no Extract Constant; driver_*.ml and ocamlfind ocamlopt trusted",
    ] + tb
    ev = {
        "property_id": ctx.pid,
        "tier": ctx.tier,
        "seed": ctx.seed,
        "level": "proof",
        "coverage": {
            "obligations": max(obligations, 1),
            "discharged": discharged,
            "checker_cmd": checker_cmd,
            "trusted_base": tb,
            "theorems": theorems,
            "evaluations": ctx.evaluations,
            "distinct_nontrivial": len(ctx.nontrivial),
            "rule": getattr(mod, "RULE", ""),
            "samples": ctx.samples[:5] or ["(no correspondence case ran)"],
            "input_distribution": dict(sorted(ctx.dist.items())),
            "broken": ctx.broken,
            "notes": ctx.notes[:20],
            "known_findings_printed": ctx.known_lines,
            **ctx.extra,
        },
        "assumptions": list(getattr(mod, "ASSUMPTIONS", [])),
        "wall_s": round(time.time() - ctx.t0, 2),
        "violations": 1 if rc else 0,
    }
    (EVIDENCE / f"{ctx.pid}.json").write_text(json.dumps(ev, indent=1, default=str))

"""C11 - Wheel metadata is read exactly as declared (DESIGN.md section 4, C11)."""
from __future__ import annotations

import io
import json
import logging
import os
import re
import warnings
import zipfile
from typing import Any, Dict, List, Optional, Tuple

import common
import tr_c11
from common import Ctx, hx, unhx, run_model

ID = "C11"
PROPS = ["props/C11.v"]
EXTRACTS = ["C11"]
THEOREMS = [
    "C11_headers_partial", "C11_headers_refuted_body", "C11_headers_folded_and_colon_read",
    "C11_parse_never_index_error",
    "C11_reqs_intact_partial", "C11_reqs_intact_parsed", "C11_reqs_refuted_dropped",
    "C11_dist_info_own", "C11_dist_info_own_exact", "C11_root_match_spec", "C11_dist_info_vendored_read_own",
    "C11_unreadable_is_error", "C11_ok_only_from_declared",
    "C11_source_shape_pinned", "C11_wheel_end_to_end_partial",
    "C11_spec_reads_rendered", "C11_rendered_metadata_read_back",
    "C11_read_sees_current_content", "C11_read_history_independent",
]
RULE = ("(a) generated METADATA texts (field order and case, 0-8 Requires-Dist with extras/markers/parenthesised "
        "specifiers/URLs, headers folded with tab / space / mixed indentation (also under CRLF), duplicated headers, bodies with header-like lines, non-ASCII, CRLF, BOM, exotic white "
        "space, invalid versions/requirements; ~15% malformed) run through the real _parse_flat_metadata and the extracted "
        "parse_flat; (b) the same texts packed into generated wheels (own dist-info first/last/missing, vendored other and "
        "same-project dist-info, .data nesting, METADATA.bak, duplicate members, no dist-info, not-a-zip, truncated, CRC-broken) "
        "run through extract_metadata and the extracted extract_whl (third-party parse_version/Requirement.parse answers handed "
        "to the model as tables); (c) name lists against _find_dist_info_metadata; (d) str.strip; (e) the specification "
        "rfc822_fields against the stdlib email parser; (f) histories in ONE process: the file at one path is written, read, replaced "
        "(valid->other valid, unreadable->valid, valid->unreadable, unchanged) and read again, against the extracted run_ops.  Non-trivial = a distribution was produced with at least one "
        "requirement, or a dist-info had to be chosen among several; distinct = distinct (text) / (wheel layout, text).")
TRUSTED_BASE = [
    "T1 harness/tr_c11.py: regex texts, prefixes, split/partition shapes, first-wins guards, reversed(), handlers -> gen/WheelC11Consts.v (template re-render equality on the whole functions)",
    "T2 harness/c11.py: generators, the archive abstraction (zipfile.namelist()/read()+decode('utf-8','ignore') computed by CPython), canonicalisation",
    "CPython zipfile, bytes.decode, re (the two regexes are re-stated as string predicates, validated by T2), str.lower/strip/split/partition (validated by T2)",
    "pkg_resources.Requirement.parse and packaging Version are opaque oracles (vok/rok) applied to the model's strings by the harness",
    "the stdlib email parser is only a second oracle for rfc822_fields (compared on texts without bare CR / 'From ' / ':'-initial lines)",
    "modelled, not verified: req_compile/metadata/dist_info.py, metadata.extract_metadata (.whl branch), utils.parse_requirements",
]
ASSUMPTIONS = [
    "the file name ends in .whl (splitext/lower not modelled) and names a regular file",
    "the fall-through of an unreadable wheel into the source-directory analysis is modelled by its observed result (MetadataError); exceptions other than BadZipFile from zipfile (zlib.error on corrupt deflate data, encrypted members) are not modelled",
]

NAME_POOL = ["foo", "Foo", "foo_bar", "zope.interface", "Flask", "ns.pkg.sub", "a", "x1", "naive_pkg", "PyYAML", "foo.bar"]
DEP_POOL = ["requests", "six", "Jinja2", "typing-extensions", "zope.interface", "ruamel.yaml", "A", "b_c", "importlib-metadata"]
EXTRAS = ["test", "docs", "security", "all", "x-y"]
MARKERS = ['python_version < "3.8"', "python_version >= '3.6'", 'sys_platform == "win32"', "extra == 'test'",
           'extra == "docs"', "python_version < '3' and extra == 'security'", '(os_name == "nt" or sys_platform == "linux") and extra == "all"',
           'platform_python_implementation != "PyPy"', 'python_full_version >= "3.6.1"']
SPECS = [">=1.0", "==2.*", "<3,>=1.2", "~=1.4.2", "!=1.5", ">=1.0.dev1", "==1.0+local", "<2.0a1", ">=0.9,!=1.0,<2"]
NONASCII = ["José Martínez", "日本語の説明", "naïve café", "über", "\U0001f600 emoji", "İstanbul KK"]
WS_EXOTIC = ["\u00a0", "\u3000", "\x0b", "\x0c", "\x1f", "\u2003", "\u2028", "\x85", "\u200b", "\ufeff", "\t", " ", "\u1680", "\u205f", "\u202f", "\x1c"]


def translate(ctx: Ctx) -> Dict[str, str]:
    return {"gen/WheelC11Consts.v": tr_c11.generate()}


def _imports():
    warnings.simplefilter("ignore")
    logging.disable(logging.CRITICAL)
    import req_compile.metadata.dist_info as DI
    import req_compile.metadata.metadata as MD
    import req_compile.utils as U
    import pkg_resources
    return DI, MD, U, pkg_resources


# ------------------------------------------------------------------------------------------
# generators

def gen_req(rng) -> str:
    name = rng.choice(DEP_POOL)
    s = name
    k = rng.random()
    if k < 0.3:
        s += "[" + ",".join(rng.sample(EXTRAS, rng.choice([1, 1, 2]))) + "]"
    k = rng.random()
    if k < 0.3:
        s += " (" + rng.choice(SPECS) + ")"
    elif k < 0.6:
        s += rng.choice(["", " "]) + rng.choice(SPECS)
    elif k < 0.7:
        s += " @ " + rng.choice(["https://example.org/pkgs/%s-1.0-py3-none-any.whl" % name,
                                 "git+https://github.com/o/%s.git@v1.0#egg=%s" % (name, name),
                                 "file:///tmp/x:y/%s.tar.gz" % name])
    if rng.random() < 0.45:
        s += rng.choice([" ; ", "; ", ";", " ;"]) + rng.choice(MARKERS)
    return s


def case_name(rng, s: str) -> str:
    k = rng.random()
    if k < 0.6:
        return s
    if k < 0.75:
        return s.lower()
    if k < 0.9:
        return s.upper()
    return "".join(c.upper() if rng.random() < 0.5 else c.lower() for c in s)


def gen_body(rng, headerlike: bool) -> List[str]:
    lines = []
    for _ in range(rng.choice([0, 1, 2, 4, 7])):
        k = rng.random()
        if k < 0.35:
            lines.append(rng.choice(["A long description.", "Usage", "=====", "", "    pip install foo", "* item: value", "See https://example.org/a:b"]))
        elif k < 0.5:
            lines.append(rng.choice(NONASCII))
        elif headerlike and k < 0.8:
            lines.append(rng.choice(["Requires-Dist: evil (>=6.6)", "requires-dist: sneaky", "Name: other-name", "Version: 99.0",
                                     "Requires-Dist: body-req ; extra == 'x'", "NAME: shouting", "version: 0.0.1"]))
        else:
            lines.append(rng.choice(["Note: this is not a header", "Requires: nothing", "Names: a, b", "  Requires-Dist: indented", "Versions: many"]))
    return lines


FOLD_INDENTS = ["\t", "\t", " ", "  ", "        ", "\t ", " \t", "\t\t"]


def fold_value(rng, v: str) -> str:
    """Fold a one-line header value over 2-3 physical lines: the line break goes in front of existing
    white space (which then starts the continuation line) or in front of ';' / '(' / '@' with fresh indentation."""
    for _ in range(rng.choice([1, 1, 2])):
        spots = [i for i, c in enumerate(v) if (c == " " or c in ";(@") and i > 0 and v[i - 1] != "\n"
                 and "\n" not in v[max(0, i - 2):i + 1]]
        if not spots:
            break
        i = rng.choice(spots)
        ind = rng.choice(FOLD_INDENTS)
        v = v[:i] + "\n" + ind + (v[i + 1:] if v[i] == " " else v[i:])
    return v


def gen_metadata(rng, malformed: bool) -> Tuple[str, Dict[str, Any]]:
    """Returns (text, tags)."""
    tags: Dict[str, Any] = {}
    name = rng.choice(NAME_POOL)
    version = rng.choice(["1.0", "2.3.4", "0.1a1", "1.0.post2", "2024.1.15", "1!2.0", "1.0+cpu", "3.0.0rc1.dev4"])
    fields: List[Tuple[str, str]] = [("Metadata-Version", rng.choice(["2.1", "1.2", "2.3"]))]
    core = [("Name", name), ("Version", version)]
    others = [("Summary", rng.choice(["A thing", "Summary: with colon", rng.choice(NONASCII)])),
              ("Home-page", "https://example.org/" + name), ("Author", rng.choice(NONASCII + ["A. U. Thor"])),
              ("License", rng.choice(["MIT", "BSD\n        with a second line\n        and: a third"])),
              ("Classifier", "Programming Language :: Python :: 3"), ("Classifier", "License :: OSI Approved"),
              ("Requires-Python", ">=3.6"), ("Project-URL", "Source, https://github.com/x/y"),
              ("Description-Content-Type", "text/x-rst"), ("Provides-Extra", rng.choice(EXTRAS)),
              ("Keywords", "name: version: requires-dist:")]
    nreq = rng.choice([0, 0, 1, 2, 3, 5, 8])
    reqs = [("Requires-Dist", gen_req(rng)) for _ in range(nreq)]
    tags["nreq"] = nreq
    rest = rng.sample(others, rng.randint(0, len(others))) + reqs
    if rng.random() < 0.5:
        rng.shuffle(rest)
    if rng.random() < 0.25:
        allf = core + rest
        rng.shuffle(allf)
        fields += allf
    else:
        fields += core + rest
    fields = [(case_name(rng, k) if rng.random() < 0.3 else k, v) for k, v in fields]
    if rng.random() < 0.3:
        # RFC 822 folding (valid input): continuation lines indented with tabs, spaces or a mix
        pf = rng.choice([0.3, 0.6, 1.0])
        fields = [(k, fold_value(rng, v)) if "\n" not in v and rng.random() < (pf if k.lower() == "requires-dist" else 0.15) else (k, v)
                  for k, v in fields]
        tags["folded"] = sum(1 for k, v in fields if k.lower() == "requires-dist" and "\n" in v)
    headerlike = rng.random() < 0.3
    body = gen_body(rng, headerlike)
    sep = [""]
    mal = None
    if malformed:
        mal = rng.choice(["no-name", "no-version", "no-blank", "fold-req", "fold-name", "colon-name", "colon-version", "space-colon",
                          "junk-header", "dup-name", "dup-version", "bad-version", "empty-version", "bad-req", "ws-exotic", "comment-req", "option-req",
                          "backslash-req", "empty-req", "empty-name", "leading-cont", "bom", "bare-cr", "only-body", "tab-sep", "colon-first",
                          "from-line", "nonascii-field", "ws-line-in-header", "empty-text", "req-no-colon-space"])
        tags["malformed"] = mal
        F = fields
        idx = lambda key: [i for i, (k, _) in enumerate(F) if k.lower() == key]
        if mal == "no-name":
            fields = [f for f in F if f[0].lower() != "name"]
        elif mal == "no-version":
            fields = [f for f in F if f[0].lower() != "version"]
        elif mal == "no-blank":
            sep = []
        elif mal == "fold-req":
            fields = F + [("Requires-Dist", "folded-dep\n  >=1.0 ; extra == 'test'"), ("Requires-Dist", "after-fold")]
        elif mal == "fold-name":
            fields = [(k, (v[:1] + "\n " + v[1:]) if k.lower() in ("name", "version") and rng.random() < 0.7 else v) for k, v in F]
        elif mal == "colon-name":
            fields = [(k, v + rng.choice([":extra", ": x", ":"])) if k.lower() == "name" else (k, v) for k, v in F]
        elif mal == "colon-version":
            fields = [(k, v + rng.choice([":1", ":"])) if k.lower() == "version" else (k, v) for k, v in F]
        elif mal == "space-colon":
            fields = [(k + " ", v) if k.lower() in ("name", "requires-dist") and rng.random() < 0.6 else (k, v) for k, v in F]
        elif mal == "junk-header":
            j = rng.randint(0, len(F))
            fields = F[:j] + [("\0JUNK", rng.choice(["this line has no colon", "=====", "café: au lait", "Foo Bar: baz"]))] + F[j:]
        elif mal == "dup-name":
            fields = F + [("Name", "second-name")] if rng.random() < 0.5 else [("name", "zeroth")] + F
        elif mal == "dup-version":
            fields = F + [("Version", rng.choice(["9.9", "not a version"]))]
        elif mal == "bad-version":
            fields = [(k, rng.choice(["bogus", "1.0 beta", "v", "1..2"])) if k.lower() == "version" else (k, v) for k, v in F]
        elif mal == "empty-version":
            fields = [(k, "") if k.lower() == "version" else (k, v) for k, v in F]
        elif mal == "bad-req":
            fields = F + [("Requires-Dist", rng.choice(["foo bar", "foo[", "==1.0", "foo >=", "foo ; bogus_marker == 1", "\\ \\x", "-e foo", "-r other.txt", "-"]))]
        elif mal == "ws-exotic":
            w = lambda: "".join(rng.choice(WS_EXOTIC) for _ in range(rng.randint(1, 3)))
            fields = [(k, w() + v + w()) if k.lower() in ("name", "version", "requires-dist") else (k, v) for k, v in F]
        elif mal == "comment-req":
            fields = F + [("Requires-Dist", rng.choice(["# a comment", "#", " #x"]))]
        elif mal == "option-req":
            fields = F + [("Requires-Dist", rng.choice(["--hash=sha256:abc", "-- x", "--"]))]
        elif mal == "backslash-req":
            fields = F + [("Requires-Dist", rng.choice(["six \\", "six\\\\", "\\", " \\ \\ ", "six ; python_version<'3' \\"]))]
        elif mal == "empty-req":
            fields = F + [("Requires-Dist", rng.choice(["", " ", "\t"]))]
        elif mal == "empty-name":
            fields = [(k, rng.choice(["", " "])) if k.lower() == "name" else (k, v) for k, v in F]
        elif mal == "leading-cont":
            fields = [("\0RAW", "  leading continuation")] + F
        elif mal == "nonascii-field":
            fields = F[:1] + [("N\u00e4me", "umlaut"), ("\u212aey", "kelvin"), ("Vers\u0130on", "9"), ("REQU\u0130RES-DIST", "dotted-i")] + F[1:]
        elif mal == "ws-line-in-header":
            j = rng.randint(1, len(F))
            fields = F[:j] + [("\0RAW", rng.choice(["   ", "\t", " \x0b"]))] + F[j:]
        elif mal == "colon-first":
            j = rng.randint(0, len(F))
            fields = F[:j] + [("\0RAW", ": no field name")] + F[j:]
        elif mal == "from-line":
            j = rng.choice([0, 1, len(F)])
            fields = F[:j] + [("\0RAW", "From someone@example.org Thu Jan  1 00:00:00 1970")] + F[j:]
        elif mal == "req-no-colon-space":
            fields = F + [("Requires-Dist", "\0NOSPACE" + gen_req(rng))]
    out: List[str] = []
    for k, v in fields:
        if k == "\0JUNK" or k == "\0RAW":
            out.append(v)
        elif v.startswith("\0NOSPACE"):
            out.append(k + ":" + v[len("\0NOSPACE"):])
        else:
            out.append(k + rng.choice([": ", ": ", ": ", ":", ":  ", ":\t"] if mal == "tab-sep" else [": "]) + v)
    out = [piece for ln in out for piece in ln.split("\n")]
    lines = out + sep + body
    if mal == "only-body":
        lines = [""] + out + body
    if mal == "empty-text":
        lines = []
    eol = rng.choice(["\n", "\n", "\n", "\r\n", "mixed"])
    tags["eol"] = eol
    text = ""
    for ln in lines:
        text += ln + (rng.choice(["\n", "\r\n"]) if eol == "mixed" else eol)
    if rng.random() < 0.1 and text.endswith("\n"):
        text = text.rstrip("\r\n")
    if mal == "bom":
        text = "\ufeff" + text
    if mal == "bare-cr":
        text = text.replace("\n", "\r", 1) if rng.random() < 0.5 else text.replace(": ", ": \r", 1)
    tags["headerlike_body"] = headerlike and any(re.match(r"(?i)(name|version|requires-dist):", b) for b in body)
    return text, tags


def encode_text(rng, text: str) -> bytes:
    k = rng.random()
    if k < 0.85:
        return text.encode("utf-8")
    if k < 0.93:
        return text.encode("latin-1", "replace")          # invalid utf-8 -> dropped by decode(..., "ignore")
    b = text.encode("utf-8")
    if len(b) > 4:                                            # cut a multi-byte sequence / stray bytes
        i = rng.randrange(len(b))
        b = b[:i] + bytes([rng.choice([0x80, 0xC3, 0xFF, 0xE2])]) + b[i:]
    return b


def gen_wheel(rng, malformed: bool, same_as: Optional[Dict[str, Any]] = None, layouts: Optional[List[str]] = None) -> Dict[str, Any]:
    """A wheel description: basename, ordered members [(name, bytes)], corruption kind.
    same_as: reuse that wheel's project/version/file name (a rebuilt / re-downloaded wheel at the same path)."""
    proj = rng.choice(NAME_POOL + ["foo+bar", "c++", "we(i)rd"] if rng.random() < 0.04 else NAME_POOL)
    ver = rng.choice(["1.0", "2.3.4", "0.1a1", "1.0.post2"])
    base = "%s-%s-%s.whl" % (proj, ver, rng.choice(["py3-none-any", "cp312-cp312-manylinux_2_17_x86_64", "1-py2.py3-none-any"]))
    if rng.random() < 0.05:
        base = base[:-4] + rng.choice([".WHL", ".Whl"])
    if same_as is not None:
        proj, ver, base = same_as["proj"], same_as["ver"], same_as["basename"]
    text, tags = gen_metadata(rng, malformed and rng.random() < 0.5)
    own_dir = "%s-%s.dist-info" % (proj, ver)
    layout = rng.choice(["own-last"] * 5 + ["own-first", "own-middle", "own-lower", "nested-own", "none", "no-metadata-file",
                                             "other-only", "vendored-other", "vendored-same-after", "vendored-same-before",
                                             "data-nested-after", "data-nested-before", "bak-after", "dup-member", "dashdir-after", "many-vendored",
                                             "prefix-project-after", "newline-name", "uppercase-metadata",
                                             "nonascii-members", "nodash-basename", "dot-wildcard-after"])
    if malformed and rng.random() < 0.5:
        layout = rng.choice(["none", "no-metadata-file", "not-zip", "truncated", "bad-crc", "empty-file", "other-only", "zero-members"])
    if layouts:
        layout = rng.choice(layouts)
    if same_as is not None and layout == "nodash-basename":
        layout = "own-last"          # that layout renames the file
    pkg = [(proj.replace(".", "/").lower() + "/__init__.py", b"# init\n"), (proj.lower() + "/core.py", b"x = 1\n")]
    own = [(own_dir + "/METADATA", encode_text(rng, text)), (own_dir + "/WHEEL", b"Wheel-Version: 1.0\n"), (own_dir + "/RECORD", b"")]
    def other_meta(n: str, v: str, extra: str = "") -> bytes:
        return ("Metadata-Version: 2.1\nName: %s\nVersion: %s\nRequires-Dist: vendored-dep-of-%s\n%s\n" % (n, v, n, extra)).encode()
    members: List[Tuple[str, bytes]] = []
    if layout == "own-last":
        members = pkg + own
    elif layout == "own-first":
        members = own + pkg
    elif layout == "own-middle":
        members = pkg[:1] + own + pkg[1:]
    elif layout == "own-lower":
        d = own_dir.lower() if rng.random() < 0.5 else own_dir.replace("_", "-").replace(".dist-info", ".DIST-INFO")
        members = pkg + [(d + "/METADATA", own[0][1])]
    elif layout == "nested-own":
        members = pkg + [("sub/dir/" + n, c) for n, c in own]
    elif layout == "none":
        members = pkg
    elif layout == "no-metadata-file":
        members = pkg + own[1:] + [(own_dir + "/metadata.json", b"{}"), (own_dir + "/METADATA_old", b"Name: zz\n")]
    elif layout == "other-only":
        members = pkg + [("other_pkg-3.0.dist-info/METADATA", other_meta("other-pkg", "3.0"))] + ([("zzz-1.dist-info/METADATA", other_meta("zzz", "1"))] if rng.random() < 0.5 else [])
    elif layout == "vendored-other":
        v = [(proj.lower() + "/_vendor/six-1.16.0.dist-info/METADATA", other_meta("six", "1.16.0"))]
        members = (pkg + v + own) if rng.random() < 0.5 else (pkg + own + v)
    elif layout == "vendored-same-after":
        members = pkg + own + [(proj.lower() + "/_vendor/%s-0.5.dist-info/METADATA" % proj, other_meta(proj, "0.5"))]
    elif layout == "vendored-same-before":
        members = pkg + [(proj.lower() + "/_vendor/%s-0.5.dist-info/METADATA" % proj, other_meta(proj, "0.5"))] + own
    elif layout == "data-nested-after":
        members = pkg + own + [("%s-%s.data/purelib/bar-2.0.dist-info/METADATA" % (proj, ver), other_meta("bar", "2.0"))]
    elif layout == "data-nested-before":
        members = pkg + [("%s-%s.data/purelib/bar-2.0.dist-info/METADATA" % (proj, ver), other_meta("bar", "2.0"))] + own
    elif layout == "bak-after":
        members = pkg + own + [(own_dir + "/METADATA.bak", other_meta("backup", "0"))] if rng.random() < 0.5 else pkg + [("x.dist-info/METADATA.orig", other_meta("orig", "0"))]
    elif layout == "dup-member":
        members = pkg + own + [(own_dir + "/METADATA", other_meta(proj, "7.7", "Requires-Dist: from-duplicate"))]
        if rng.random() < 0.5:
            members = [members[-1]] + members[:-1]
    elif layout == "dashdir-after":
        members = pkg + own + [("%s-stuff/inner/quux-1.dist-info/METADATA" % proj, other_meta("quux", "1"))]
    elif layout == "many-vendored":
        vs = [("v%d/%s-%d.dist-info/METADATA" % (i, rng.choice(DEP_POOL + [proj]), i), other_meta("v%d" % i, str(i))) for i in range(rng.randint(2, 5))]
        members = pkg + vs + own
        rng.shuffle(members)
    elif layout == "prefix-project-after":
        members = pkg + own + [("%s-extras-1.0.dist-info/METADATA" % proj, other_meta(proj + "-extras", "1.0")), ("x/%sx-1.dist-info/METADATA" % proj, other_meta("px", "1"))]
    elif layout == "newline-name":
        members = pkg + [(own_dir + "/METADATA\n", other_meta("trailing-newline", "1")), ("a\nb/%s-1.dist-info/METADATA" % proj, other_meta("nl", "1"))] + (own if rng.random() < 0.5 else [])
    elif layout == "uppercase-metadata":
        members = pkg + [(own_dir + "/metadata", own[0][1]), (own_dir.upper() + "/METADATA", own[0][1])]
    elif layout == "nonascii-members":
        members = [("paquet/\u00e9t\u00e9.py", b"x"), ("\u00e9/%s-9.dist-info/METADATA" % proj, other_meta("accent", "9")),
                   ("\u65e5\u672c/other-1.dist-info/METADATA", other_meta("nihon", "1"))] + (own if rng.random() < 0.6 else [])
        if rng.random() < 0.5:
            members.reverse()
    elif layout == "nodash-basename":
        base = proj + ".whl"
        members = pkg + [(proj + "Xwhl-1.dist-info/METADATA", other_meta("wild", "1")), (proj + ".whl-2.dist-info/METADATA", own[0][1])]
        if rng.random() < 0.5:
            members.reverse()
    elif layout == "dot-wildcard-after":
        alt = proj.replace(".", rng.choice(["_", "-", "\u00e9", "\n"]))
        members = pkg + own + [("%s-0.dist-info/METADATA" % alt, other_meta("alt", "0"))]
    elif layout in ("not-zip", "truncated", "bad-crc", "empty-file"):
        members = pkg + own
    elif layout == "zero-members":
        members = []
    tags.update({"layout": layout, "project": proj})
    return {"basename": base, "members": members, "layout": layout, "tags": tags, "own": own_dir + "/METADATA",
            "compress": rng.random() < 0.3, "proj": proj, "ver": ver}


def write_wheel(path: str, w: Dict[str, Any]) -> None:
    layout = w["layout"]
    if layout == "raw-bytes":
        with open(path, "wb") as fh:
            fh.write(w["raw"])
        return
    if layout == "not-zip":
        with open(path, "wb") as fh:
            fh.write(b"this is not a zip archive\n" * 3)
        return
    if layout == "empty-file":
        open(path, "wb").close()
        return
    buf = io.BytesIO()
    with warnings.catch_warnings():
        warnings.simplefilter("ignore")
        with zipfile.ZipFile(buf, "w", zipfile.ZIP_DEFLATED if w["compress"] and layout != "bad-crc" else zipfile.ZIP_STORED) as z:
            for n, c in w["members"]:
                z.writestr(n, c)
    data = buf.getvalue()
    if layout == "truncated":
        data = data[: max(10, len(data) // 2)]
    if layout == "bad-crc":
        target = [c for n, c in w["members"] if n == w["own"]][0]
        i = data.find(target)
        if i >= 0 and len(target) > 0:
            data = data[:i] + bytes([data[i] ^ 0x20]) + data[i + 1:]
    with open(path, "wb") as fh:
        fh.write(data)


def abstract_archive(path: str) -> Optional[Tuple[str, List[Tuple[str, Optional[str]]]]]:
    """The model's view of the file, computed with CPython's zipfile + decode (trusted layer):
    ("B", []) or ("Z", [(name, text | None=unreadable)]); None if zipfile fails in an unmodelled way."""
    try:
        z = zipfile.ZipFile(path, "r")
    except zipfile.BadZipFile:
        return ("B", [])
    out: List[Tuple[str, Optional[str]]] = []
    with z:
        for info in z.infolist():
            n = info.filename
            try:
                # read() looks the NAME up (last entry of that name); per-entry content needs the info object
                out.append((n, z.read(info).decode("utf-8", "ignore")))
            except zipfile.BadZipFile:
                out.append((n, None))
            except Exception:
                return None
    return ("Z", out)


def archive_tokens(a: Tuple[str, List[Tuple[str, Optional[str]]]]) -> str:
    if a[0] == "B":
        return "B"
    return "Z %d" % len(a[1]) + "".join(" %s %s" % (hx(n), "X" if t is None else "C " + hx(t)) for n, t in a[1])


# ------------------------------------------------------------------------------------------
# observations

def canon_exc(e: BaseException) -> str:
    n = type(e).__name__
    # every exception out of utils.parse_requirement (InvalidRequirement; a bare ValueError when
    # pkg_resources treats a trailing backslash as a line continuation) is "the requirement parser refused"
    if n in ("InvalidRequirement", "RequirementParseError") or type(e) is ValueError:
        return "InvalidRequirement"
    return n


def obs_dist(r: Any) -> Any:
    return ["OK", r.name, None if r.version is None else str(r.version), [str(x) for x in r.reqs]]


def impl_flat(DI, text: str) -> Any:
    try:
        return obs_dist(DI._parse_flat_metadata(text))
    except Exception as e:
        return ["EXC", canon_exc(e)]


def impl_wheel(MD, path: str) -> Any:
    try:
        r = MD.extract_metadata(path)
        return obs_dist(r) + [type(r).__name__]
    except Exception as e:
        return ["EXC", canon_exc(e)]


class Oracles:
    """parse_version / Requirement.parse as opaque, memoised oracles (canonical string or None)."""

    def __init__(self, U, pkg_resources):
        self.U, self.pr = U, pkg_resources
        self.v: Dict[str, Optional[str]] = {}
        self.r: Dict[str, Optional[str]] = {}

    def ver(self, s: str) -> Optional[str]:
        if s not in self.v:
            try:
                self.v[s] = str(self.U.parse_version(s))
            except Exception:
                self.v[s] = None
        return self.v[s]

    def req(self, s: str) -> Optional[str]:
        if s not in self.r:
            try:
                self.r[s] = str(self.pr.Requirement.parse(s))
            except Exception:
                self.r[s] = None
        return self.r[s]


class Rd:
    def __init__(self, toks: List[str]):
        self.t, self.i = toks, 0

    def next(self) -> str:
        self.i += 1
        return self.t[self.i - 1]

    def s(self) -> str:
        return unhx(self.next())

    def opt(self) -> Optional[str]:
        return self.s() if self.next() == "S" else None

    def strs(self) -> List[str]:
        return [self.s() for _ in range(int(self.next()))]


def read_flat(rd: Rd) -> Dict[str, Any]:
    k = rd.next()
    if k == "OK":
        return {"k": "OK", "name": rd.s(), "ver": rd.opt(), "raw": rd.strs(), "post": rd.strs()}
    if k == "NONAME":
        return {"k": "NONAME", "ver": rd.opt()}
    return {"k": k}


def flat_to_obs(f: Dict[str, Any], orc: Oracles) -> Any:
    """Python mirror of the Coq `outcome` (used for the flat-parser cases only; the wheel cases
    run `outcome` itself inside the extracted model with oracle tables)."""
    if f["k"] == "INDEXERR":
        return ["EXC", "IndexError"]
    v = f.get("ver")
    if v is not None and orc.ver(v) is None:
        return ["EXC", "InvalidVersion"]
    if f["k"] == "NONAME":
        return ["EXC", "MetadataError"]
    rs = [orc.req(s) for s in f["post"]]
    if any(r is None for r in rs):
        return ["EXC", "InvalidRequirement"]
    return ["OK", f["name"], None if v is None else orc.ver(v), rs]


def tables(f: Optional[Dict[str, Any]], orc: Oracles) -> str:
    vs = [] if not f or f.get("ver") is None else [f["ver"]]
    rs = [] if not f or f["k"] != "OK" else sorted(set(f["post"]))
    return ("%d" % len(vs) + "".join(" %s %d" % (hx(s), orc.ver(s) is not None) for s in vs) +
            " %d" % len(rs) + "".join(" %s %d" % (hx(s), orc.req(s) is not None) for s in rs))


def email_fields(text: str) -> Optional[List[Tuple[str, str]]]:
    """stdlib oracle for rfc822_fields; None where the two readings are known to differ by design."""
    if re.search(r"\r(?!\n)", text):
        return None
    for ln in text.split("\n"):
        if ln.startswith(":") or ln.startswith("From "):
            return None
    import email
    msg = email.message_from_string(text)
    out = []
    for k, v in msg.items():
        out.append((k.lower(), str(v).replace("\r\n", "").replace("\n", "").strip()))
    return out


def lower_ascii(s: str) -> str:
    return "".join(chr(ord(c) + 32) if "A" <= c <= "Z" else c for c in s)


# ------------------------------------------------------------------------------------------
# correspondence

def correspondence(ctx: Ctx) -> None:
    DI, MD, U, pkg_resources = _imports()
    orc = Oracles(U, pkg_resources)
    rng = ctx.rng
    corpus_cases(ctx, DI, MD, orc)

    # (d) str.strip
    lines, exp = [], []
    for _ in range(ctx.n(400, 6000)):
        s = "".join(rng.choice(WS_EXOTIC + ["a", "b", ":", "\u00e9", "\u3042", "\r", "\n", "\x1c", "\x00", " ", "\u2009", "\u200a", "\u180e", "\u2029", "\u2000", "\x1d", "\x1e", "\u0085", "\U0001f600"])
                    for _ in range(rng.randint(0, 7)))
        lines.append("S " + hx(s))
        exp.append((s, hx(s.strip())))
    for (s, e), a in zip(exp, run_model("C11", lines)):
        ctx.count("kind:strip")
        ctx.case(key=("S", s), nontrivial=False)
        if a != e:
            ctx.mismatch("str.strip", s, e, a)

    # (a) flat parser + (e) specification vs email
    texts: List[Tuple[str, Dict[str, Any]]] = []
    for _ in range(ctx.n(1500, 40000)):
        t, tags = gen_metadata(rng, rng.random() < 0.15)
        if rng.random() < 0.1:
            t = encode_text(rng, t).decode("utf-8", "ignore")
        texts.append((t, tags))
    ans_p = run_model("C11", ["P " + hx(t) for t, _ in texts])
    ans_h = run_model("C11", ["H " + hx(t) for t, _ in texts])
    recheck: List[Tuple[str, Dict[str, Any]]] = []
    for (t, tags), ap, ah in zip(texts, ans_p, ans_h):
        ctx.count("kind:flat")
        ctx.count("eol:" + tags["eol"])
        if "malformed" in tags:
            ctx.count("malformed:" + tags["malformed"])
        if tags.get("folded"):
            ctx.count("folded-requires-dist:" + ("tab" if re.search(r"\n\t", t) else "space"))
        impl = impl_flat(DI, t)
        try:
            f = read_flat(Rd(ap.split()))
            got = flat_to_obs(f, orc)
        except Exception:
            f, got = {"k": "?"}, ["?", ap]
        ctx.count("flat-result:" + (impl[0] if impl[0] == "OK" else impl[1]))
        nontriv = impl[0] == "OK" and len(impl[3]) > 0
        ctx.case(key=("P", t), nontrivial=nontriv,
                 sample={"kind": "flat", "text": t[:300], "impl": impl, "model": got} if ctx.evaluations % 401 == 0 else None)
        if got != impl:
            ctx.mismatch("parse_flat", {"text": t}, impl, got)
        elif len(recheck) < ctx.n(60, 200) and len(t) < 700:
            recheck.append((t, f))
        # specification side
        try:
            hd, sel = ah.split(" | ")
            rd = Rd(hd.split())
            g_sharp = rd.next() == "1"
            nf = int(rd.next())
            fields = [(rd.s(), rd.s()) for _ in range(nf)]
            self_f = read_flat(Rd(sel.split()))
        except Exception:
            ctx.mismatch("spec-protocol", {"text": t}, "parsable answer", ah)
            continue
        guards = g_sharp
        ctx.count("guards:" + ("body-harmless" if guards else "body-headerlike"))
        if guards and {k: v for k, v in self_f.items()} != {k: v for k, v in f.items()}:
            ctx.mismatch("theorem-instance(C11_headers_partial)", {"text": t}, f, self_f)
        ef = email_fields(t)
        if ef is not None:
            ctx.count("email-oracle:compared")
            if ef != fields:
                ctx.mismatch("rfc822_fields-vs-email", {"text": t}, ef, fields)
        else:
            ctx.count("email-oracle:skipped")
    coq_recheck(ctx, recheck)

    # (c) dist-info selection on name lists
    lines, exp = [], []
    for _ in range(ctx.n(1500, 30000)):
        proj = rng.choice(NAME_POOL + ["f", "foo-x", "naïve", "p.q"]) if rng.random() < 0.95 else rng.choice(["c++", "a(b", "x[1]", "a|b", "w\\d", "a$", "^a", "a{2}", "a?b*"])
        pieces = [proj, proj + "x", "x" + proj, proj.lower(), proj.replace(".", "_"), proj.replace(".", "é"), "other", "bar-2.0", "é"]
        names = []
        for _ in range(rng.randint(0, 6)):
            k = rng.random()
            d = rng.choice(pieces) + rng.choice(["-1.0", "-", "", "-1.0-2", "-\n1"]) + rng.choice([".dist-info", ".dist-info", ".dist-info", ".dist_info", ".egg-info", "xdist-info", ""])
            pre = rng.choice(["", "", "a/", "a/b/", "/", proj + "-1.0.data/purelib/", "a\nb/", "é/", proj + "-"])
            suf = rng.choice(["/METADATA", "/METADATA", "/METADATA", "/METADATA\n", "/METADATA.bak", "/metadata", "/RECORD", "/METADATA\n\n", "METADATA"])
            names.append(pre + d + suf)
        lines.append("F %s %d%s" % (hx(proj), len(names), "".join(" " + hx(n) for n in names)))
        try:
            r = DI._find_dist_info_metadata(proj, names)
            e = "NOTFOUND" if r is None else "FOUND " + hx(r)
        except re.error:
            e = "EXC re.error"
        exp.append(((proj, names), e))
    for ((proj, names), e), a in zip(exp, run_model("C11", lines)):
        ctx.count("kind:find")
        if a == "UNMODELLED":
            ctx.count("find:unmodelled-project")
            ctx.case(key=("F", proj, tuple(names)), nontrivial=False)
            continue
        ctx.count("find:" + e.split()[0])
        ctx.case(key=("F", proj, tuple(names)), nontrivial=e.startswith("FOUND") and len(names) > 1)
        if a != e:
            ctx.mismatch("find_dist_info", {"project": proj, "names": names}, e, a)

    # (b) whole wheels
    tmp = ctx.tmpdir()
    wheels = []
    for i in range(ctx.n(700, 12000)):
        w = gen_wheel(rng, rng.random() < 0.15)
        d = tmp / ("w%d" % i)
        d.mkdir()
        path = str(d / w["basename"])
        write_wheel(path, w)
        wheels.append((w, path))
    run_wheels(ctx, MD, orc, wheels)

    # (f) one process, the same path read several times with the file replaced in between
    seqs = [gen_sequence(rng) for _ in range(ctx.n(150, 2500))]
    run_sequences(ctx, MD, orc, seqs)


UNREADABLE_LAYOUTS = ["truncated", "not-zip", "empty-file", "none", "no-metadata-file", "bad-crc", "zero-members"]


def gen_sequence(rng) -> Dict[str, Any]:
    """[first wheel, replacement, ...] at ONE path; each step = (re)write the file, then read it
    `reads` times.  Kinds: valid -> other valid (rebuilt), unreadable -> valid (re-download after a
    truncated one), valid -> unreadable, unchanged."""
    kind = rng.choice(["valid-valid", "valid-valid", "unreadable-valid", "unreadable-valid", "valid-unreadable", "any", "missing-first"])
    first = gen_wheel(rng, False, layouts=UNREADABLE_LAYOUTS if kind == "unreadable-valid" else (["own-last", "own-first", "vendored-other"] if kind != "any" else None))
    first["proj"] = first["proj"] if "+" not in first["proj"] and "(" not in first["proj"] else "foo"
    steps = [first]
    for _ in range(rng.choice([1, 1, 2])):
        if kind == "valid-unreadable":
            nxt = gen_wheel(rng, False, same_as=first, layouts=UNREADABLE_LAYOUTS)
        elif kind == "any":
            nxt = gen_wheel(rng, rng.random() < 0.3, same_as=first)
        else:
            nxt = gen_wheel(rng, False, same_as=first, layouts=["own-last", "own-last", "own-first", "vendored-other", "many-vendored"])
        steps.append(nxt)
    return {"kind": kind, "basename": first["basename"], "steps": steps, "reads": [rng.choice([1, 1, 2]) for _ in steps],
            "missing_first": kind == "missing-first"}


def run_sequences(ctx: Ctx, MD, orc: Oracles, seqs: List[Dict[str, Any]], where: str = "read-sequence") -> None:
    """Implementation: all reads of one sequence happen in THIS process at one path.  Model: run_ops."""
    tmp = ctx.tmpdir()
    items = []
    for k, sq in enumerate(seqs):
        d = tmp / ("q%d-%d" % (ctx.evaluations, k))
        d.mkdir(exist_ok=True)
        path = str(d / sq["basename"])
        base_tok = hx(sq["basename"])
        ops: List[str] = []
        impl: List[Any] = []
        archives = []
        ok = True
        if sq.get("missing_first"):
            ops.append("R " + base_tok)
            impl.append(impl_wheel(MD, path))
        for w, nreads in zip(sq["steps"], sq["reads"]):
            if os.path.exists(path):
                os.remove(path)
            write_wheel(path, w)
            a = abstract_archive(path)
            if a is None:
                ok = False
                break
            archives.append(a)
            ops.append("W %s %s" % (base_tok, archive_tokens(a)))
            for _ in range(nreads):
                ops.append("R " + base_tok)
                impl.append(impl_wheel(MD, path))
        if not ok:
            ctx.count("sequence:unmodelled-zip-error")
            continue
        items.append((sq, ops, impl, archives))
    # oracle tables: union over the archives of the sequence (pass 1 = what each archive yields now)
    r_lines, owner = [], []
    for i, (sq, ops, impl, archives) in enumerate(items):
        for a in archives:
            r_lines.append("R %s %s" % (hx(sq["basename"]), archive_tokens(a)))
            owner.append(i)
    vs: List[set] = [set() for _ in items]
    rs: List[set] = [set() for _ in items]
    for i, ans in zip(owner, run_model("C11", r_lines)):
        toks = ans.split()
        if toks and toks[0] == "FLAT":
            f = read_flat(Rd(toks[1:]))
            if f.get("ver") is not None:
                vs[i].add(f["ver"])
            if f["k"] == "OK":
                rs[i].update(f["post"])
    q_lines = []
    for i, (sq, ops, impl, archives) in enumerate(items):
        v, r = sorted(vs[i]), sorted(rs[i])
        tab = ("%d" % len(v) + "".join(" %s %d" % (hx(x), orc.ver(x) is not None) for x in v) +
               " %d" % len(r) + "".join(" %s %d" % (hx(x), orc.req(x) is not None) for x in r))
        q_lines.append("Q %d %s %s" % (len(ops), " ".join(ops), tab))
    for (sq, ops, impl, archives), ans in zip(items, run_model("C11", q_lines)):
        ctx.count("kind:sequence")
        ctx.count("sequence:" + sq["kind"])
        got: List[Any] = []
        unmodelled = False
        for part in (ans.split(" ; ") if ans else []):
            toks = part.split()
            if toks[0] == "NOFILE":
                got.append(["EXC", "FileNotFoundError"])
            elif toks[:2] == ["ERR", "Unmodelled"]:
                unmodelled = True
            elif toks[0] == "ERR":
                got.append(["EXC", toks[1]])
            elif toks[0] == "OK":
                rd = Rd(toks[1:])
                n, v, rr = rd.s(), rd.opt(), rd.strs()
                got.append(["OK", n, None if v is None else orc.ver(v), [orc.req(x) for x in rr], "DistInfo"])
            else:
                got.append(["?", part])
        case = {"basename": sq["basename"], "missing_first": bool(sq.get("missing_first")), "reads": sq["reads"],
                "steps": [archive_json(a) for a in archives]}
        changed = len({json.dumps(archive_json(a), sort_keys=True) for a in archives}) > 1
        ctx.case(key=("Q", json.dumps(case, sort_keys=True)), nontrivial=changed and any(o[0] == "OK" for o in impl),
                 sample={"kind": "sequence", "case_kind": sq["kind"], "basename": sq["basename"], "impl": impl, "model": got} if ctx.evaluations % 61 == 0 else None)
        if unmodelled:
            ctx.count("sequence:unmodelled-project")
            continue
        if got != impl:
            ctx.mismatch(where, {"sequence": case}, impl, got)


def archive_json(a: Tuple[str, List[Tuple[str, Optional[str]]]]) -> Any:
    return [a[0], [[n, t] for n, t in a[1]]]


def run_wheels(ctx: Ctx, MD, orc: Oracles, wheels: List[Tuple[Dict[str, Any], str]], where: str = "extract_metadata") -> None:
    items = []
    for w, path in wheels:
        a = abstract_archive(path)
        if a is None:
            ctx.count("wheel:unmodelled-zip-error")
            continue
        items.append((w, path, a, "%s %s" % (hx(os.path.basename(path)), archive_tokens(a))))
    ans_r = run_model("C11", ["R " + it[3] for it in items])
    flats: List[Optional[Dict[str, Any]]] = []
    for a in ans_r:
        toks = a.split()
        flats.append(read_flat(Rd(toks[1:])) if toks and toks[0] == "FLAT" else None)
    ans_w = run_model("C11", ["W %s %s" % (it[3], tables(f, orc)) for it, f in zip(items, flats)])
    for (w, path, a, _), ar, f, aw in zip(items, ans_r, flats, ans_w):
        ctx.count("kind:wheel")
        ctx.count("layout:" + w["layout"])
        impl = impl_wheel(MD, path)
        toks = aw.split()
        if toks[:2] == ["ERR", "Unmodelled"]:
            ctx.count("wheel:unmodelled-project")
            ctx.case(key=("W", w["basename"], w["layout"]), nontrivial=False)
            continue
        if toks[0] == "OK":
            rd = Rd(toks[1:])
            n, v, rs = rd.s(), rd.opt(), rd.strs()
            got = ["OK", n, None if v is None else orc.ver(v), [orc.req(s) for s in rs], "DistInfo"]
        elif toks[0] == "ERR":
            got = ["EXC", toks[1]]
        else:
            got = ["?", aw]
        ctx.count("wheel-result:" + (impl[0] if impl[0] == "OK" else impl[1]))
        ndist = 0 if a[0] == "B" else sum(1 for n, _ in a[1] if ".dist-info/METADATA" in n)
        nontriv = (impl[0] == "OK" and len(impl[3]) > 0) or ndist > 1
        key = ("W", w["basename"], a[0], tuple(a[1]))
        ctx.case(key=key, nontrivial=nontriv,
                 sample={"kind": "wheel", "basename": w["basename"], "layout": w["layout"], "members": [n for n, _ in (a[1] or [])][:8],
                         "impl": impl, "model": got} if ctx.evaluations % 173 == 0 else None)
        if got != impl:
            ctx.mismatch(where, {"basename": w["basename"], "layout": w["layout"], "archive": [a[0], [[n, t] for n, t in a[1]]]}, impl, got)


def corpus_cases(ctx: Ctx, DI, MD, orc: Oracles) -> None:
    """corpus/C11/*.json: the witnesses of the _refuted theorems (and any minimised failure) run first."""
    d = common.CORPUS / "C11"
    if not d.exists():
        return
    wheels = []
    tmp = ctx.tmpdir()
    for i, p in enumerate(sorted(d.glob("*.json"))):
        c = json.loads(p.read_text())
        ctx.count("kind:corpus")
        w = {"basename": c["basename"], "members": [(n, t.encode("utf-8")) for n, t in c["members"]], "layout": "corpus:" + p.stem,
             "own": "", "compress": False, "tags": {}}
        dd = tmp / ("c%d" % i)
        dd.mkdir()
        path = str(dd / c["basename"])
        write_wheel(path, w)
        wheels.append((w, path))
    run_wheels(ctx, MD, orc, wheels, where="corpus")


def coq_term_flat(f: Dict[str, Any]) -> str:
    cs = common.coq_string
    o = lambda v: "None" if v is None else "(Some %s)" % cs(v)
    if f["k"] == "OK":
        return "(FlatOk %s %s [%s])" % (cs(f["name"]), o(f["ver"]), "; ".join(cs(r) for r in f["raw"]))
    if f["k"] == "NONAME":
        return "(FlatErr (MissingName %s))" % o(f["ver"])
    return "(FlatErr FlatIndexError)"


def coq_recheck(ctx: Ctx, cases: List[Tuple[str, Dict[str, Any]]]) -> None:
    """Re-evaluate a sample inside Coq (vm_compute): parse_flat text = what the extracted binary said
    (which the harness found equal to the implementation)."""
    if not cases:
        return
    header = ("From Coq Require Import List String Ascii Bool.\nFrom RC Require Import lib.PyStr model.WheelMetaC11.\n"
              "Import ListNotations.\nOpen Scope string_scope.\n")
    items = ["(%s, %s)" % (common.coq_string(t), coq_term_flat(f)) for t, f in cases]
    body = ["Definition cases : list (string * flat_res) := [" + ";\n ".join(items) + "].",
            "Definition bad := filter (fun c => negb (flat_res_eqb (parse_flat (fst c)) (snd c))) cases.",
            "Eval vm_compute in (List.length bad)."]
    ok, out = common.coq_eval("c11_cases", header, body)
    ctx.extra["coq_recheck"] = {"cases": len(items), "ok": ok}
    if not ok or "= 0" not in out:
        ctx.mismatch("coq-vm_compute-recheck", {"n": len(items)}, "0 mismatches", out[-600:])


# ------------------------------------------------------------------------------------------
# independent oracle: the property statement on the implementation only (never calls the model)

SEL = ("name", "version", "requires-dist")


def py_guards(text: str) -> bool:
    """Independent re-statement of the guards of C11_headers_partial / C11_reqs_intact_partial:
    the body has no Requires-Dist:-looking line (nor a Name:/Version:-looking one unless the header
    block declares that field), and every declared Requires-Dist value is plain."""
    if re.search(r"\r(?!\n)", text):
        return False
    lines = [ln[:-1] if ln.endswith("\r") else ln for ln in text.split("\n")]
    i = 0
    fields: List[List[str]] = []
    hdr_re = re.compile(r"^([\x21-\x39\x3b-\x7e]+):(.*)$", re.S)
    while i < len(lines):
        ln = lines[i]
        if ln == "":
            break
        if ln[0] in " \t":
            if fields:
                fields[-1][1] += ln
        else:
            m = hdr_re.match(ln)
            if not m:
                break
            fields.append([lower_ascii(m.group(1)), m.group(2)])
        i += 1
    seen = {k for k, _ in fields}
    for k, v in fields:
        if k == "requires-dist":
            v = v.strip()
            if v == "" or v.startswith("#") or v.startswith("--") or v.endswith("\\"):
                return False
    for ln in lines[i:]:
        m = re.match(r"(name|version|requires-dist):", lower_ascii(ln))
        if m and (m.group(1) == "requires-dist" or m.group(1) not in seen):
            return False
    return True


def oracle_text(DI, orc: Oracles, text: str) -> Optional[str]:
    """Inside the guards: what the code returns must be the Name/Version/Requires-Dist fields of the
    RFC 822 message as the stdlib email parser reads them."""
    if not py_guards(text) or any(ln.startswith(":") or ln.startswith("From ") for ln in text.split("\n")):
        return None
    import email
    msg = email.message_from_string(text)
    cv = lambda v: None if v is None else str(v).replace("\r\n", "").replace("\n", "").strip()
    name, ver = cv(msg.get("Name")), cv(msg.get("Version"))
    reqs = [cv(v) for v in (msg.get_all("Requires-Dist") or [])]
    if ver is not None and orc.ver(ver) is None:
        want: Any = ["EXC", "InvalidVersion"]
    elif name is None:
        want = ["EXC", "MetadataError"]
    elif any(orc.req(r) is None for r in reqs):
        want = ["EXC", "InvalidRequirement"]
    else:
        want = ["OK", name, None if ver is None else orc.ver(ver), [orc.req(r) for r in reqs]]
    got = impl_flat(DI, text)
    if got != want:
        return "declared fields %r but the code returned %r" % (want, got)
    return None


def oracle_wheel(MD, DI, orc: Oracles, w: Dict[str, Any], path: str) -> Optional[str]:
    a = abstract_archive(path)
    if a is None:
        return None
    got = impl_wheel(MD, path)
    metas = [] if a[0] == "B" else [(n, t) for n, t in a[1] if ".dist-info/METADATA" in n]
    if a[0] == "B" or not metas:
        return None if got[0] == "EXC" else "wheel without readable metadata was reported as the distribution %r" % (got,)
    base = os.path.basename(path)
    parts = base[:-4].split("-")
    if len(parts) < 5 or not re.fullmatch(r"[A-Za-z0-9_.]+", parts[0]):
        return None
    own = "%s-%s.dist-info/METADATA" % (parts[0], parts[1])
    names = [n for n, _ in a[1]]
    if own not in names or names.count(own) != 1:
        return None
    # guard of C11_dist_info_own: no OTHER root-level <project>-*.dist-info/METADATA member
    for n in names:
        if n != own and re.match(r"^%s-[^/]+\.dist-info/METADATA$" % re.escape(parts[0]), n):
            return None
    text = dict(a[1])[own]
    if text is None:
        return None if got[0] == "EXC" else "own METADATA unreadable but a distribution was returned"
    if not py_guards(text) or any(ln.startswith(":") or ln.startswith("From ") for ln in text.split("\n")):
        return None
    want = impl_flat(DI, text)   # the text-level statement is checked by oracle_text; here: the RIGHT file was read
    why = oracle_text(DI, orc, text)
    if why:
        return why
    if got[:4] != want[:4] and not (got[0] == "EXC" and want[0] == "EXC" and got[1] == want[1]):
        return "own dist-info %s declares %r but extract_metadata returned %r" % (own, want, got)
    return None


def wheel_for_text(MD, DI, orc: Oracles, tmp, text: str, why: str, tag: str) -> Dict[str, Any]:
    """A failing METADATA text, packed into a spec-conformant wheel and re-judged through extract_metadata:
    the replay is then the concrete wheel (falls back to the text when the wheel-level oracle is silent)."""
    base = "demo_pkg-1.0-py3-none-any.whl"
    members = [("demo_pkg/__init__.py", b""), ("demo_pkg-1.0.dist-info/METADATA", text.encode("utf-8")),
               ("demo_pkg-1.0.dist-info/WHEEL", b"Wheel-Version: 1.0\n"), ("demo_pkg-1.0.dist-info/RECORD", b"")]
    try:
        d = tmp / ("tw-" + tag)
        d.mkdir(exist_ok=True)
        path = str(d / base)
        w = {"basename": base, "layout": "replay", "compress": False, "own": "", "members": members}
        write_wheel(path, w)
        wwhy = oracle_wheel(MD, DI, orc, w, path)
        if wwhy and text.encode("utf-8").decode("utf-8", "ignore") == text:
            return {"kind": "wheel", "input": {"basename": base, "members": [[n, c.decode("utf-8")] for n, c in members]},
                    "why": "extract_metadata(%s): %s" % (base, wwhy)}
    except Exception:
        pass
    return {"kind": "text", "input": text, "why": why}


def search(ctx: Ctx) -> Optional[Dict[str, Any]]:
    DI, MD, U, pkg_resources = _imports()
    orc = Oracles(U, pkg_resources)
    rng = ctx.rng
    tmp = ctx.tmpdir()
    # 1. the disagreeing cases first
    for k, mm in enumerate(ctx.mismatches):
        c = mm["case"]
        try:
            if isinstance(c, dict) and "text" in c:
                why = oracle_text(DI, orc, c["text"])
                if why:
                    return wheel_for_text(MD, DI, orc, tmp, c["text"], why, "m%d" % k)
            elif isinstance(c, dict) and "archive" in c and c["archive"][0] == "Z":
                d = tmp / ("s%d" % k)
                d.mkdir(exist_ok=True)
                path = str(d / c["basename"])
                w = {"basename": c["basename"], "layout": "replay", "compress": False, "own": "",
                     "members": [(n, (t or "").encode("utf-8")) for n, t in c["archive"][1]]}
                write_wheel(path, w)
                why = oracle_wheel(MD, DI, orc, w, path)
                if why:
                    return {"kind": "wheel", "input": {"basename": c["basename"], "members": [[n, t or ""] for n, t in c["archive"][1]]}, "why": why}
            elif isinstance(c, dict) and "names" in c:
                why = oracle_names(DI, c["project"], c["names"])
                if why:
                    return {"kind": "names", "input": {"project": c["project"], "names": c["names"]}, "why": why}
            elif isinstance(c, dict) and "sequence" in c:
                q = c["sequence"]
                steps = [{"basename": q["basename"], "layout": "not-zip", "members": [], "own": "", "compress": False} if a[0] == "B" else
                         {"basename": q["basename"], "layout": "replay", "own": "", "compress": False,
                          "members": [(n, (t or "").encode("utf-8")) for n, t in a[1]]} for a in q["steps"]]
                found = oracle_sequence(MD, DI, orc, tmp, {"basename": q["basename"], "steps": steps, "reads": q["reads"]}, "m%d" % k)
                if found:
                    return found
        except Exception:
            continue
    # 2. fresh inputs: histories first (cheap), then texts, then single wheels
    for i in range(ctx.n(300, 3000)):
        found = oracle_sequence(MD, DI, orc, tmp, gen_sequence(rng), "f%d" % i)
        if found:
            return found
    for i in range(ctx.n(3000, 30000)):
        t, _ = gen_metadata(rng, rng.random() < 0.15)
        why = oracle_text(DI, orc, t)
        if why:
            return wheel_for_text(MD, DI, orc, tmp, t, why, "t%d" % i)
    for i in range(ctx.n(600, 6000)):
        w = gen_wheel(rng, rng.random() < 0.3)
        d = tmp / ("f%d" % i)
        d.mkdir(exist_ok=True)
        path = str(d / w["basename"])
        write_wheel(path, w)
        why = oracle_wheel(MD, DI, orc, w, path)
        if why:
            a = abstract_archive(path)
            if a and a[0] == "Z" and all(t is not None for _, t in a[1]) and _utf8_faithful(path, a):
                return {"kind": "wheel", "input": {"basename": w["basename"], "members": [[n, t] for n, t in a[1]]}, "why": why}
            return {"kind": "wheel-bytes", "input": {"basename": w["basename"], "hex": open(path, "rb").read().hex()}, "why": why}
    return None


def oracle_sequence(MD, DI, orc: Oracles, tmpdir, sq: Dict[str, Any], tag: str) -> Optional[Dict[str, Any]]:
    """Property statement on a history: after every (re)write of the file at one path, what
    extract_metadata returns equals what the archive at that path declares NOW (oracle_wheel on the
    current file).  Returns a replayable failing input or None."""
    d = tmpdir / ("sq-" + tag)
    d.mkdir(exist_ok=True)
    path = str(d / sq["basename"])
    done = []
    if os.path.exists(path):
        os.remove(path)
    for w, nreads in zip(sq["steps"], sq["reads"]):
        if os.path.exists(path):
            os.remove(path)
        write_wheel(path, w)
        with open(path, "rb") as fh:
            done.append({"hex": fh.read().hex(), "reads": nreads})
        for _ in range(nreads):
            why = oracle_wheel(MD, DI, orc, w, path)
            if why:
                return {"kind": "sequence", "input": {"basename": sq["basename"], "steps": done},
                        "why": "read #%d of the same path after its content was replaced: %s" % (len(done), why) if len(done) > 1 else why}
    return None


def seq_from_payload(inp: Dict[str, Any]) -> Dict[str, Any]:
    return {"basename": inp["basename"], "reads": [st["reads"] for st in inp["steps"]],
            "steps": [{"basename": inp["basename"], "layout": "raw-bytes", "raw": bytes.fromhex(st["hex"])} for st in inp["steps"]]}


def _utf8_faithful(path: str, a: Any) -> bool:
    """the (name, text) view loses nothing: every member's bytes are the utf-8 of its decoded text"""
    try:
        with zipfile.ZipFile(path) as z:
            return all(z.read(i) == t.encode("utf-8") for i, (_, t) in zip(z.infolist(), a[1]))
    except Exception:
        return False


def oracle_names(DI, project: str, names: List[str]) -> Optional[str]:
    """the wheel's own root-level entry must win when nothing else looks like this project's dist-info"""
    if not re.fullmatch(r"[A-Za-z0-9_]+", project):
        return None
    owns = [n for n in names if re.fullmatch(re.escape(project) + r"-[^/\n]+\.dist-info/METADATA", n)]
    if len(owns) != 1:
        return None
    own = owns[0]
    if any(n != own and re.match(r"^%s-[^/]+\.dist-info/METADATA$" % re.escape(project), n) for n in names):
        return None
    got = DI._find_dist_info_metadata(project, list(reversed(names)))
    if got != own:
        return "own entry %r present, no other root-level dist-info of the project, but %r was chosen" % (own, got)
    return None


def replay(ctx: Ctx, payload: Dict[str, Any]) -> bool:
    DI, MD, U, pkg_resources = _imports()
    orc = Oracles(U, pkg_resources)
    fi = payload.get("failing_input")
    if not fi:
        return False
    if fi["kind"] == "text":
        return oracle_text(DI, orc, fi["input"]) is not None
    if fi["kind"] == "names":
        return oracle_names(DI, fi["input"]["project"], fi["input"]["names"]) is not None
    tmp = ctx.tmpdir()
    if fi["kind"] == "sequence":
        return oracle_sequence(MD, DI, orc, tmp, seq_from_payload(fi["input"]), "replay") is not None
    path = str(tmp / fi["input"]["basename"])
    if fi["kind"] == "wheel-bytes":
        with open(path, "wb") as fh:
            fh.write(bytes.fromhex(fi["input"]["hex"]))
        w = {"basename": fi["input"]["basename"]}
    else:
        w = {"basename": fi["input"]["basename"], "layout": "replay", "compress": False, "own": "",
             "members": [(n, t.encode("utf-8")) for n, t in fi["input"]["members"]]}
        write_wheel(path, w)
    return oracle_wheel(MD, DI, orc, w, path) is not None


def replay_known(ctx: Ctx, entry: Dict[str, Any]) -> Optional[bool]:
    """Re-run exactly the stored wheel on the real code: the finding reproduces iff extract_metadata
    still returns the recorded (wrong) observation rather than the declared one."""
    DI, MD, U, pkg_resources = _imports()
    p = common.VERIF / entry["replay"]
    c = json.loads(p.read_text())
    tmp = ctx.tmpdir()
    d = tmp / ("k-" + p.stem)
    d.mkdir(exist_ok=True)
    path = str(d / c["basename"])
    w = {"basename": c["basename"], "layout": "known", "compress": False, "own": "",
         "members": [(n, t.encode("utf-8")) for n, t in c["members"]]}
    write_wheel(path, w)
    got = impl_wheel(MD, path)[:4]
    if got == c["declared"]:
        return False
    return True if got == c["observed"] else None


LEVEL_TEXT = ("Theorems proved in Coq for ALL METADATA texts, ALL archive name lists and ALL read/replace histories over a Gallina "
              "transcription of _parse_flat_metadata (unfolding pre-pass + field loop), _find_dist_info_metadata (three regex passes), "
              "_fetch_from_wheel and the .whl branch of extract_metadata: for every text with a harmless body the parser returns exactly "
              "the Name/Version/Requires-Dist fields of the RFC 822 header block (folded fields, ':' in values, CRLF); a wheel with one "
              "root-level dist-info of its project reads that one whatever is vendored; unreadable wheels are errors; a read depends on "
              "the archive's content now.  Two unguarded statements remain refuted by witnesses that replay on /repo (known findings).  "
              "The model is rebuilt from the source's shapes (T1) and differentially executed against the real code on every run (T2).")
LEVEL_NOTE = ("Trusted: Coq kernel, extraction, OCaml driver, T1 reader and T2 harness; zipfile/decode/re and the third-party "
              "requirement and version parsers are outside the model (oracles); the RFC 822 reading is the model's rfc822_fields, "
              "cross-checked against the stdlib email parser by sampling.")
TECHNIQUE = "Rocq proof over a Gallina model (list/string induction, fold invariants) + T1 shape pinning + extraction-based differential correspondence"

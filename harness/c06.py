"""C06 - Solution files survive a write/load round trip (DESIGN.md section 4)."""
from __future__ import annotations

import io
import json
import logging
import os
import re
import warnings
from typing import Any, Dict, List, Optional, Tuple

import common
from common import Ctx, hx, unhx, run_model

ID = "C06"
PROPS = ["props/C06.v"]
EXTRACTS = ["C06"]
THEOREMS = [
    "C06_roundtrip_multi", "C06_roundtrip_single_partial", "C06_roundtrip_default_format",
    "C06_roundtrip_default_format_plain_partial", "C06_roundtrip_any_options_partial", "C06_roundtrip_multi_any_order",
    "C06_roundtrip_single_any_order_partial", "C06_edges_roundtrip_multi", "C06_wf_satisfiable",
    "C06_second_run_roundtrip", "C06_second_run_satisfiable", "C06_self_edge_satisfiable", "C06_former_findings_roundtrip", "C06_single_requirer_named_via_refuted",
    "C06_gen_constants_ok",
]
RULE = ("random dependency graphs (1-7 projects; names with dots/dashes/case, epochs, pre/post/dev/local versions, "
        "sha256/sha512/md5 hashes, index/relative/file URLs with fragments, extras on edges, marker extras on requirers, "
        "file-path / '-' / project roots) are built as real DistributionCollection objects; each is written by the real "
        "write_requirements_file in all 24 option sets (format multi / one-line / left to the tool (multiline=None) x hashes x "
        "urls x annotate, with index/find-links directives) and by the extracted Coq `write`; texts must be equal.  Every text (plus ~15% mutated / malformed "
        "texts) is loaded by the real SolutionRepository and by the Coq `load`: the _add_sources call trace, the "
        "exception class, the pins (name, version, hash, URL), reverse-dependency sets and the reconstructed "
        "requirer->project requirements (specifier, extras, marker extra) must agree.  Second run: every written text is fed back (loaded, the same "
        "inputs compiled against that solution alone) and written again under another option set, all 24 x 24 pairs cycled "
        "through; the second text must be the model's text for the second graph's view, must load like the model says, and the "
        "pins must be those the model reads from the first text.  pip's parse_requirements reads "
        "the unmutated texts as a second oracle.  Non-trivial = a case whose text has >= 2 pins and at least one "
        "specifier or extra on an edge; distinct = distinct (text) / (view, options).")
TRUSTED_BASE = [
    "T1 harness/tr_c06.py: literal fragments of write_requirements_file / ExplanationRender / _process_constraint_req and the "
    "tests of _parse_single_line / _parse_multi_line / _add_sources / _remove_nodes -> gen/SolConstsC06.v; translate.py replace chain -> gen/NameConsts.v",
    "T2 harness/c06.py: graph generator, the observation of the view from the real graph (hook on dists._process_constraint_req), "
    "token encoders, canonicalisation (specifier text through packaging.SpecifierSet, sorted edge multisets)",
    "pkg_resources/packaging parsing of requirement, version and specifier strings; urllib.parse.urljoin; pip's requirements parser "
    "(compared, not proved); CPython str methods (lib/PyStr.v is a specification validated by T2)",
    "modelled, not verified: req_compile/cmdline.py writer, req_compile/dists.py explanation text, req_compile/repos/solution.py loader",
]
ASSUMPTIONS = [
    "requirement / version / specifier parsing stays outside the model: `name==version`, requirer tokens `name[extra]`, specifier "
    "texts and extras are opaque tokens; the model recognises only their canonical lexical forms (req_lex, ver_ok, spec_ok, extra_ok) "
    "and answers EUnmodelled otherwise (counted, never compared as a normal result); wf asks that the recognisers map each token back "
    "to the fields of the view (requirer_of, pin_version) - satisfiable by the rich example view of C06_wf_satisfiable",
    "ASCII texts without carriage returns (str.strip()/readlines() on other white space is not modelled)",
    "the graph walk that selects the pins and the requirements named in an explanation (visit_nodes, build_explanation's traversal, "
    "filters) is outside the model (C02/C08); the view handed to the model is observed from the real graph by the harness "
    "(hook on dists._process_constraint_req), extras lower-cased and stripped there",
    "file-path requirers (inputs) are parsed and kept in the loaded view but the loader creates no graph node/edge for them; "
    "`edges` (C06_edges_roundtrip_multi) speaks about project requirers only",
    "the loaded graph is compared with the model on calm texts (distinct pins, consistent spelling, no separator runs in names, "
    "every specifier admits the pinned version); on other texts only the _add_sources trace and the exception class are compared "
    "(graph surgery - discard, metadata replacement - is C10's model)",
    "the annotation index [n], the header and the directives are written but not read back: the theorems compare views, which do not carry them",
    "a requirer with two or more marker extras is outside wf: the loader picks next(iter(set)), which is not a function of the text",
    "pip's parser is compared on generated texts (pins and --hash values), not proved",
]
LEVEL_TEXT = ("Round-trip theorems load (write o v) = Ok (erase o v) proved in Coq for all well-formed views (wf = decidable lexical "
              "conditions, boolean functions evaluated by the harness on every generated view): every option set of the multi-line format "
              "(C06_roundtrip_multi); the one-line two-pass format with hashes/urls/annotate (C06_roundtrip_single_partial; the guard left is "
              "a comment starting with the word 'via'); the format left to the tool, multiline=None (C06_roundtrip_default_format: no layout "
              "guard as soon as hashes or URLs are written - the rule `hashes or urls` is read from /repo and pinned); all of them also for "
              "views given in any order; one refuted statement (requirer literally named `via` in one-line mode) replayed on /repo as a "
              "known finding; the Gallina writer/loader is tied to /repo by generated constants (pinned by C06_gen_constants_ok) and by "
              "differential execution of the real writer and loader on generated graphs and mutated texts.")
LEVEL_NOTE = ("Trusted: Coq kernel, extraction, OCaml driver, T1 translator and T2 harness; requirement/version/specifier parsing and "
              "the graph traversal are outside the model (opaque canonical tokens); pip is compared, not proved.")
TECHNIQUE = "Rocq proof over a string-level Gallina model (token-wise codec lemmas over lib/PyStr) + extraction-based differential correspondence"


def translate(ctx: Ctx) -> Dict[str, str]:
    import tr_c06
    import translate as _tr
    return {"gen/SolConstsC06.v": tr_c06.gen_sol_consts(), "gen/NameConsts.v": _tr.gen_name_consts()}


# ------------------------------------------------------------------------------------------
# real-code access

class _Real:
    pass


def _imports() -> _Real:
    warnings.simplefilter("ignore")
    logging.disable(logging.CRITICAL)
    import pkg_resources
    import urllib.parse
    import req_compile.cmdline as cmdline
    import req_compile.dists as dists
    import req_compile.utils as utils
    import req_compile.repos.solution as solution
    from req_compile.containers import DistInfo
    from req_compile.repos.repository import Candidate, DistributionType, Repository
    from req_compile.repos.multi import MultiRepository
    from req_compile.repos.pypi import PyPIRepository, IndexType
    from req_compile.repos.findlinks import FindLinksRepository
    from req_compile.repos import RepositoryInitializationError
    from packaging.specifiers import SpecifierSet
    from packaging.version import Version, InvalidVersion
    R = _Real()
    R.pkg_resources, R.urljoin, R.urlsplit = pkg_resources, urllib.parse.urljoin, urllib.parse.urlsplit
    R.cmdline, R.dists, R.utils, R.solution = cmdline, dists, utils, solution
    R.DistInfo, R.Candidate, R.DistributionType, R.Repository = DistInfo, Candidate, DistributionType, Repository
    R.MultiRepository, R.PyPIRepository, R.IndexType, R.FindLinksRepository = MultiRepository, PyPIRepository, IndexType, FindLinksRepository
    R.RIE = RepositoryInitializationError
    R.SpecifierSet, R.Version, R.InvalidVersion = SpecifierSet, Version, InvalidVersion

    class FakeRepo(Repository):
        def __init__(self, name: str) -> None:
            super().__init__("fake-" + name)
            self.nm = name

        def get_candidates(self, req=None, *args, **kwargs):
            return []

        def resolve_candidate(self, candidate=None, *args, **kwargs):
            raise NotImplementedError

        def close(self, *args, **kwargs):
            pass

        def __repr__(self):
            return "<fake " + self.nm + ">"

        def __hash__(self):
            return hash(self.nm)

        def __eq__(self, other):
            return isinstance(other, FakeRepo) and other.nm == self.nm

    R.FakeRepo = FakeRepo
    return R


FIXED_TIME = "2026-01-02 03:04:05.678901"


class _FakeDatetimeModule:
    import datetime as _real
    # everything of the real module but the clock (timezone, timedelta, UTC ...: a harmless change may mention them)
    timezone, timedelta, date, time, tzinfo, MINYEAR, MAXYEAR = (_real.timezone, _real.timedelta, _real.date, _real.time,
                                                                 _real.tzinfo, _real.MINYEAR, _real.MAXYEAR)
    UTC = _real.timezone.utc

    class datetime:  # noqa: N801
        @staticmethod
        def utcnow(*args, **kwargs):
            return FIXED_TIME

        @staticmethod
        def now(*args, **kwargs):     # (another spelling of "the current time" the code may switch to)
            return FIXED_TIME


# ------------------------------------------------------------------------------------------
# generators

ALNUM = "abcdefghijklmnopqrstuvwxyzABCDEFGHIJKLMNOPQRSTUVWXYZ0123456789"
NAME_POOL = ["A.b", "foo-bar", "Foo_Bar2", "zope.interface", "viaduct", "via", "a", "B2", "c_d.e-f", "x--hash", "py", "six",
             "Django", "ruamel.yaml.clib", "typing-extensions", "httpx", "whl", "t.gz", "Via-Lib", "a1-b2_c3.d4", "x.txt"]
ROOT_POOL = ["requirements.txt", "reqs/dev.in", "-", "C:\\proj\\requirements.txt", "./setup.py", "myproject", "my-proj.out",
             "dev.in", "../up/req.txt", "constraints.txt", "via-root", "tools/pkg", "x.zip"]
EXTRA_POOL = ["x", "y", "test", "docs", "security", "a-b", "v1.2", "e_f", "z9"]


def gen_name(rng) -> str:
    if rng.random() < 0.6:
        return rng.choice(NAME_POOL)
    n = rng.choice([1, 2, 3, 5, 8, 12])
    s = rng.choice(ALNUM)
    for _ in range(n - 1):
        s += rng.choice(ALNUM + "._-" * 3) if (s[-1] not in "._-" or rng.random() < 0.05) else rng.choice(ALNUM)
    if s[-1] in "._-":
        s += rng.choice(ALNUM)
    return s


def gen_version(rng, Version) -> str:
    rel = ".".join(str(rng.choice([0, 1, 2, 3, 10, 2024, 7])) for _ in range(rng.choice([1, 2, 2, 3, 3, 4])))
    s = rel
    if rng.random() < 0.15:
        s = str(rng.choice([1, 2, 10])) + "!" + s
    r = rng.random()
    if r < 0.12:
        s += rng.choice(["a", "b", "rc"]) + str(rng.choice([0, 1, 12]))
    if rng.random() < 0.1:
        s += ".post" + str(rng.choice([0, 1, 3]))
    if rng.random() < 0.08:
        s += ".dev" + str(rng.choice([0, 2]))
    if rng.random() < 0.15:
        s += "+" + rng.choice(["loc", "cpu", "1", "abc.5", "ubuntu1.2", "missing", "g1a2b3c"])
    if rng.random() < 0.015:
        s = rng.choice(["0+missing", "0.0+missing", "0.0.0+missing", "0+missing.1", "1+missing"])
    return str(Version(s))


def gen_hash(rng) -> Optional[str]:
    r = rng.random()
    if r < 0.2:
        return None
    if r < 0.23:
        return ""
    algo, n = rng.choice([("sha256", 64), ("sha256", 64), ("sha256", 64), ("sha512", 128), ("sha384", 96)])
    return algo + ":" + "".join(rng.choice("0123456789abcdef") for _ in range(n))


def gen_link(rng, name: str, ver: str) -> Optional[Tuple[Optional[str], str]]:
    r = rng.random()
    if r < 0.2:
        return None
    ext = rng.choice([".tar.gz", "-py3-none-any.whl", ".zip", ".tgz", ".tar.bz2", "-cp312-cp312-manylinux_2_17_x86_64.whl", ".tar"])
    fn = name.replace("-", "_") + "-" + ver + ext
    frag = rng.choice(["", "", "#sha256=" + "".join(rng.choice("0123456789abcdef") for _ in range(64)), "#md5=0123", "#egg=" + name])
    k = rng.random()
    if k < 0.35:
        return ("https://files.example.org/simple/" + name.lower() + "/", "../../packages/ab/cd/" + fn + frag)
    if k < 0.5:
        return (None, "https://host.example/" + fn + frag)
    if k < 0.65:
        return ("../wheels/", fn + frag)                      # relative find-links path
    if k < 0.75:
        return ("wheel dir/sub/", fn + frag)                  # blank inside a relative path
    if k < 0.85:
        return ("file:///srv/pkgs/", fn + frag)
    if k < 0.9:
        return ("http://idx.local:8080/s/", fn + "?x=1" + frag)  # query string: no archive suffix at the end
    if k < 0.93:
        return ("/abs/links/", name + "-" + ver + ".tar.xz" + frag)  # extension the loader does not know
    if k < 0.97:
        return ("/abs/links/", fn + frag)
    return ("via/links/", fn + frag)


def gen_spec(rng, R, ver: str) -> str:
    V = R.Version(ver)
    pub, base = V.public, V.base_version
    first = V.release[0]
    ep = (str(V.epoch) + "!") if V.epoch else ""
    cands = ["", "", ">=" + pub, "==" + ver, "<=" + pub, "~=" + pub, "!=" + ep + str(first + 7) + ".0", ">" + ep + "0.0.dev0",
             "<" + ep + str(first + 1) + ".999", ">=" + base + ",<" + ep + str(first + 2), "==" + base + ".*", "!=" + ep + "99.*",
             ">=" + ep + "0,!=" + ep + "0.1,<" + ep + str(first + 3)]
    rng.shuffle(cands)
    for c in cands:
        try:
            if R.SpecifierSet(c).contains(V, prereleases=True):
                return c
        except Exception:
            continue
    return ""


def gen_graph(rng, R) -> Dict[str, Any]:
    """A dependency graph as plain data (json-able)."""
    n = rng.choice([1, 1, 2, 2, 3, 3, 4, 5, 7])
    names: List[str] = []
    keys = set()
    while len(names) < n:
        nm = gen_name(rng)
        k = R.utils.normalize_project_name(nm)
        if k in keys:
            continue
        keys.add(k)
        names.append(nm)
    projs = []
    for nm in names:
        ver = gen_version(rng, R.Version)
        projs.append({"name": nm, "version": ver, "hash": gen_hash(rng), "link": gen_link(rng, nm, ver), "reqs": [], "origin": rng.choice([0, 0, 1, 2, 9])})
    nroots = rng.choice([1, 1, 1, 2])
    roots = []
    rk = set()
    while len(roots) < nroots:
        nm = rng.choice(ROOT_POOL)
        k = R.utils.normalize_project_name(nm)
        if k in keys or k in rk:
            continue
        rk.add(k)
        roots.append({"name": nm, "reqs": []})

    def mkreq(target: Dict[str, Any], marker: Optional[str]) -> str:
        nm = target["name"]
        if rng.random() < 0.15:
            nm = rng.choice([nm.lower(), nm.upper(), nm.replace("-", "_"), nm.replace(".", "-")])
            if R.utils.normalize_project_name(nm) != R.utils.normalize_project_name(target["name"]):
                nm = target["name"]
        s = nm
        k = rng.choice([0, 0, 0, 1, 1, 2])
        if k:
            s += "[" + ",".join(rng.sample(EXTRA_POOL, k)) + "]"
        s += gen_spec(rng, R, target["version"])
        if marker:
            s += ' ; extra == "' + marker + '"'
        return s

    # every project is required by a root or by an earlier project (DAG), plus a few extra edges
    for i, p in enumerate(projs):
        srcs = [rng.choice(roots)] if i == 0 or rng.random() < 0.3 else [rng.choice(projs[:i])]
        for _ in range(rng.choice([0, 0, 1, 2])):
            srcs.append(rng.choice(roots + projs[:i]) if i else rng.choice(roots))
        for s in srcs:
            marker = None
            if "version" in s and rng.random() < 0.3:
                marker = rng.choice(EXTRA_POOL[:4])
                # somebody must ask for that extra of the requirer, else the requirement is inactive
                askers = [q for q in roots + projs if q is not s and (("version" not in q) or projs.index(q) < projs.index(s))]
                if askers:
                    a = rng.choice(askers)
                    a["reqs"].append(s["name"] + "[" + marker + "]" + gen_spec(rng, R, s["version"]))
            s["reqs"].append(mkreq(p, marker))
    # self-referential extras (the usual spelling of an "everything" extra: P declares `P[io,viz] ; extra == "all"`),
    # with and without an activating extra, requested extras and a specifier; which lines precede P's pin is left to chance
    if rng.random() < 0.3:
        p = rng.choice(projs)
        kind = rng.choice(["all", "all", "plain", "spec"])
        exs = rng.sample(EXTRA_POOL, rng.choice([1, 2]))
        marker = rng.choice(["all", "full", "x"])
        later = projs[projs.index(p) + 1:]
        if later and rng.random() < 0.6:
            p["reqs"].append(rng.choice(later)["name"] + ' ; extra == "' + exs[0] + '"')
        if kind == "all":
            p["reqs"].append(p["name"] + "[" + ",".join(exs) + '] ; extra == "' + marker + '"')
        elif kind == "plain":
            p["reqs"].append(p["name"] + "[" + ",".join(exs) + "]")
        else:
            p["reqs"].append(p["name"] + gen_spec(rng, R, p["version"]) + ' ; extra == "' + marker + '"')
        if kind != "plain":
            asker = rng.choice(roots + projs[:projs.index(p)])
            asker["reqs"].append(p["name"] + "[" + marker + "]" + (gen_spec(rng, R, p["version"]) if rng.random() < 0.5 else ""))
    return {"projects": projs, "roots": roots}


def materialise(R, g: Dict[str, Any], repos: List[Any]):
    """Build the real DistributionCollection (as tests/test_dists.py and the compiler do)."""
    coll = R.dists.DistributionCollection()
    root_infos = []
    for r in g["roots"]:
        info = R.DistInfo(r["name"], None, [R.utils.parse_requirement(x) for x in r["reqs"]], meta=True)
        root_infos.append(info)
        coll.add_dist(info, None, None)
    for p in g["projects"]:
        v = R.utils.parse_version(p["version"])
        d = R.DistInfo(p["name"], v, [R.utils.parse_requirement(x) for x in p["reqs"]])
        d.hash = p["hash"]
        d.origin = repos[p["origin"]] if p["origin"] < len(repos) else R.FakeRepo("elsewhere")
        link = tuple(p["link"]) if p["link"] is not None else None
        d.candidate = R.Candidate(p["name"], None, v, None, None, "any", link, R.DistributionType.SDIST)
        coll.add_dist(d, None, None)
    roots = {coll.nodes[R.utils.normalize_project_name(r["name"])] for r in g["roots"]}
    return coll, roots, root_infos


def observe_view(R, coll, roots, rng) -> List[Dict[str, Any]]:
    """The view of the graph: what the writer is about to print, observed independently of the
    writer's string assembly (hook on _process_constraint_req gives the (requirement, requirer)
    pairs build_explanation selects)."""
    pins = []
    orig = R.dists._process_constraint_req
    for node in coll.visit_nodes(roots):
        if node.metadata is None or node.metadata.meta or node.key.lower() in R.cmdline.BLACKLIST:
            continue
        calls: List[Any] = []

        def hook(*args, _calls=calls, **kwargs):     # forwards the call as the code spelled it
            _calls.append((common.arg_of(orig, args, kwargs, "req", pos=0), common.arg_of(orig, args, kwargs, "node", pos=1)))
            return orig(*args, **kwargs)
        R.dists._process_constraint_req = hook
        try:
            R.dists.build_explanation(node)
        finally:
            R.dists._process_constraint_req = orig
        vias = []
        for req, rnode in calls:
            mex = []
            if req.marker:
                for m in req.marker._markers:
                    if isinstance(m, tuple) and m[0].value == "extra" and m[1].value == "==":
                        mex.append(m[2].value.strip().lower())
            ex = list(dict.fromkeys(e.strip().lower() for e in req.extras))
            rng.shuffle(ex)
            vias.append({"req": rnode.metadata.name, "mex": list(dict.fromkeys(mex)), "spec": str(req.specifier), "extras": ex})
        rng.shuffle(vias)
        link = node.metadata.candidate.link if node.metadata.candidate is not None else None
        url = full_link(R, link) if link is not None else None
        pins.append({"name": node.metadata.name, "version": str(node.metadata.version), "hash": node.metadata.hash, "url": url, "via": vias})
    rng.shuffle(pins)
    return pins


# ------------------------------------------------------------------------------------------
# tokens

def tl(items: List[str]) -> str:
    return " ".join([str(len(items))] + items)


def topt(s: Optional[str]) -> str:
    return "N" if s is None else "S " + hx(s)


def via_tokens(v: Dict[str, Any]) -> str:
    return " ".join([hx(v["req"]), tl([hx(x) for x in v["mex"]]), hx(v["spec"]), tl([hx(x) for x in v["extras"]])])


def pin_tokens(p: Dict[str, Any]) -> str:
    return " ".join([hx(p["name"]), hx(p["version"]), topt(p["hash"]), topt(p["url"]), tl([via_tokens(v) for v in p["via"]])])


def view_tokens(view: List[Dict[str, Any]]) -> str:
    return tl([pin_tokens(p) for p in view])


def opts_tokens(o: Dict[str, Any]) -> str:
    a = o.get("annot")
    if a is None:
        at = "N"
    else:
        at = " ".join(["S", hx(a["ver"]), hx(a["time"]), tl([hx(x) for x in a["inputs"]]), tl([hx(x) for x in a["repos"]]),
                       tl([hx(k) + " " + hx(v) for k, v in a["idx"]])])
    fmt = "N" if o["multi"] is None else "S " + str(int(o["multi"]))
    return " ".join([fmt, str(int(o["hashes"])), str(int(o["urls"])), at,
                     tl([hx(x) for x in o["index"]]), tl([hx(x) for x in o["links"]])])


class Tok:
    def __init__(self, toks: List[str]) -> None:
        self.t = toks
        self.i = 0

    def next(self) -> str:
        v = self.t[self.i]
        self.i += 1
        return v

    def s(self) -> str:
        return unhx(self.next())

    def lst(self, f):
        return [f() for _ in range(int(self.next()))]

    def opt(self, f):
        return f() if self.next() == "S" else None

    def via(self):
        return {"req": self.s(), "mex": self.lst(self.s), "spec": self.s(), "extras": self.lst(self.s)}

    def pin(self):
        return {"name": self.s(), "version": self.s(), "hash": self.opt(self.s), "url": self.opt(self.s), "via": self.lst(self.via)}

    def view(self):
        return self.lst(self.pin)

    def edge(self):
        return (self.s(), self.s(), tuple(self.lst(self.s)), self.s(), tuple(self.lst(self.s)))


def parse_load_answer(ans: str) -> Dict[str, Any]:
    toks = ans.split()
    if not toks:
        return {"status": "?", "raw": ans}
    if toks[0] == "ERR":
        return {"status": toks[1]}
    if toks[0] != "OK":
        return {"status": "?", "raw": ans[:200]}
    t = Tok(toks[1:])
    entries = t.view()
    view = t.view()
    edges = t.lst(t.edge)
    return {"status": "OK", "entries": entries, "view": view, "edges": edges}


# ------------------------------------------------------------------------------------------
# running the real writer / loader

# the format is explicit (True / False) or left to the tool (None = what the command line passes by default)
ALL_MODES = [(m, h, u, a) for m in (True, False, None) for h in (True, False) for u in (True, False) for a in (True, False)]


def spec_multi(multi, hashes, urls) -> bool:
    """The layout the option set must lead to (the documented rule, not read from the code)."""
    return bool(multi) if multi is not None else bool(hashes or urls)


def full_link(R, link) -> str:
    """The URL the writer prints for a candidate link (base, href): joined when the base is a URL,
    the path below the directory for a local (find-links) base."""
    if link[0] and R.urlsplit(link[0]).scheme:
        return R.urljoin(link[0], link[1])
    return link[1]


def real_write(R, coll, roots, root_infos, repo, multi, hashes, urls, annotate) -> str:
    buf = io.StringIO()
    saved = R.cmdline.datetime
    R.cmdline.datetime = _FakeDatetimeModule
    try:
        R.cmdline.write_requirements_file(coll, roots, repo, annotate_source=annotate, urls=urls, input_reqs=root_infos,
                                          hashes=hashes, multiline=multi, write_to=buf)
    finally:
        R.cmdline.datetime = saved
    return buf.getvalue()


def model_opts(R, g, repos_list, multi, hashes, urls, annotate, view) -> Dict[str, Any]:
    index = [str(r) for r in repos_list if isinstance(r, R.PyPIRepository) and r.index_type != R.IndexType.DEFAULT]
    links = [str(r) for r in repos_list if isinstance(r, R.FindLinksRepository)]
    annot = None
    if annotate:
        me = R.pkg_resources.working_set.find(R.pkg_resources.Requirement.parse("req_compile"))
        mapping = {}
        for i, r in enumerate(repos_list):
            mapping[r] = i
        idx = []
        for p in g["projects"]:
            origin = repos_list[p["origin"]] if p["origin"] < len(repos_list) else R.FakeRepo("elsewhere")
            idx.append((p["name"], str(mapping.get(origin, "?"))))
        annot = {"ver": me.version if me else "dev", "time": FIXED_TIME, "inputs": [r["name"] for r in g["roots"]],
                 "repos": [str(r) for r in repos_list], "idx": idx}
    return {"multi": multi, "hashes": hashes, "urls": urls, "annot": annot, "index": index, "links": links}


SEP_RUN = re.compile(r"[-_.]{2,}")
MARKER_RE = re.compile(r'extra\s*==\s*"([^"]*)"')


def exc_class(R, ex: BaseException) -> str:
    if isinstance(ex, R.RIE):
        return "NotAnnotated"
    if isinstance(ex, ValueError):
        return "ValueError"
    return type(ex).__name__


def real_load(R, text: str, path: str) -> Dict[str, Any]:
    """Load `text` with the real SolutionRepository; observe the _add_sources calls, the exception
    class and the resulting graph."""
    with open(path, "w", encoding="utf-8", newline="") as fh:
        fh.write(text)
    trace: List[Any] = []
    trace_sources: List[List[str]] = []
    cls = R.solution.SolutionRepository
    orig = cls._add_sources

    def hook(self, *args, **kwargs):     # reads the arguments by the original's parameter names, forwards all of them
        b = common.bound_call(orig, (self,) + args, kwargs)
        if b is None or "req" not in b.arguments or "sources" not in b.arguments:
            return orig(self, *args, **kwargs)
        req, url, dist_hash = b.arguments["req"], b.arguments.get("url"), b.arguments.get("dist_hash")
        sources = b.arguments["sources"] = list(b.arguments["sources"])     # (possibly a one-shot iterator)
        trace_sources.append(sources)
        trace.append({"name": req.name, "specs": [v for _, v in req.specs], "n": len(sources),
                      "srcnames": [s.split(" ", 1)[0] for s in sources], "url": url, "hash": dist_hash})
        return orig(*b.args, **b.kwargs)
    cls._add_sources = hook
    R.utils.parse_requirement.cache_clear()
    try:
        try:
            repo = cls(path)
        except RecursionError:
            return {"status": "Diverged", "trace": trace}
        except Exception as ex:  # noqa: BLE001
            common.reraise_harness_fault(ex)     # (also when the loader re-raised the hook's own error as its ValueError)
            return {"status": exc_class(R, ex), "trace": trace, "last_sources": trace_sources[-1] if trace_sources else None}
    finally:
        cls._add_sources = orig
    sol = repo.solution
    pins = {}
    for key, node in sol.nodes.items():
        md = node.metadata
        link = md.candidate.link if md.candidate is not None else None
        pins[key] = {"name": md.name, "version": str(md.version), "hash": md.hash, "url": link[1] if link else None,
                     "rdeps": sorted(r.key for r in node.reverse_deps)}
    # every node ever linked (placeholder requirers were dropped from .nodes but are still referenced)
    seen = {}
    todo = list(sol.nodes.values())
    while todo:
        nd = todo.pop()
        if id(nd) in seen:
            continue
        seen[id(nd)] = nd
        todo.extend(nd.reverse_deps)
        todo.extend(nd.dependencies.keys())
    edges = []
    for nd in seen.values():
        if nd.metadata is None:
            continue
        for rq in nd.metadata.reqs:
            mex = tuple(sorted(MARKER_RE.findall(str(rq.marker)))) if rq.marker else ()
            edges.append((nd.key, rq.name, tuple(sorted(rq.extras)), str(rq.specifier), mex))
    return {"status": "OK", "trace": trace, "pins": pins, "edges": sorted(edges)}


def canon_spec(R, s: str) -> str:
    try:
        return str(R.SpecifierSet(s))
    except Exception:
        return "!invalid:" + s


def _admissible(R, entries: List[Dict[str, Any]]) -> bool:
    """Every specifier admits the version it is attached to."""
    norm = R.utils.normalize_project_name
    vers: Dict[str, Any] = {}
    for p in entries:
        try:
            vers[norm(p["name"])] = R.Version(p["version"])
        except Exception:
            return False
    for p in entries:
        for v in p["via"]:
            try:
                if not R.SpecifierSet(v["spec"]).contains(vers[norm(p["name"])], prereleases=True):
                    return False
            except Exception:
                return False
    return True


_SRC_RE = re.compile(r"^(\S+)(?: \(([^\[\]()]*?)\s*(?:\[[^\]]*\])?\))?$")


def _last_call_inadmissible(R, real: Dict[str, Any]) -> bool:
    """The _add_sources call during which the real loader raised names a specifier that excludes the version of
    its pin (graph surgery inside add_dist, C10's domain).  A project requiring itself is NOT an excuse: self-referential
    extras are ordinary solved graphs."""
    if not real.get("trace") or real.get("last_sources") is None:
        return False
    last = real["trace"][-1]
    norm = R.utils.normalize_project_name
    try:
        V = R.Version(last["specs"][0])
    except Exception:
        return False
    for src in real["last_sources"]:
        m = _SRC_RE.match(src)
        if not m:
            continue
        try:
            if m.group(2) and not R.SpecifierSet(m.group(2)).contains(V, prereleases=True):
                return True
        except Exception:
            continue
    return False


def compare_load(R, ctx: Ctx, where: str, text: str, real: Dict[str, Any], model: Dict[str, Any]) -> str:
    """Returns the class of the case; reports mismatches."""
    ms = model["status"]
    if ms == "Unmodelled":
        return "unmodelled"
    if ms == "?":
        ctx.mismatch(where + ":model-answer", text, real["status"], model)
        return "bad"
    norm = R.utils.normalize_project_name
    if ms in ("OK", "NotAnnotated", "ValueError") and real["status"] == "ValueError" and ms != "ValueError" and _last_call_inadmissible(R, real):
        # same thing when the model fails later in the file: the real loader stopped at an earlier entry
        return "graph-level-error"
    if ms == "OK" and real["status"] == "ValueError" and not _admissible(R, model["entries"]):
        # the text names a specifier that excludes the pinned version, or a project requiring itself: add_dist
        # discards / re-enters nodes and _add_sources turns whatever the graph raises into ValueError (C10's model)
        return "graph-level-error"
    if real["status"] != ms:
        ctx.mismatch(where + ":status", text, real["status"], ms)
        return "bad"
    if ms != "OK":
        return "error:" + ms
    # 1. the _add_sources trace
    mtrace = [{"name": p["name"], "specs": [p["version"]], "n": len(p["via"]),
               "srcnames": [v["req"] + ("[" + ",".join(v["mex"]) + "]" if v["mex"] else "") for v in p["via"]],
               "url": p["url"], "hash": p["hash"]} for p in model["entries"]]
    if mtrace != real["trace"]:
        ctx.mismatch(where + ":trace", text, real["trace"], mtrace)
        return "bad"
    # 2. the graph, on calm texts
    keys = [norm(p["name"]) for p in model["entries"]]
    calm = len(set(keys)) == len(keys)
    spell: Dict[str, str] = {}
    for p in model["entries"]:
        for nm in [p["name"]] + [v["req"] for v in p["via"] if v["req"]]:
            k = norm(nm)
            if spell.setdefault(k, nm) != nm:
                calm = False
            is_path = nm.endswith((".txt", ".out")) or "/" in nm or "\\" in nm
            if not is_path and SEP_RUN.search(nm):
                calm = False     # Requirement.project_name (safe_name collapses runs) and .name give two graph keys
        try:
            V = R.Version(p["version"])
            for v in p["via"]:
                if not R.SpecifierSet(v["spec"]).contains(V, prereleases=True):
                    calm = False
        except Exception:
            calm = False
    if not calm:
        return "ok-trace-only"
    mpins = {}
    byreq: Dict[str, set] = {}
    for (rk, pn, ex, sp, mex) in model["edges"]:
        byreq.setdefault(norm(pn), set()).add(rk)
    for p in model["view"]:
        k = norm(p["name"])
        mpins[k] = {"name": p["name"], "version": p["version"], "hash": p["hash"], "url": p["url"], "rdeps": sorted(byreq.get(k, set()))}
    if mpins != real["pins"]:
        ctx.mismatch(where + ":pins", text, real["pins"], mpins)
        return "bad"
    # edges are compared over all entries (placeholder-version pins are dropped from the view but their
    # requirements were recorded); the model's `edges` is evaluated on the view, so add the dropped ones here
    medges = sorted((rk, pn, tuple(ex), canon_spec(R, sp), tuple(mex)) for (rk, pn, ex, sp, mex) in model["edges"])
    dropped: List[Dict[str, Any]] = []   # nothing is dropped any more: placeholders are told by their origin
    redges = real["edges"]
    if dropped:
        dn = {p["name"] for p in dropped}
        redges = [e for e in redges if e[1] not in dn]
    if medges != redges:
        ctx.mismatch(where + ":edges", text, redges, medges)
        return "bad"
    return "ok-graph"


# ------------------------------------------------------------------------------------------
# mutations of texts (the malformed stream)

def mutate(rng, text: str) -> str:
    lines = text.split("\n")
    k = rng.choice(["dropline", "dupline", "swap", "chars", "novia", "nocont", "blank", "comment", "indent", "hash2", "nohash",
                    "truncate", "joinlines", "directive", "space", "paren", "bracket", "url", "viaprefix", "leftextras", "tab"])
    idxs = [i for i, l in enumerate(lines) if l.strip()]
    if not idxs:
        return "x==1\n"
    i = rng.choice(idxs)
    if k == "dropline":
        del lines[i]
    elif k == "dupline":
        lines.insert(i, lines[i])
    elif k == "swap" and len(idxs) > 1:
        j = rng.choice(idxs)
        lines[i], lines[j] = lines[j], lines[i]
    elif k == "chars":
        l = lines[i]
        if l:
            p = rng.randrange(len(l))
            c = rng.choice(["#", " ", "\\", "(", ")", "[", "]", ",", "-", "=", "via", "x", "", "", "\t", ";", "."])
            lines[i] = l[:p] + c + l[p + (1 if rng.random() < 0.5 else 0):]
    elif k == "novia":
        lines[i] = lines[i].replace("via ", "", 1).replace("via", "", 1)
    elif k == "nocont":
        lines[i] = lines[i].rstrip("\\").rstrip()
    elif k == "blank":
        lines.insert(i, rng.choice(["", "   ", "#", "    #"]))
    elif k == "comment":
        lines.insert(i, rng.choice(["# a comment", "    # note: pinned", "## via x", "#via y"]))
    elif k == "indent":
        lines[i] = rng.choice(["", " ", "\t", "        "]) + lines[i].lstrip()
    elif k == "hash2":
        lines[i] = lines[i] + rng.choice([" --hash=sha256:beef", " \\", "--hash=md5:1 --hash=md5:2"])
    elif k == "nohash":
        lines[i] = lines[i].replace("--hash=", rng.choice(["--hash ", "-hash=", "--hash=", ""]), 1)
    elif k == "truncate":
        p = rng.randrange(len(text) + 1)
        return text[:p]
    elif k == "joinlines" and i + 1 < len(lines):
        lines[i] = lines[i] + rng.choice([" ", "", "  # "]) + lines[i + 1].strip()
        del lines[i + 1]
    elif k == "directive":
        lines.insert(i, rng.choice(["--index-url https://x.example/simple", "  --find-links ../w", "-r other.txt", "--hash=sha256:00"]))
    elif k == "space":
        lines[i] = lines[i].replace(" ", rng.choice(["  ", "", "\t"]), 1)
    elif k == "paren":
        lines[i] = lines[i].replace(rng.choice(["(", ")"]), rng.choice(["", "((", " ("]), 1)
    elif k == "bracket":
        lines[i] = lines[i].replace(rng.choice(["[", "]"]), rng.choice(["", "[[", "] "]), 1)
    elif k == "url":
        lines.insert(i + 1, rng.choice(["    # https://h.example/p-1.0.tar.gz#sha256=ab", "    # ../rel/p-1.whl", "    # p.zip#a#b", "    # http://x/y"]))
    elif k == "viaprefix":
        lines[i] = re.sub(r"(# (via )?)([A-Za-z])", lambda m: m.group(1) + rng.choice(["via", "viaduct-", "[0] ", "http://"]) + m.group(3), lines[i], count=1)
    elif k == "leftextras":
        lines[i] = re.sub(r"^([A-Za-z0-9._-]+)==", lambda m: m.group(1) + rng.choice(["[x]", "[b,a]", "[]", " "]) + "==", lines[i], count=1)
    elif k == "tab":
        lines[i] = lines[i].replace("    ", "\t", 1)
    return "\n".join(lines)


# ------------------------------------------------------------------------------------------
# pip as a second oracle

_PIP: Any = None


def pip_parse(path: str) -> Optional[List[Tuple[str, List[str]]]]:
    global _PIP
    if _PIP is None:
        try:
            from pip._internal.req.req_file import parse_requirements
            from pip._internal.network.session import PipSession
            _PIP = (parse_requirements, PipSession())
        except Exception:
            _PIP = False
    if not _PIP:
        return None
    parse_requirements, session = _PIP
    out = []
    for pr in parse_requirements(path, session=session):
        hs = (pr.options or {}).get("hashes", {})
        flat = sorted(a + ":" + d for a, ds in hs.items() for d in ds) if isinstance(hs, dict) else sorted(hs)
        out.append((pr.requirement.strip(), flat))
    return out


# ------------------------------------------------------------------------------------------
# T2

def _repos(R, tmp: str, rng) -> List[Any]:
    links_dir = os.path.join(tmp, "links")
    os.makedirs(links_dir, exist_ok=True)
    pool = [R.FakeRepo("main"), R.FakeRepo("second"),
            R.PyPIRepository("https://idx.example/simple", tmp, index_type=R.IndexType.INDEX_URL),
            R.PyPIRepository("https://extra.example/simple/", tmp, index_type=R.IndexType.EXTRA_INDEX_URL),
            R.FindLinksRepository(links_dir),
            R.PyPIRepository("https://pypi.org/simple", tmp, index_type=R.IndexType.DEFAULT)]
    k = rng.choice([1, 2, 3, 4, 6])
    first = pool[:2]
    rest = pool[2:]
    rng.shuffle(rest)
    return (first + rest)[:max(k, 1)]


def nontrivial_view(view: List[Dict[str, Any]]) -> bool:
    return len(view) >= 2 and any(v["spec"] or v["extras"] or v["mex"] for p in view for v in p["via"])


def correspondence(ctx: Ctx) -> None:
    R = _imports()
    rng = ctx.rng
    tmp = str(ctx.tmpdir())
    sol_path = os.path.join(tmp, "solution.txt")
    corpus_cases(R, ctx, sol_path)
    grid_checks(R, ctx)

    ngraphs = ctx.n(110, 2000)
    wlines: List[str] = []
    wmeta: List[Any] = []
    for gi in range(ngraphs):
        g = gen_graph(rng, R)
        repos_list = _repos(R, tmp, rng)
        repo = R.MultiRepository(repos_list) if len(repos_list) > 1 or rng.random() < 0.5 else repos_list[0]
        try:
            coll, roots, root_infos = materialise(R, g, repos_list)
        except Exception as ex:  # noqa: BLE001
            ctx.count("graph:materialise-failed:" + type(ex).__name__)
            continue
        view = observe_view(R, coll, roots, rng)
        ctx.count("graph:pins:%d" % len(view))
        for (multi, hashes, urls, annotate) in ALL_MODES:
            try:
                text = real_write(R, coll, roots, root_infos, repo, multi, hashes, urls, annotate)
            except Exception as ex:  # noqa: BLE001
                common.reraise_harness_fault(ex)     # the fake clock / fake repositories are the harness's
                ctx.count("writer-exception:" + type(ex).__name__)
                ctx.mismatch("writer-exception", {"graph": g, "opts": model_opts(R, g, list(repo), multi, hashes, urls, annotate, view)},
                             type(ex).__name__ + ": " + str(ex)[:120], "a text (the model's writer is total)")
                continue
            o = model_opts(R, g, list(repo), multi, hashes, urls, annotate, view)
            wlines.append("W " + opts_tokens(o) + " " + view_tokens(view))
            wmeta.append({"graph": g, "opts": o, "view": view, "text": text, "gi": gi, "mode": (multi, hashes, urls, annotate)})
    answers = run_model("C06", wlines)
    if len(answers) != len(wlines):
        ctx.obligation_broken("model-runner:C06", f"{len(answers)} answers for {len(wlines)} cases")
        return
    texts: List[Tuple[str, Dict[str, Any]]] = []
    for meta, ans in zip(wmeta, answers):
        o = meta["opts"]
        mode = {True: "multi", False: "single", None: "default"}[o["multi"]]
        ctx.count("write:" + mode + (":hashes" if o["hashes"] else "") + (":urls" if o["urls"] else "") + (":annotate" if o["annot"] else ""))
        mtext = unhx(ans) if not ans.startswith("!") else ans
        ctx.case(key=("W", json.dumps(o, sort_keys=True), json.dumps(meta["view"], sort_keys=True)), nontrivial=nontrivial_view(meta["view"]),
                 sample={"kind": "write", "opts": o, "view": meta["view"], "text": meta["text"]} if ctx.evaluations % 701 == 0 else None)
        if mtext != meta["text"]:
            ctx.mismatch("writer-text", {"graph": meta["graph"], "opts": o, "view": meta["view"]}, meta["text"], mtext)
        texts.append((meta["text"], meta))

    # loader: every written text, plus mutated ones (~15 % of the stream)
    lcases: List[Tuple[str, str, Optional[Dict[str, Any]]]] = []
    for text, meta in texts:
        lcases.append(("written", text, meta))
    nmut = max(1, int(len(texts) * 0.18))
    for _ in range(nmut):
        text, meta = rng.choice(texts)
        m = mutate(rng, text)
        if rng.random() < 0.3:
            m = mutate(rng, m)
        if "\r" in m or any(ord(c) > 126 for c in m):
            continue
        lcases.append(("mutated", m, None))
    llines = ["L " + hx(t) for _, t, _ in lcases]
    answers = run_model("C06", llines)
    if len(answers) != len(llines):
        ctx.obligation_broken("model-runner:C06", f"{len(answers)} answers for {len(llines)} load cases")
        return
    wf_meta: List[Any] = []
    load_models: List[Tuple[str, Dict[str, Any]]] = []
    for (kind, text, meta), ans in zip(lcases, answers):
        model = parse_load_answer(ans)
        load_models.append((text, model))
        real = real_load(R, text, sol_path)
        cls = compare_load(R, ctx, "loader-" + kind, text, real, model)
        ctx.count("load:" + kind + ":" + cls)
        if meta is not None and cls == "unmodelled":
            o = meta["opts"]
            ctx.count("unmodelled-by-mode:" + {True: "multi", False: "single", None: "default"}[o["multi"]] + (":urls" if o["urls"] else ""))
        ctx.case(key=("L", text), nontrivial=(cls == "ok-graph" and len(model.get("view", [])) >= 2 and any(e[2] or e[3] for e in model["edges"])),
                 sample={"kind": "load", "text": text, "real": real["status"], "model": model["status"]} if ctx.evaluations % 997 == 0 else None)
        if meta is not None:
            meta["loaded"] = model
            wf_meta.append((text, meta, real, model))
    # round trip as the theorems state it: where wf holds (on the canonical view) the real loader returns the view
    canon_ans = run_model("C06", ["K " + view_tokens(m["view"]) for _, m, _, _ in wf_meta])
    wf_ans = run_model("C06", ["F " + opts_tokens(m["opts"]) + " " + " ".join(c.split()) for (_, m, _, _), c in zip(wf_meta, canon_ans)])
    for (text, meta, real, model), cans, wans in zip(wf_meta, canon_ans, wf_ans):
        cview = Tok(cans.split()).view()
        wfm, wfs, wfa, mmulti = wans.split()
        o = meta["opts"]
        # wf_auto covers explicit and default formats; it must agree with the per-format predicates
        wf = wfa == "1"
        if wf != ((wfm == "1") or (wfs == "1")):
            ctx.mismatch("wf_auto-vs-wf_multi/wf_single", {"opts": o, "view": meta["view"]}, [wfm, wfs], wfa)
        ctx.count("wf:" + {True: "multi", False: "single", None: "default"}[o["multi"]] + ":" + ("yes" if wf else "no"))
        if o["multi"] is None and (mmulti == "1") != spec_multi(None, o["hashes"], o["urls"]):
            # the layout the tool picks on its own must be the documented one
            ctx.mismatch("default-format-rule", {"opts": o}, spec_multi(None, o["hashes"], o["urls"]), mmulti)
        if wf:
            expect = [dict(p, hash=(p["hash"] if o["hashes"] else None), url=(p["url"] if o["urls"] else None)) for p in cview]
            got = model.get("view") if model["status"] == "OK" else model["status"]
            if got != expect:
                ctx.mismatch("roundtrip-model", {"opts": o, "view": meta["view"]}, expect, got)
            if real["status"] != "OK":
                ctx.mismatch("roundtrip-real", {"opts": o, "view": meta["view"], "text": text}, "OK", real["status"])
    # the file is fed back and written again under another option set
    second_run_stream(R, ctx, wmeta, sol_path)
    # pip
    pip_checks(R, ctx, [(t, m) for (t, m) in texts][: ctx.n(400, 6000)], sol_path)
    coq_recheck(ctx, [m for _, m in texts], load_models)


def second_compile(R, g: Dict[str, Any], text: str, path: str):
    """Feed a written solution back: load it and compile the same inputs against it alone."""
    import req_compile.compile as comp
    with open(path, "w", encoding="utf-8", newline="") as fh:
        fh.write(text)
    R.utils.parse_requirement.cache_clear()
    sol = R.solution.SolutionRepository(path)
    infos = [R.DistInfo(r["name"], None, [R.utils.parse_requirement(x) for x in r["reqs"]], meta=True) for r in g["roots"]]
    results, roots = comp.perform_compile(infos, sol)
    return sol, infos, results, roots


def second_opts(R, sol, g: Dict[str, Any], mode, view: List[Dict[str, Any]]) -> Dict[str, Any]:
    multi, hashes, urls, annotate = mode
    annot = None
    if annotate:
        me = R.pkg_resources.working_set.find(R.pkg_resources.Requirement.parse("req_compile"))
        annot = {"ver": me.version if me else "dev", "time": FIXED_TIME, "inputs": [r["name"] for r in g["roots"]],
                 "repos": [str(sol)], "idx": [(p["name"], "0") for p in view]}
    return {"multi": multi, "hashes": hashes, "urls": urls, "annot": annot, "index": [], "links": []}


def plain_names(R, g: Dict[str, Any]) -> bool:
    """No project whose name the loader takes for a file path, no separator runs (both known findings)."""
    for p in g["projects"]:
        nm = p["name"]
        if nm.endswith((".txt", ".out")) or "/" in nm or "\\" in nm or SEP_RUN.search(nm):
            return False
    return not any(SEP_RUN.search(r["name"]) and not (r["name"].endswith((".txt", ".out")) or "/" in r["name"] or "\\" in r["name"])
                   for r in g["roots"])


def second_run_stream(R, ctx: Ctx, wmeta: List[Dict[str, Any]], sol_path: str) -> None:
    """Write under option set A, load, compile the same inputs against that solution alone, write under option set B:
    all pairs (A, B) of the 24 option sets are cycled through.  The second text must be the model's text for the view of
    the second graph, must load like the model says, and the pins must be those of the first run."""
    rng = ctx.rng
    by_graph: Dict[int, Dict[Any, Dict[str, Any]]] = {}
    for m in wmeta:
        by_graph.setdefault(m["gi"], {})[m["mode"]] = m
    pairs = [(a, b) for a in ALL_MODES for b in ALL_MODES]
    rng.shuffle(pairs)
    ptr = 0
    per_graph = ctx.n(16, 48)
    cases: List[Dict[str, Any]] = []
    for gi, metas in by_graph.items():
        todo: Dict[Any, List[Any]] = {}
        for _ in range(per_graph):
            a, b = pairs[ptr % len(pairs)]
            ptr += 1
            todo.setdefault(a, []).append(b)
        for a, bs in todo.items():
            m = metas.get(a)
            if m is None:
                continue
            g = m["graph"]
            try:
                sol, infos, results, roots = second_compile(R, g, m["text"], sol_path)
            except Exception as ex:  # noqa: BLE001
                common.reraise_harness_fault(ex)
                ctx.count("second-run:not-compiled:" + exc_class(R, ex))
                continue
            view2 = observe_view(R, results, roots, rng)
            if plain_names(R, g) and graph_in_guard(R, g, a) and m.get("loaded", {}).get("status") == "OK":
                # C05's reading, checked here only as far as the file carries it: the second graph has the pins (version, hash,
                # URL) that the model reads from the first text
                want = sorted((p["name"], p["version"], p["hash"], p["url"]) for p in m["loaded"]["view"])
                got = sorted((p["name"], p["version"], p["hash"], p["url"]) for p in view2)
                if want != got:
                    ctx.mismatch("second-run-pins", {"graph": g, "opts": m["opts"]}, got, want)
            for b in bs:
                o2 = second_opts(R, sol, g, b, view2)
                ctx.count("second-run:pair")
                try:
                    text2 = real_write(R, results, roots, infos, sol, *b)
                except Exception as ex:  # noqa: BLE001
                    common.reraise_harness_fault(ex)
                    ctx.count("second-run:writer-exception:" + type(ex).__name__)
                    ctx.mismatch("second-run-writer-exception", {"graph": g, "opts": m["opts"], "second": list(b)},
                                 type(ex).__name__ + ": " + str(ex)[:120], "a text (the model's writer is total)")
                    continue
                cases.append({"graph": g, "opts": m["opts"], "second": list(b), "opts2": o2, "view2": view2, "text2": text2})
    if not cases:
        return
    answers = run_model("C06", ["W " + opts_tokens(c["opts2"]) + " " + view_tokens(c["view2"]) for c in cases])
    lanswers = run_model("C06", ["L " + hx(c["text2"]) for c in cases])
    for c, ans, lans in zip(cases, answers, lanswers):
        key = {"graph": c["graph"], "opts": c["opts"], "second": c["second"]}
        ctx.case(key=("W2", json.dumps(c["opts2"], sort_keys=True), c["text2"]), nontrivial=nontrivial_view(c["view2"]))
        mtext = unhx(ans) if not ans.startswith("!") else ans
        if mtext != c["text2"]:
            ctx.mismatch("second-run-writer-text", key, c["text2"], mtext)
        model = parse_load_answer(lans)
        real = real_load(R, c["text2"], sol_path)
        cls = compare_load(R, ctx, "second-run-loader", c["text2"], real, model)
        ctx.count("second-run:load:" + cls)


def pip_checks(R, ctx: Ctx, items, sol_path: str) -> None:
    for text, meta in items:
        with open(sol_path, "w", encoding="utf-8", newline="") as fh:
            fh.write(text)
        try:
            got = pip_parse(sol_path)
        except Exception as ex:  # noqa: BLE001
            got = "EXC " + type(ex).__name__ + ": " + str(ex)[:120]
        if got is None:
            ctx.count("pip:unavailable")
            return
        o = meta["opts"]
        expect = sorted(((p["name"] + "==" + p["version"], [p["hash"]] if (o["hashes"] and p["hash"]) else []) for p in meta["view"]),
                        key=lambda x: x[0].split("==")[0].lower())
        ctx.count("pip:compared")
        ctx.case(key=("P", text), nontrivial=False)
        if got != expect:
            ctx.mismatch("pip-reads-same", {"text": text}, got, expect)


def grid_checks(R, ctx: Ctx) -> None:
    """ver_ok / spec_ok / extra_ok against packaging / pkg_resources (the recognisers decide what is modelled)."""
    rng = ctx.rng
    vers = ["1.0", "1", "0", "01", "1.0.0", "1!2.0", "0!1", "1.0a1", "1.0rc1", "1.0c1", "1.0.post1", "1.0-1", "1.0.dev0", "1.0+abc", "1.0+ABC",
            "1.0+a.01", "1.0+a.1", "1.0+01", "1.0+0", "v1.0", "1.0.", "1..0", "", "1.0a", "1.0b2.post3.dev4", "1.0post1", "1.0.post", "1.0+",
            "1.0+a_b", "1.0+a-b", "2024.1.15", "1.0rc0", "1.0alpha1", "1.0 ", "0+missing", "1.00", "10.0", "1.0.dev01", "1e5", "1.0a01"]
    for _ in range(ctx.n(300, 5000)):
        s = gen_version(rng, R.Version)
        if rng.random() < 0.5 and s:
            p = rng.randrange(len(s))
            s = s[:p] + rng.choice(["0", ".", "a", "+", "!", "1", "rc", ".post", "-", "_", "A"]) + s[p + (1 if rng.random() < 0.5 else 0):]
        vers.append(s)
    lines = ["V " + hx(v) for v in vers]
    ans = run_model("C06", lines)
    for v, a in zip(vers, ans):
        try:
            exp = "1" if str(R.Version(v)) == v else "0"
        except R.InvalidVersion:
            exp = "0"
        ctx.count("grid:ver_ok:" + exp)
        ctx.case(key=("V", v), nontrivial=False)
        if a != exp:
            ctx.mismatch("ver_ok-vs-packaging", v, exp, a)
    extras = ["x", "X", "a-b", "a_b", "a.b", "-a", "a-", "", "a b", "v1.2", "test", "a,b", "é"]
    ans = run_model("C06", ["X " + hx(e) for e in extras])
    for e, a in zip(extras, ans):
        try:
            rq = R.pkg_resources.Requirement.parse("p[" + e + "]")
            exp = "1" if list(rq.extras) == [e] else "0"
        except Exception:
            exp = "0"
        ctx.case(key=("X", e), nontrivial=False)
        if a != exp:
            ctx.mismatch("extra_ok-vs-pkg_resources", e, exp, a)
    # spec_ok only claims: accepted => packaging accepts and prints clauses with the same meaning
    specs = ["", ">=1.0", "==1.0,<2", "<3,>=1", "~=1.4.2", "!=1.5", "==1.*", "!=2.0.*", ">=1.0a1", "===1.0", ">=1.x", ">= 1.0", "==1.0+loc", ">=1.0+loc",
             "1.0", ",", ">=1,", "<=1!2.0", ">1.0.post1", "=1.0", "~=1"]
    ans = run_model("C06", ["S " + hx(s) for s in specs])
    for s, a in zip(specs, ans):
        try:
            R.SpecifierSet(s)
            valid = True
        except Exception:
            valid = False
        ctx.case(key=("S", s), nontrivial=False)
        if a == "1" and not valid:
            ctx.mismatch("spec_ok-implies-valid", s, "invalid", a)


# ------------------------------------------------------------------------------------------
# re-evaluation inside Coq

def coq_view(view: List[Dict[str, Any]]) -> str:
    cs = common.coq_string

    def cl(xs):
        return "[" + "; ".join(xs) + "]"

    def co(x):
        return "None" if x is None else "(Some " + cs(x) + ")"
    pins = []
    for p in view:
        vias = [f"(mkVia {cs(v['req'])} {cl([cs(x) for x in v['mex']])} {cs(v['spec'])} {cl([cs(x) for x in v['extras']])})" for v in p["via"]]
        pins.append(f"(mkPin {cs(p['name'])} {cs(p['version'])} {co(p['hash'])} {co(p['url'])} {cl(vias)})")
    return cl(pins)


def coq_opts(o: Dict[str, Any]) -> str:
    cs = common.coq_string

    def cl(xs):
        return "[" + "; ".join(xs) + "]"
    a = o["annot"]
    at = "None" if a is None else ("(Some (mkAnnot {} {} {} {} {}))".format(
        cs(a["ver"]), cs(a["time"]), cl([cs(x) for x in a["inputs"]]), cl([cs(x) for x in a["repos"]]),
        cl(["(" + cs(k) + ", " + cs(v) + ")" for k, v in a["idx"]])))
    b = lambda x: "true" if x else "false"  # noqa: E731
    fmt = "None" if o["multi"] is None else "(Some " + b(o["multi"]) + ")"
    return f"(mkOpts {fmt} {b(o['hashes'])} {b(o['urls'])} {at} {cl([cs(x) for x in o['index']])} {cl([cs(x) for x in o['links']])})"


def coq_recheck(ctx: Ctx, metas: List[Dict[str, Any]], loads: List[Tuple[str, Dict[str, Any]]]) -> None:
    """A sample re-evaluated by vm_compute inside Coq, so that no verdict rests on the extracted code alone:
    `write` must produce the real writer's text, and `load` must produce what the extracted binary reported
    (which was compared with the real loader) - on written and on mutated texts."""
    rng = ctx.rng
    sample = rng.sample(metas, min(len(metas), ctx.n(24, 120)))
    lsample = rng.sample(loads, min(len(loads), ctx.n(30, 150)))
    cs = common.coq_string
    header = ("From Coq Require Import List String Ascii Bool.\nFrom RC Require Import lib.PyStr model.SolFileC06 model.SolWfC06.\n"
              "Import ListNotations.\nOpen Scope string_scope.\n"
              "Definition opt_eqb (a b : option string) : bool := match a, b with Some x, Some y => String.eqb x y | None, None => true | _, _ => false end.\n"
              "Definition via_eqb (a b : via_t) : bool := String.eqb (v_req a) (v_req b) && list_eqb (v_mex a) (v_mex b) && String.eqb (v_spec a) (v_spec b) && list_eqb (v_extras a) (v_extras b).\n"
              "Fixpoint all2 {A} (f : A -> A -> bool) (a b : list A) : bool := match a, b with [], [] => true | x :: a', y :: b' => f x y && all2 f a' b' | _, _ => false end.\n"
              "Definition pin_eqb (a b : pin) : bool := String.eqb (p_name a) (p_name b) && String.eqb (p_version a) (p_version b) && opt_eqb (p_hash a) (p_hash b) && opt_eqb (p_url a) (p_url b) && all2 via_eqb (p_via a) (p_via b).\n"
              "Definition res_eqb (r : result view) (st : string) (v : view) : bool := match r with Ok x => String.eqb st \"OK\" && all2 pin_eqb x v | Err ENotAnnotated => String.eqb st \"NotAnnotated\" | Err EValue => String.eqb st \"ValueError\" | Err EUnmodelled => String.eqb st \"Unmodelled\" end.\n")
    items = []
    for m in sample:
        items.append(f"(String.eqb (write {coq_opts(m['opts'])} {coq_view(m['view'])}) {cs(m['text'])})")
    for text, model in lsample:
        if model["status"] == "?":
            continue
        items.append(f"(res_eqb (load {cs(text)}) {cs(model['status'])} {coq_view(model.get('view', []))})")
    body = ["Definition checks : list bool := [" + ";\n ".join(items) + "].",
            "Eval vm_compute in (List.length (filter negb checks))."]
    ok, out = common.coq_eval("c06_cases", header, body)
    ctx.extra["coq_recheck"] = {"cases": len(items), "ok": ok}
    ctx.count("coq-recheck:write", len(sample))
    ctx.count("coq-recheck:load", len(items) - len(sample))
    if not ok or "= 0" not in out:
        ctx.mismatch("coq-vm_compute-recheck", {"n": len(items)}, "0 mismatches", out[-600:])


# ------------------------------------------------------------------------------------------
# corpus, known findings, oracle

def corpus_dir() -> str:
    return str(common.VERIF / "corpus" / "C06")


def load_corpus() -> List[Dict[str, Any]]:
    d = corpus_dir()
    out = []
    if os.path.isdir(d):
        for f in sorted(os.listdir(d)):
            if f.endswith(".json"):
                with open(os.path.join(d, f)) as fh:
                    e = json.load(fh)
                e["file"] = f
                out.append(e)
    return out


def corpus_cases(R, ctx: Ctx, sol_path: str) -> None:
    """Corpus entries: texts (loader correspondence) and witnesses of the _refuted theorems."""
    for e in load_corpus():
        texts = []
        if "text" in e:
            texts.append(e["text"])
        if "graph" in e and "mode" in e:
            repos_list = [R.FakeRepo("main"), R.FakeRepo("second")]
            coll, roots, root_infos = materialise(R, e["graph"], repos_list)
            texts.append(real_write(R, coll, roots, root_infos, R.MultiRepository(repos_list), *e["mode"]))
        for text in texts:
            ans = run_model("C06", ["L " + hx(text)])
            model = parse_load_answer(ans[0])
            real = real_load(R, text, sol_path)
            cls = compare_load(R, ctx, "corpus:" + e["file"], text, real, model)
            ctx.count("corpus:" + cls)
            ctx.case(key=("corpus", e["file"], text), nontrivial=False)


def view_of_real_load(R, real: Dict[str, Any]) -> Any:
    if real["status"] != "OK":
        return real["status"]
    return {"pins": {k: (p["name"], p["version"], p["hash"], p["url"]) for k, p in real["pins"].items()},
            "edges": [e for e in real["edges"]]}


def oracle_roundtrip(R, g: Dict[str, Any], mode: Tuple[bool, bool, bool, bool], tmp: str, repos_list: Optional[List[Any]] = None,
                     second_modes: Optional[List[Any]] = None) -> Optional[str]:
    """The property statement on the real code only: write the graph, load the text, compare pins, hashes, URLs and the
    project-requirer edges with the graph that was written; and ask pip.  With second_modes: feed the file back (compile the
    same inputs against it alone) and write it again under each of those option sets - every one must be written and read
    back with the same pins.  Returns a reason when violated."""
    multi, hashes, urls, annotate = mode
    repos_list = repos_list or [R.FakeRepo("main"), R.FakeRepo("second")]
    repo = R.MultiRepository(repos_list)
    coll, roots, root_infos = materialise(R, g, repos_list)
    text = real_write(R, coll, roots, root_infos, repo, multi, hashes, urls, annotate)
    path = os.path.join(tmp, "oracle-solution.txt")
    real = real_load(R, text, path)
    if real["status"] != "OK":
        return "the written file is rejected by the loader: " + real["status"]
    norm = R.utils.normalize_project_name
    want_pins = {}
    want_edges = []
    for node in coll.visit_nodes(roots):
        md = node.metadata
        if md is None or md.meta:
            continue
        link = md.candidate.link
        want_pins[node.key] = (md.name, str(md.version), (md.hash or None) if hashes else None,
                               full_link(R, link) if (urls and link is not None) else None)
        for rdep in node.reverse_deps:
            if rdep.metadata is None:
                continue
            rn = rdep.metadata.name
            reqs = set(rdep.metadata.requires())
            for extra in rdep.extras:
                reqs |= set(rdep.metadata.requires(extra=extra))
            for rq in reqs:
                if norm(rq.project_name) == node.key:
                    mex = tuple(sorted(m[2].value.strip().lower() for m in (rq.marker._markers if rq.marker else [])
                                       if isinstance(m, tuple) and m[0].value == "extra" and m[1].value == "=="))
                    # inputs (file paths) are requirers the loader keeps no node for; the test is made on the
                    # requirer as written, i.e. with its marker extras in brackets
                    rtext = rn + ("[" + ",".join(mex) + "]" if mex else "")
                    if rdep.metadata.meta and (rtext.endswith(".txt") or rtext.endswith(".out") or "/" in rtext or "\\" in rtext):
                        continue
                    want_edges.append((norm(rn), md.name, tuple(sorted(e.lower() for e in rq.extras)), str(rq.specifier), mex))
    got_pins = {k: (p["name"], p["version"], p["hash"], p["url"]) for k, p in real["pins"].items()}
    if got_pins != want_pins:
        diff = [k for k in set(got_pins) | set(want_pins) if got_pins.get(k) != want_pins.get(k)]
        return f"pins differ after the round trip for {sorted(diff)[:3]}: wrote {[want_pins.get(k) for k in sorted(diff)[:3]]} read {[got_pins.get(k) for k in sorted(diff)[:3]]}"
    if sorted(set(want_edges)) != sorted(set(real["edges"])):
        a, b = set(want_edges), set(real["edges"])
        return f"requirer->project edges differ after the round trip: lost {sorted(a - b)[:3]} gained {sorted(b - a)[:3]}"
    try:
        with open(path, "w", encoding="utf-8", newline="") as fh:
            fh.write(text)
        pp = pip_parse(path)
    except Exception as ex:  # noqa: BLE001
        return "pip rejects the file: " + str(ex)[:100]
    if pp is not None:
        want = sorted((v[0] + "==" + v[1], [v[2]] if v[2] else []) for v in want_pins.values())
        if sorted(pp) != want:
            return "pip reads different pins/hashes"
    for b in (second_modes or []):
        b = tuple(b)
        try:
            sol, infos, results, roots2 = second_compile(R, g, text, path)
        except Exception as ex:  # noqa: BLE001
            return "the written file cannot be compiled against: " + type(ex).__name__
        try:
            text2 = real_write(R, results, roots2, infos, sol, *b)
        except Exception as ex:  # noqa: BLE001
            return f"the file written under {list(mode)} is fed back and {list(b)} is asked for: the writer raises {type(ex).__name__}: {str(ex)[:80]}"
        real2 = real_load(R, text2, path)
        if real2["status"] != "OK":
            return f"second run under {list(b)}: the written file is rejected by the loader: " + real2["status"]
        want2 = {k: (v[0], v[1], v[2] if b[1] else None, v[3] if b[2] else None) for k, v in want_pins.items()}
        got2 = {k: (p["name"], p["version"], p["hash"], p["url"]) for k, p in real2["pins"].items()}
        if got2 != want2:
            diff = sorted(k for k in set(got2) | set(want2) if got2.get(k) != want2.get(k))[:3]
            return f"second run under {list(b)}: pins differ for {diff}: expected {[want2.get(k) for k in diff]} read {[got2.get(k) for k in diff]}"
    return None


def graph_in_guard(R, g: Dict[str, Any], mode) -> bool:
    """Cheap Python rendering of the theorems' guard, used by the oracle search to prefer inputs inside it."""
    multi, hashes, urls, annotate = mode
    multi = spec_multi(multi, hashes, urls)
    for p in g["projects"]:
        if p["hash"] == "" or "--hash" in p["name"]:
            return False
        if p["link"] is not None:
            u = full_link(R, p["link"])
            base = u.split("#")[0]
            if " " in u or u.startswith("via") or not (base.startswith(("http://", "https://")) or base.endswith((".whl", ".gz", ".tgz", ".zip", ".tar", ".bz2"))):
                return False
            if "#via" in u or u.count("#") > 1:
                return False
        for rq in p["reqs"]:
            if rq.count('extra ==') > 1:
                return False
    for p in g["projects"]:
        nm = p["name"]
        if nm.endswith((".txt", ".out")) or "/" in nm or "\\" in nm:
            return False     # a project the loader takes for an input file: no edges from it (known finding)
    names = [p["name"] for p in g["projects"]] + [r["name"] for r in g["roots"]]
    for nm in names:
        is_path = nm.endswith((".txt", ".out")) or "/" in nm or "\\" in nm
        if not is_path and SEP_RUN.search(nm):
            return False
        if nm.endswith((".whl", ".gz", ".tgz", ".zip", ".tar", ".bz2")) or nm.startswith(("http://", "https://")) or " " in nm or "#" in nm:
            return False
        if not multi and not annotate and nm == "via":
            return False     # "# via (>1)" cannot be told from pip-compile's "# via x" layout (known, design)
    return True


def search(ctx: Ctx) -> Optional[Dict[str, Any]]:
    R = _imports()
    rng = ctx.rng
    tmp = str(ctx.tmpdir())
    suspects: List[Tuple[Dict[str, Any], Any]] = []
    for mm in ctx.mismatches:
        c = mm.get("case")
        if isinstance(c, dict) and "graph" in c:
            o = c["opts"]
            suspects.append((c["graph"], (o["multi"], o["hashes"], o["urls"], o["annot"] is not None),
                             [c["second"]] if c.get("second") else [rng.choice(ALL_MODES)]))
    for _ in range(ctx.n(2500, 20000)):
        suspects.append((gen_graph(rng, R), rng.choice(ALL_MODES), [rng.choice(ALL_MODES)]))
    for g, mode, second in suspects:
        try:
            if not graph_in_guard(R, g, tuple(mode)) or not all(graph_in_guard(R, g, tuple(b)) for b in second):
                continue
            why = oracle_roundtrip(R, g, tuple(mode), tmp, second_modes=second)
        except Exception as ex:  # noqa: BLE001
            why = None
        if why:
            return {"kind": "graph", "input": {"graph": g, "mode": list(mode), "second": [list(b) for b in second]}, "why": why}
    return None


def replay(ctx: Ctx, payload: Dict[str, Any]) -> bool:
    R = _imports()
    fi = payload.get("failing_input")
    if not fi:
        return False
    return oracle_roundtrip(R, fi["input"]["graph"], tuple(fi["input"]["mode"]), str(ctx.tmpdir()),
                            second_modes=fi["input"].get("second")) is not None


def replay_known(ctx: Ctx, entry: Dict[str, Any]) -> Optional[bool]:
    R = _imports()
    path = common.VERIF / entry["replay"]
    e = json.loads(path.read_text())
    why = oracle_roundtrip(R, e["graph"], tuple(e["mode"]), str(ctx.tmpdir()), second_modes=e.get("second"))
    return why is not None

"""T1 readers for C11 (fail-closed).  Method: navigate the AST of the anchored functions to the
parameters the Coq model is built from (regex texts, prefixes, split/partition separators and
indices, first-wins guards, strip calls, reversal of the name list, exception handlers), then
re-render the whole function from a template filled with exactly those parameters and require
`ast.dump` equality with the (docstring/LOG/annotation-stripped) source.  So any change of the
function that is not a change of a parameter is an unrecognised shape (TranslateError), and a
change of a parameter changes gen/WheelC11Consts.v, on which the model and the proofs depend."""
from __future__ import annotations

import ast
import copy
from typing import Any, Dict, List, Tuple

import translate as T
from translate import TranslateError


class _Strip(ast.NodeTransformer):
    """drop annotations, docstrings, LOG.* calls"""

    def visit_FunctionDef(self, node: ast.FunctionDef) -> Any:
        self.generic_visit(node)
        node.returns = None
        node.type_comment = None
        for a in node.args.args + node.args.kwonlyargs + node.args.posonlyargs:
            a.annotation = None
        node.body = [s for s in node.body if not _is_noise(s)] or [ast.Pass()]
        return node

    def _body(self, node: Any) -> Any:
        self.generic_visit(node)
        for fld in ("body", "orelse", "finalbody"):
            if hasattr(node, fld) and isinstance(getattr(node, fld), list):
                setattr(node, fld, [s for s in getattr(node, fld) if not _is_noise(s)])
        return node

    visit_For = visit_If = visit_With = visit_Try = visit_ExceptHandler = _body

    def visit_AnnAssign(self, node: ast.AnnAssign) -> Any:
        self.generic_visit(node)
        if node.value is None:
            return None
        return ast.Assign(targets=[node.target], value=node.value)


def _is_noise(s: ast.stmt) -> bool:
    if isinstance(s, ast.Expr):
        v = s.value
        if isinstance(v, ast.Constant) and isinstance(v.value, str):
            return True
        if isinstance(v, ast.Call) and isinstance(v.func, ast.Attribute) and isinstance(v.func.value, ast.Name) and v.func.value.id == "LOG":
            return True
    return False


def _norm_func(rel: str, name: str) -> ast.FunctionDef:
    f = copy.deepcopy(T.func(T.parse(rel), name))
    f = _Strip().visit(f)
    ast.fix_missing_locations(f)
    return f


def _same(f: ast.AST, template_src: str, what: str) -> None:
    try:
        t = ast.parse(template_src).body[0]
    except SyntaxError as ex:
        raise TranslateError(f"{what}: template does not parse ({ex})")
    t = _Strip().visit(t)
    if ast.dump(f) != ast.dump(t):
        raise TranslateError(f"{what}: source no longer has the shape the C11 model transcribes")


def _const_str(node: ast.AST, what: str) -> str:
    if isinstance(node, ast.Constant) and isinstance(node.value, str):
        return node.value
    raise TranslateError(f"{what}: expected a string literal")


def _const_int(node: ast.AST, what: str) -> int:
    if isinstance(node, ast.Constant) and isinstance(node.value, int) and not isinstance(node.value, bool) and node.value >= 0:
        return node.value
    raise TranslateError(f"{what}: expected a non-negative int literal")


# ---------------------------------------------------------------------------------------------
# _parse_flat_metadata

def _extr(node: ast.AST, what: str) -> Tuple[str, str, int, List[str]]:
    """line.split(":")[1].strip() -> ("split", ":", 1, ["strip"])"""
    post: List[str] = []
    while isinstance(node, ast.Call) and isinstance(node.func, ast.Attribute) and not node.args and not node.keywords:
        post.append(node.func.attr)
        node = node.func.value
    post.reverse()
    if not (isinstance(node, ast.Subscript) and isinstance(node.value, ast.Call) and isinstance(node.value.func, ast.Attribute)
            and isinstance(node.value.func.value, ast.Name) and node.value.func.value.id == "line"
            and len(node.value.args) == 1 and not node.value.keywords):
        raise TranslateError(f"{what}: not line.<split|partition>(sep)[i]")
    meth = node.value.func.attr
    if meth not in ("split", "partition"):
        raise TranslateError(f"{what}: method {meth}")
    sep = _const_str(node.value.args[0], what)
    idx = _const_int(node.slice, what)
    if any(p != "strip" for p in post) or len(post) > 1:
        raise TranslateError(f"{what}: post-processing {post}")
    return meth, sep, idx, post


def _render_extr(e: Tuple[str, str, int, List[str]]) -> str:
    meth, sep, idx, post = e
    return f"line.{meth}({sep!r})[{idx}]" + "".join(f".{p}()" for p in post)


def read_parser() -> Dict[str, Any]:
    rel = "req_compile/metadata/dist_info.py"
    f = _norm_func(rel, "_parse_flat_metadata")
    loops = [s for s in f.body if isinstance(s, ast.For)]
    if len(loops) != 2:
        raise TranslateError("_parse_flat_metadata: expected the unfolding pre-pass and the field loop")
    pre, loop = loops
    it = pre.iter
    if not (isinstance(it, ast.Call) and isinstance(it.func, ast.Attribute) and it.func.attr == "split" and len(it.args) == 1):
        raise TranslateError("_parse_flat_metadata: pre-pass is not over contents.split(sep)")
    line_sep = _const_str(it.args[0], "line separator")
    # the pre-pass: `if lines and line[:1] in (<ws>...): lines[-1] = lines[-1].rstrip(<chars>) + line else: lines.append(line)`
    cont_chars = None
    rstrip_chars = None
    for node in ast.walk(pre):
        if isinstance(node, ast.Compare) and len(node.ops) == 1 and isinstance(node.ops[0], ast.In) and isinstance(node.comparators[0], ast.Tuple):
            cont_chars = [_const_str(e, "continuation character") for e in node.comparators[0].elts]
        if isinstance(node, ast.Call) and isinstance(node.func, ast.Attribute) and node.func.attr == "rstrip" and len(node.args) == 1:
            rstrip_chars = _const_str(node.args[0], "rstrip characters")
    if not cont_chars or rstrip_chars is None:
        raise TranslateError("_parse_flat_metadata: unfolding pre-pass not recognised")
    if not (isinstance(loop.iter, ast.Name) and loop.iter.id == "lines"):
        raise TranslateError("_parse_flat_metadata: the field loop is not over the unfolded lines")
    branches: List[Dict[str, Any]] = []
    node: Any = loop.body[-1] if loop.body else None
    while isinstance(node, ast.If):
        test = node.test
        first_wins = None
        if isinstance(test, ast.BoolOp) and isinstance(test.op, ast.And) and len(test.values) == 2:
            g, test = test.values
            if not (isinstance(g, ast.Compare) and isinstance(g.left, ast.Name) and len(g.ops) == 1 and isinstance(g.ops[0], ast.Is)
                    and isinstance(g.comparators[0], ast.Constant) and g.comparators[0].value is None):
                raise TranslateError("branch guard is not `<var> is None`")
            first_wins = g.left.id
        if not (isinstance(test, ast.Call) and isinstance(test.func, ast.Attribute) and test.func.attr == "startswith"
                and isinstance(test.func.value, ast.Name) and test.func.value.id == "lower_line" and len(test.args) == 1):
            raise TranslateError("branch test is not lower_line.startswith(prefix)")
        prefix = _const_str(test.args[0], "prefix")
        if len(node.body) != 1:
            raise TranslateError("branch body is not a single statement")
        st = node.body[0]
        if isinstance(st, ast.Assign) and len(st.targets) == 1 and isinstance(st.targets[0], ast.Name):
            target = st.targets[0].id
            val = st.value
            wrap = None
            if isinstance(val, ast.Call) and isinstance(val.func, ast.Attribute) and isinstance(val.func.value, ast.Name) and val.func.value.id == "utils":
                wrap = val.func.attr
                if len(val.args) != 1 or val.keywords:
                    raise TranslateError("utils wrapper with several arguments")
                val = val.args[0]
            e = _extr(val, "branch " + target)
            branches.append({"target": target, "mode": "assign", "first_wins": first_wins, "prefix": prefix, "extr": e, "wrap": wrap})
        elif (isinstance(st, ast.Expr) and isinstance(st.value, ast.Call) and isinstance(st.value.func, ast.Attribute)
              and st.value.func.attr == "append" and isinstance(st.value.func.value, ast.Name) and len(st.value.args) == 1):
            target = st.value.func.value.id
            e = _extr(st.value.args[0], "branch " + target)
            branches.append({"target": target, "mode": "append", "first_wins": first_wins, "prefix": prefix, "extr": e, "wrap": None})
        else:
            raise TranslateError("unrecognised branch body")
        if len(node.orelse) == 0:
            node = None
        elif len(node.orelse) == 1:
            node = node.orelse[0]
        else:
            raise TranslateError("else with several statements")
    if not branches:
        raise TranslateError("no branches found")
    # re-render and compare
    src = ["def _parse_flat_metadata(contents):", "    name = None", "    version = None", "    raw_reqs = []",
           "    lines = []",
           f"    for line in contents.split({line_sep!r}):",
           f"        if lines and line[:1] in ({', '.join(repr(c) for c in (cont_chars or []))},):",
           f"            lines[-1] = lines[-1].rstrip({rstrip_chars!r}) + line",
           "        else:",
           "            lines.append(line)",
           "    for line in lines:", "        lower_line = line.lower()"]
    for i, b in enumerate(branches):
        kw = "if" if i == 0 else "elif"
        guard = f"{b['first_wins']} is None and " if b["first_wins"] else ""
        src.append(f"        {kw} {guard}lower_line.startswith({b['prefix']!r}):")
        ex = _render_extr(b["extr"])
        if b["wrap"]:
            ex = f"utils.{b['wrap']}({ex})"
        src.append(f"            {b['target']} = {ex}" if b["mode"] == "assign" else f"            {b['target']}.append({ex})")
    src += ["    if name is None:",
            "        raise MetadataError('unknown', version, ValueError('Missing name metadata for package'))",
            "    return DistInfo(name, version, list(utils.parse_requirements(raw_reqs)))"]
    _same(f, "\n".join(src) + "\n", "_parse_flat_metadata")
    # roles the model knows
    roles = {"name": "TName", "version": "TVersion", "raw_reqs": "TReq"}
    for b in branches:
        if b["target"] not in roles:
            raise TranslateError(f"unknown target {b['target']}")
        if b["first_wins"] not in (None, b["target"]):
            raise TranslateError("first-wins guard on another variable")
        if (b["target"] == "raw_reqs") != (b["mode"] == "append"):
            raise TranslateError("assign/append role mismatch")
        if b["wrap"] not in (None, "parse_version") or (b["wrap"] == "parse_version") != (b["target"] == "version"):
            raise TranslateError("parse_version wrapper is not exactly on the version branch")
        b["role"] = roles[b["target"]]
    return {"line_sep": line_sep, "branches": branches, "cont_chars": cont_chars, "rstrip_chars": rstrip_chars}


# ---------------------------------------------------------------------------------------------
# _find_dist_info_metadata / _fetch_from_wheel

def read_finder() -> Dict[str, Any]:
    rel = "req_compile/metadata/dist_info.py"
    f = _norm_func(rel, "_find_dist_info_metadata")
    loops = [s for s in f.body if isinstance(s, ast.For)]
    if len(loops) != 1 or not isinstance(loops[0].iter, ast.Tuple):
        raise TranslateError("_find_dist_info_metadata: expected `for best_match in (<regex>, ...)`")
    regexes: List[Tuple[str, bool]] = []
    parts = []
    for el in loops[0].iter.elts:
        if (isinstance(el, ast.Call) and isinstance(el.func, ast.Attribute) and el.func.attr == "format"
                and len(el.args) == 1 and not el.keywords):
            if ast.unparse(el.args[0]) != "re.escape(project_name)":
                raise TranslateError("regex template is not filled with re.escape(project_name)")
            s = _const_str(el.func.value, "regex template")
            regexes.append((s, True))
            parts.append(f"{s!r}.format(re.escape(project_name))")
        else:
            s = _const_str(el, "regex")
            regexes.append((s, False))
            parts.append(repr(s))
    src = ("def _find_dist_info_metadata(project_name, namelist):\n"
           f"    for best_match in ({', '.join(parts)},):\n"
           "        for info in namelist:\n"
           "            if re.match(best_match, info):\n"
           "                return info\n"
           "    return None\n")
    _same(f, src, "_find_dist_info_metadata")

    g = _norm_func(rel, "_fetch_from_wheel")
    # parameters: split separator/index of the project name, reversed(), decode arguments, handler classes
    found: Dict[str, Any] = {}
    for node in ast.walk(g):
        if isinstance(node, ast.Assign) and isinstance(node.targets[0], ast.Name) and node.targets[0].id == "project_name":
            v = node.value
            if not (isinstance(v, ast.Subscript) and isinstance(v.value, ast.Call) and isinstance(v.value.func, ast.Attribute) and v.value.func.attr == "split"):
                raise TranslateError("project_name is not <basename>.split(sep)[i]")
            found["psep"] = _const_str(v.value.args[0], "project split separator")
            found["pidx"] = _const_int(v.slice, "project split index")
        if isinstance(node, ast.Assign) and isinstance(node.targets[0], ast.Name) and node.targets[0].id == "infos":
            v = node.value
            found["reversed"] = (isinstance(v, ast.Call) and isinstance(v.func, ast.Name) and v.func.id == "list" and len(v.args) == 1
                                 and isinstance(v.args[0], ast.Call) and isinstance(v.args[0].func, ast.Name) and v.args[0].func.id == "reversed")
        if isinstance(node, ast.Call) and isinstance(node.func, ast.Attribute) and node.func.attr == "decode":
            found["decode"] = [_const_str(a, "decode argument") for a in node.args]
        if isinstance(node, ast.ExceptHandler):
            t = node.type
            found.setdefault("handlers", []).append(ast.unparse(t) if t is not None else "*")
    for k in ("psep", "pidx", "reversed", "decode", "handlers"):
        if k not in found:
            raise TranslateError(f"_fetch_from_wheel: {k} not found")
    infos = "list(reversed(zfile.namelist()))" if found["reversed"] else "list(zfile.namelist())"
    if not found["reversed"]:
        # only these two shapes are understood
        for node in ast.walk(g):
            if isinstance(node, ast.Assign) and isinstance(node.targets[0], ast.Name) and node.targets[0].id == "infos":
                if ast.unparse(node.value) != infos:
                    raise TranslateError("infos assignment")
    dec = ", ".join(repr(a) for a in found["decode"])
    src = ("def _fetch_from_wheel(wheel):\n"
           f"    project_name = os.path.basename(wheel).split({found['psep']!r})[{found['pidx']}]\n"
           "    result = None\n"
           "    zfile = None\n"
           "    try:\n"
           "        zfile = zipfile.ZipFile(wheel, 'r')\n"
           "        with closing(zfile):\n"
           f"            infos = {infos}\n"
           "            result = _find_dist_info_metadata(project_name, infos)\n"
           "            if result is not None:\n"
           f"                return _parse_flat_metadata(zfile.read(result).decode({dec}))\n"
           f"    except {found['handlers'][0]} as ex:\n"
           "        pass\n"
           "    return None\n")
    # the handler body is only a LOG call, which _Strip removed: put `pass` back for comparison
    for node in ast.walk(g):
        if isinstance(node, ast.ExceptHandler) and not node.body:
            node.body = [ast.Pass()]
    _same(g, src, "_fetch_from_wheel")
    if len(found["handlers"]) != 1:
        raise TranslateError("_fetch_from_wheel: several handlers")
    return {"regexes": regexes, **found}


# ---------------------------------------------------------------------------------------------
# extract_metadata: the .whl branch and the tail

def read_extract() -> Dict[str, Any]:
    rel = "req_compile/metadata/metadata.py"
    f = _norm_func(rel, "extract_metadata")
    chain = None
    tail: List[ast.stmt] = []
    for i, s in enumerate(f.body):
        if isinstance(s, ast.If) and isinstance(s.test, ast.Compare) and isinstance(s.test.left, ast.Name) and s.test.left.id == "ext":
            chain = s
            tail = f.body[i + 1:]
            break
    if chain is None:
        raise TranslateError("extract_metadata: `if ext == ...` chain not found")
    if not (len(chain.test.ops) == 1 and isinstance(chain.test.ops[0], ast.Eq)):
        raise TranslateError("extract_metadata: first branch is not `ext == <literal>`")
    whl_ext = _const_str(chain.test.comparators[0], "wheel extension")
    body_src = ast.unparse(ast.Module(body=chain.body, type_ignores=[]))
    want = ("try:\n    result = _fetch_from_wheel(filename)\nexcept zipfile.BadZipfile as ex:\n"
            "    raise MetadataError(os.path.basename(filename).replace('.whl', ''), parse_version('0.0'), ex)")
    if ast.dump(ast.parse(body_src)) != ast.dump(ast.parse(want)):
        raise TranslateError("extract_metadata: the wheel branch changed shape")
    tail_src = ast.unparse(ast.Module(body=tail, type_ignores=[]))
    want_tail = ("if result is None:\n"
                 "    result = _fetch_from_source(os.path.abspath(filename), NonExtractor, run_setup_py=allow_run_setup_py)\n"
                 "if result is not None:\n    result.origin = origin\n"
                 "if result is None:\n    raise MetadataError(basename, None, ValueError('Could not extract metadata'))\n"
                 "result.setup_reqs.extend(setup_requires)\nreturn result")
    if ast.dump(ast.parse(tail_src)) != ast.dump(ast.parse(want_tail)):
        raise TranslateError("extract_metadata: the statements after the extension chain changed shape")
    # ext is lower-cased before the comparison
    lowered = any(isinstance(s, ast.Assign) and ast.unparse(s) == "ext = ext.lower()" for s in f.body)
    return {"whl_ext": whl_ext, "ext_lowered": lowered}


# ---------------------------------------------------------------------------------------------
# utils.parse_requirements

def read_parse_requirements() -> Dict[str, Any]:
    rel = "req_compile/utils.py"
    f = _norm_func(rel, "parse_requirements")
    p: Dict[str, Any] = {}
    for node in ast.walk(f):
        if isinstance(node, ast.Assign) and isinstance(node.targets[0], ast.Name) and node.targets[0].id == "req":
            base, chain = T.method_chain(node.value)
            if not (isinstance(base, ast.Name) and base.id == "req"):
                raise TranslateError("parse_requirements: req = <other>")
            p["chain"] = chain
        if isinstance(node, ast.Compare) and isinstance(node.left, ast.Subscript) and isinstance(node.left.value, ast.Name) and node.left.value.id == "req":
            p["first_idx"] = _const_int(node.left.slice, "req[i]")
            p["first_char"] = _const_str(node.comparators[0], "comment char")
        if isinstance(node, ast.Call) and isinstance(node.func, ast.Attribute) and node.func.attr == "startswith" and isinstance(node.func.value, ast.Name) and node.func.value.id == "req":
            p["skip_prefix"] = _const_str(node.args[0], "skipped prefix")
    for k in ("chain", "first_idx", "first_char", "skip_prefix"):
        if k not in p:
            raise TranslateError(f"parse_requirements: {k} not found")
    chain = p["chain"]
    if [m for m, _ in chain] != ["strip", "rstrip"] or chain[0][1] != [] or len(chain[1][1]) != 1 or not isinstance(chain[1][1][0], str):
        raise TranslateError(f"parse_requirements: normalisation chain {chain}")
    p["rstrip_chars"] = chain[1][1][0]
    if p["first_idx"] != 0:
        raise TranslateError("parse_requirements: comment test is not on req[0]")
    src = ("def parse_requirements(reqs):\n"
           "    for req in reqs:\n"
           f"        req = req.strip().rstrip({p['rstrip_chars']!r})\n"
           "        if '\\n' in req:\n"
           "            for inner_req in parse_requirements(req.split('\\n')):\n"
           "                yield inner_req\n"
           "        else:\n"
           "            if not req:\n"
           "                continue\n"
           f"            if req[0] == {p['first_char']!r} or req.startswith({p['skip_prefix']!r}):\n"
           "                continue\n"
           "            result = parse_requirement(req)\n"
           "            if result is not None:\n"
           "                yield result\n")
    _same(f, src, "parse_requirements")
    g = _norm_func(rel, "parse_requirement")
    src = ("@lru_cache(maxsize=None)\n"
           "def parse_requirement(req_text):\n"
           "    req_text = req_text.strip()\n"
           "    if not req_text:\n"
           "        raise ValueError('No requirement given')\n"
           "    if req_text[0] == '#':\n"
           "        raise CommentError\n"
           "    return pkg_resources.Requirement.parse(req_text)\n")
    _same(g, src, "parse_requirement")
    return p


# ---------------------------------------------------------------------------------------------

def _coq_bytes(s: str) -> str:
    """Coq string term for arbitrary text (utf-8 bytes)."""
    b = s.encode("utf-8")
    parts: List[str] = []
    cur: List[str] = []
    for ch in b:
        if 32 <= ch < 127 and ch != 34:
            cur.append(chr(ch))
        else:
            if cur:
                parts.append('"' + "".join(cur) + '"')
                cur = []
            parts.append(f"String (ascii_of_nat {ch}) EmptyString")
    if cur:
        parts.append('"' + "".join(cur) + '"')
    if not parts:
        return '""'
    return "(" + " ++ ".join(f"({p})" if p.startswith("String") else p for p in parts) + ")"


def _single_byte(s: str, what: str) -> str:
    b = s.encode("utf-8")
    if len(b) != 1:
        raise TranslateError(f"{what}: separator {s!r} is not a single byte")
    return f"(ascii_of_nat {b[0]})"


def generate() -> str:
    par = read_parser()
    fin = read_finder()
    ext = read_extract()
    pr = read_parse_requirements()
    out = [T.HEADER.rstrip("\n"),
           "(* C11: constants and shapes read from req_compile/metadata/dist_info.py, metadata.py, utils.py *)",
           "Inductive c11_extr := ExSplit (sep : ascii) (idx : nat) | ExPartition (sep : ascii) (idx : nat).",
           "Inductive c11_target := TName | TVersion | TReq.",
           "Record c11_branch := mkBranch { b_target : c11_target; b_first_wins : bool; b_prefix : string; b_extr : c11_extr; b_strip : bool }.",
           ""]
    out.append(f"Definition c11_line_sep : ascii := {_single_byte(par['line_sep'], 'line separator')}.")
    brs = []
    for b in par["branches"]:
        meth, sep, idx, post = b["extr"]
        e = f"{'ExSplit' if meth == 'split' else 'ExPartition'} {_single_byte(sep, 'separator')} {idx}"
        brs.append(f"mkBranch {b['role']} {'true' if b['first_wins'] else 'false'} {_coq_bytes(b['prefix'])} ({e}) {'true' if post == ['strip'] else 'false'}")
    out.append("Definition c11_cont_chars : list ascii := " + T.coq_list([_single_byte(c, "continuation character") for c in par["cont_chars"]]) + ".")
    out.append(f"Definition c11_unfold_rstrip : string := {_coq_bytes(par['rstrip_chars'])}.")
    out.append("Definition c11_branches : list c11_branch :=\n  [ " + ";\n    ".join(brs) + " ].")
    out.append("(* (regex source text, formatted with re.escape(project name)?) in the order tried *)")
    out.append("Definition c11_regexes : list (string * bool) :=\n  [ " + ";\n    ".join(
        f"({_coq_bytes(s)}, {'true' if fm else 'false'})" for s, fm in fin["regexes"]) + " ].")
    out.append(f"Definition c11_project_sep : ascii := {_single_byte(fin['psep'], 'project separator')}.")
    out.append(f"Definition c11_project_idx : nat := {fin['pidx']}.")
    out.append(f"Definition c11_namelist_reversed : bool := {'true' if fin['reversed'] else 'false'}.")
    out.append("Definition c11_decode_args : list string := " + T.coq_list([_coq_bytes(a) for a in fin["decode"]]) + ".")
    out.append("Definition c11_fetch_handlers : list string := " + T.coq_list([_coq_bytes(a) for a in fin["handlers"]]) + ".")
    out.append(f"Definition c11_whl_ext : string := {_coq_bytes(ext['whl_ext'])}.")
    out.append(f"Definition c11_ext_lowered : bool := {'true' if ext['ext_lowered'] else 'false'}.")
    out.append(f"Definition c11_req_rstrip_chars : string := {_coq_bytes(pr['rstrip_chars'])}.")
    out.append(f"Definition c11_req_comment_char : string := {_coq_bytes(pr['first_char'])}.")
    out.append(f"Definition c11_req_skip_prefix : string := {_coq_bytes(pr['skip_prefix'])}.")
    return "\n".join(out) + "\n"

"""T1 readers for C20 (fail-closed).  Reads out of /repo's current source:

  req_compile/repos/repository.py
    INTERPRETER_TAGS, LEGACY_ALIASES (dict literals), MANYLINUX_REGEX (string literal),
    DistributionType members and values, the order of the tuple built in Candidate.sortkey,
    the order of the tuple returned by Candidate.tag_score, the impl_score_defaults table and
    the shift constants of _py_version_score, the order (and guards) of the tests of
    check_usability, whether _check_abi_compatibility and tag_score's abi_score treat the ABI
    field as one string or as a dot-separated tag set (commit c54d5f0); how
    manylinux_tag_is_compatible_with_this_system and tag_score re-spell legacy manylinux tags (not at all /
    LEGACY_ALIASES table / _normalize_manylinux + LEGACY_MANYLINUX prefix table, whose body is matched literally);
    whether the platform "any" resets plat_score or takes the maximum; the file-name element of sortkey.

and writes coq/gen/ConstsC20.v.  The model (model/TagsC20.v) interprets these definitions; the
obligations the theorems need about them are in proofs/TagsC20P.v (section "generated constants").
"""
from __future__ import annotations

import ast
from typing import Any, Dict, List, Tuple

import translate as T
from translate import TranslateError

REL = "req_compile/repos/repository.py"


def _dict_of_strs(mod: ast.Module, name: str) -> List[Tuple[str, str]]:
    node = T.module_const(mod, name)
    if not isinstance(node, ast.Dict):
        raise TranslateError(f"{name} is not a dict literal")
    out = []
    for k, v in zip(node.keys, node.values):
        if k is None:
            raise TranslateError(f"{name}: dict unpacking")
        kk, vv = T.literal(k), T.literal(v)
        if not isinstance(kk, str) or not isinstance(vv, str):
            raise TranslateError(f"{name}: non-string entry")
        out.append((kk, vv))
    if len({k for k, _ in out}) != len(out):
        raise TranslateError(f"{name}: duplicate key")
    return out


def _method(cls: ast.ClassDef, name: str) -> ast.FunctionDef:
    for node in cls.body:
        if isinstance(node, ast.FunctionDef) and node.name == name:
            return node
    raise TranslateError(f"method {cls.name}.{name} not found")


def _self_attr(node: ast.expr) -> str:
    """self.a.b -> 'a.b'"""
    parts: List[str] = []
    while isinstance(node, ast.Attribute):
        parts.append(node.attr)
        node = node.value
    if not (isinstance(node, ast.Name) and node.id == "self"):
        raise TranslateError("sortkey element is not an attribute of self: " + ast.dump(node)[:120])
    return ".".join(reversed(parts))


SORT_FIELDS = {"version": "FVersion", "extra_sort_info": "FExtra", "type.value": "FType", "tag_score": "FTagScore"}
SCORE_FIELDS = {"py_version_score": "TPy", "plat_score": "TPlat", "abi_score": "TAbi", "extra_score": "TExtra"}
REASONS = {
    "WRONG_PYTHON_VERSION": "WrongPython", "WRONG_ABI": "WrongAbi", "WRONG_PLATFORM": "WrongPlatform",
    "IS_PRERELEASE": "IsPrerelease", "VERSION_NO_SATISFY": "VersionNoSatisfy",
}
DIST = {"SOURCE": "Source", "WHEEL": "Wheel", "SDIST": "Sdist"}


def read_sortkey(mod: ast.Module) -> List[str]:
    f = _method(T.klass(mod, "Candidate"), "sortkey")
    tuples = [n.value for n in ast.walk(f) if isinstance(n, ast.Assign) and len(n.targets) == 1
              and isinstance(n.targets[0], ast.Attribute) and n.targets[0].attr == "_sortkey"]
    if len(tuples) != 1 or not isinstance(tuples[0], ast.Tuple):
        raise TranslateError("Candidate.sortkey: expected exactly one `self._sortkey = (...)`")
    rets = [n for n in ast.walk(f) if isinstance(n, ast.Return)]
    if len(rets) != 1 or _self_attr(rets[0].value) != "_sortkey":
        raise TranslateError("Candidate.sortkey: expected `return self._sortkey`")
    out = []
    for e in tuples[0].elts:
        if isinstance(e, ast.IfExp):
            # the file name as the last resort tie breaker (fix of C20-rank-tie)
            if ast.unparse(e) != "self.filename if isinstance(self.filename, str) else ''":
                raise TranslateError("Candidate.sortkey: unknown conditional element " + ast.unparse(e))
            out.append("FFilename")
            continue
        a = _self_attr(e)
        if a not in SORT_FIELDS:
            raise TranslateError(f"Candidate.sortkey: unknown field self.{a}")
        out.append(SORT_FIELDS[a])
    return out


def read_sort_call(mod: ast.Module) -> bool:
    """sort_candidates must be `return sorted(candidates, key=lambda x: x.sortkey, reverse=True)`."""
    f = T.func(mod, "sort_candidates")
    rets = [n for n in ast.walk(f) if isinstance(n, ast.Return)]
    if len(rets) != 1 or not isinstance(rets[0].value, ast.Call):
        raise TranslateError("sort_candidates: unexpected shape")
    call = rets[0].value
    if not (isinstance(call.func, ast.Name) and call.func.id == "sorted" and len(call.args) == 1):
        raise TranslateError("sort_candidates: not a call of sorted(candidates, ...)")
    kws = {k.arg: k.value for k in call.keywords}
    if set(kws) != {"key", "reverse"}:
        raise TranslateError("sort_candidates: keywords are not key/reverse")
    key = kws["key"]
    if not (isinstance(key, ast.Lambda) and isinstance(key.body, ast.Attribute) and key.body.attr == "sortkey"
            and isinstance(key.body.value, ast.Name) and key.body.value.id == key.args.args[0].arg):
        raise TranslateError("sort_candidates: key is not `lambda x: x.sortkey`")
    rev = T.literal(kws["reverse"])
    if not isinstance(rev, bool):
        raise TranslateError("sort_candidates: reverse is not a boolean literal")
    return rev


def read_tag_score(mod: ast.Module) -> List[str]:
    f = _method(T.klass(mod, "Candidate"), "tag_score")
    rets = [n for n in ast.walk(f) if isinstance(n, ast.Return)]
    if len(rets) != 1 or not isinstance(rets[0].value, ast.Tuple):
        raise TranslateError("Candidate.tag_score: expected a single `return (a, b, c, d)`")
    out = []
    for e in rets[0].value.elts:
        if not isinstance(e, ast.Name) or e.id not in SCORE_FIELDS:
            raise TranslateError("Candidate.tag_score: unknown tuple element " + ast.dump(e)[:80])
        out.append(SCORE_FIELDS[e.id])
    return out


def read_usability(mod: ast.Module) -> List[str]:
    f = T.func(mod, "check_usability")
    out = []
    for st in f.body:
        if isinstance(st, ast.Expr) and isinstance(st.value, ast.Constant):
            continue  # docstring
        if isinstance(st, ast.Return):
            if not (st.value is None or (isinstance(st.value, ast.Constant) and st.value.value is None)):
                raise TranslateError("check_usability: final return is not None")
            continue
        if not (isinstance(st, ast.If) and not st.orelse and len(st.body) == 1 and isinstance(st.body[0], ast.Return)):
            raise TranslateError("check_usability: statement is not `if ...: return CantUseReason.X`")
        r = st.body[0].value
        if not (isinstance(r, ast.Attribute) and isinstance(r.value, ast.Name) and r.value.id == "CantUseReason"
                and r.attr in REASONS):
            raise TranslateError("check_usability: unknown reason " + ast.dump(r)[:80])
        # the guard of each test must mention what the model assumes it mentions
        src = ast.unparse(st.test)
        need = {
            "WRONG_PYTHON_VERSION": ["candidate.py_version is not None", "not candidate.py_version.check_compatibility()"],
            "WRONG_ABI": ["candidate.abi is not None", "not _check_abi_compatibility(candidate.abi)"],
            "WRONG_PLATFORM": ["not _check_platform_compatibility(candidate.platforms)"],
            "IS_PRERELEASE": ["not has_equality", "not allow_prereleases", "candidate.version.is_prerelease"],
            "VERSION_NO_SATISFY": ["req is not None"],
        }[r.attr]
        for frag in need:
            if frag not in src:
                raise TranslateError(f"check_usability: guard of {r.attr} lost `{frag}`: {src}")
        if isinstance(st.test, ast.BoolOp) and not isinstance(st.test.op, ast.And):
            raise TranslateError(f"check_usability: guard of {r.attr} is not a conjunction")
        out.append(REASONS[r.attr])
    if len(set(out)) != len(out):
        raise TranslateError("check_usability: a reason is returned twice")
    return out


def read_dist_types(mod: ast.Module) -> List[Tuple[str, int]]:
    cls = T.klass(mod, "DistributionType")
    out = []
    for st in cls.body:
        if isinstance(st, ast.Expr) and isinstance(st.value, ast.Constant):
            continue
        if not (isinstance(st, ast.Assign) and len(st.targets) == 1 and isinstance(st.targets[0], ast.Name)):
            raise TranslateError("DistributionType: unexpected member statement")
        v = T.literal(st.value)
        if not isinstance(v, int) or isinstance(v, bool):
            raise TranslateError("DistributionType: non-integer value")
        out.append((st.targets[0].id, v))
    if sorted(n for n, _ in out) != sorted(DIST):
        raise TranslateError(f"DistributionType: members are {[n for n, _ in out]}")
    return out


def read_py_score(mod: ast.Module) -> Dict[str, Any]:
    """impl_score_defaults and the three shift amounts of _py_version_score."""
    f = T.func(mod, "_py_version_score")
    defaults = None
    shifts: Dict[str, int] = {}
    for n in ast.walk(f):
        if isinstance(n, ast.Assign) and len(n.targets) == 1 and isinstance(n.targets[0], ast.Name) \
                and n.targets[0].id == "impl_score_defaults":
            d = T.literal(n.value)
            if not isinstance(d, dict) or not all(isinstance(k, str) and isinstance(v, int) for k, v in d.items()):
                raise TranslateError("_py_version_score: impl_score_defaults is not a {str: int} literal")
            defaults = list(d.items())
        if isinstance(n, ast.BinOp) and isinstance(n.op, ast.LShift):
            amount = T.literal(n.right)
            left = ast.unparse(n.left)
            key = {"major": "major", "minor": "minor", "ord(impl[0])": "ord0"}.get(left)
            if key is None or not isinstance(amount, int) or key in shifts:
                raise TranslateError("_py_version_score: unexpected shift " + ast.unparse(n))
            shifts[key] = amount
    if defaults is None or set(shifts) != {"major", "minor", "ord0"}:
        raise TranslateError("_py_version_score: table or shifts not found")
    src = ast.unparse(f)
    for frag in ["impl_score = ord(impl[0]) << %d | ord(impl[1])" % shifts["ord0"],
                 "score = impl_score | major << %d | minor << %d" % (shifts["major"], shifts["minor"]),
                 "impl_score = impl_score_defaults.get(impl)"]:
        if frag not in src:
            raise TranslateError("_py_version_score: expected `" + frag + "`")
    return {"defaults": defaults, "shifts": shifts}


ABI_TEST_SHAPES = {
    # single string comparison (before c54d5f0)
    "return abi in ABI_TAGS": False,
    # PEP 425 compressed tag set (c54d5f0)
    "return any((tag == 'none' or tag in ABI_TAGS for tag in abi.split('.')))": True,
}
ABI_SCORE_SHAPES = {
    ("try:\n    abi_score = ABI_TAGS.index(self.abi) if self.abi is not None else 0\n"
     "except ValueError:\n    abi_score = 0",): False,
    ("abi_score = 0",
     "if self.abi is not None:\n    abi_score = max((ABI_TAGS.index(tag) for tag in self.abi.split('.') "
     "if tag in ABI_TAGS), default=0)"): True,
}


def read_abi_test(mod: ast.Module) -> bool:
    """Is the ABI field compared as one string, or as a dot-separated tag set?"""
    f = T.func(mod, "_check_abi_compatibility")
    body = [st for st in f.body if not (isinstance(st, ast.Expr) and isinstance(st.value, ast.Constant))]
    if [a.arg for a in f.args.args] != ["abi"] or len(body) != 1:
        raise TranslateError("_check_abi_compatibility: unexpected signature/body")
    src = ast.unparse(body[0])
    if src not in ABI_TEST_SHAPES:
        raise TranslateError("_check_abi_compatibility: unrecognised test `" + src + "`")
    return ABI_TEST_SHAPES[src]


def read_abi_score(mod: ast.Module) -> bool:
    """The statements of Candidate.tag_score that assign abi_score: single string or tag set?"""
    f = _method(T.klass(mod, "Candidate"), "tag_score")
    stmts = []
    for st in f.body:
        if any(isinstance(n, ast.Name) and n.id == "abi_score" and isinstance(n.ctx, ast.Store) for n in ast.walk(st)):
            stmts.append(ast.unparse(st))
    key = tuple(stmts)
    if key not in ABI_SCORE_SHAPES:
        raise TranslateError("Candidate.tag_score: unrecognised abi_score computation " + repr(key)[:300])
    return ABI_SCORE_SHAPES[key]


ALIAS_CALLS = {"LEGACY_ALIASES.get({0}, {0})": "ATable", "_normalize_manylinux({0})": "APrefix"}
NORMALIZE_BODY = [
    "legacy, sep, arch = tag.partition('_')",
    "if sep and legacy in LEGACY_MANYLINUX:\n    return LEGACY_MANYLINUX[legacy] + '_' + arch",
    "return tag",
]


def _alias_mode(fn: ast.FunctionDef, var: str) -> str:
    """How the function spells legacy manylinux tags before matching MANYLINUX_REGEX against `var`: not at all,
    through the LEGACY_ALIASES table (full tag -> full tag), or through _normalize_manylinux (prefix table)."""
    modes = []
    match_seen_before = False
    for n in ast.walk(fn):
        if isinstance(n, ast.Assign) and len(n.targets) == 1 and isinstance(n.targets[0], ast.Name) and n.targets[0].id == var:
            src = ast.unparse(n.value)
            for pat, mode in ALIAS_CALLS.items():
                if src == pat.format(var):
                    modes.append((n.lineno, mode))
    matches = [n.lineno for n in ast.walk(fn) if isinstance(n, ast.Call) and ast.unparse(n.func) == "re.match"
               and len(n.args) == 2 and ast.unparse(n.args[0]) == "MANYLINUX_REGEX" and ast.unparse(n.args[1]) == var]
    if len(matches) != 1:
        raise TranslateError(f"{fn.name}: expected exactly one re.match(MANYLINUX_REGEX, {var})")
    if len(modes) > 1:
        raise TranslateError(f"{fn.name}: {var} is re-spelled more than once")
    if modes and modes[0][0] >= matches[0]:
        raise TranslateError(f"{fn.name}: the alias is applied after the regex match")
    return modes[0][1] if modes else "ANone"


def read_alias(mod: ast.Module) -> Dict[str, Any]:
    usab = _alias_mode(T.func(mod, "manylinux_tag_is_compatible_with_this_system"), "tag")
    score = _alias_mode(_method(T.klass(mod, "Candidate"), "tag_score"), "plat")
    table: List[Tuple[str, str]] = []
    if "APrefix" in (usab, score):
        f = T.func(mod, "_normalize_manylinux")
        body = [ast.unparse(st) for st in f.body if not (isinstance(st, ast.Expr) and isinstance(st.value, ast.Constant))]
        if [a.arg for a in f.args.args] != ["tag"] or body != NORMALIZE_BODY:
            raise TranslateError("_normalize_manylinux: unrecognised body " + repr(body)[:300])
        table = _dict_of_strs(mod, "LEGACY_MANYLINUX")
    return {"usability": usab, "score": score, "prefix_table": table}


def read_any_step(mod: ast.Module) -> bool:
    """tag_score, platform "any": does it assign plat_score = 0 (True) or take max(plat_score, 0) (False)?"""
    f = _method(T.klass(mod, "Candidate"), "tag_score")
    found = []
    for n in ast.walk(f):
        if isinstance(n, ast.If) and ast.unparse(n.test) == "plat == 'any'":
            found.append([ast.unparse(st) for st in n.body])
    if len(found) != 1 or len(found[0]) != 2 or found[0][1] != "continue":
        raise TranslateError("Candidate.tag_score: unexpected handling of the platform 'any': " + repr(found)[:200])
    shapes = {"plat_score = 0": True, "plat_score = max(plat_score, 0)": False}
    if found[0][0] not in shapes:
        raise TranslateError("Candidate.tag_score: unexpected statement for 'any': " + found[0][0])
    return shapes[found[0][0]]


def gen_consts() -> str:
    mod = T.parse(REL)
    interp = _dict_of_strs(mod, "INTERPRETER_TAGS")
    legacy = _dict_of_strs(mod, "LEGACY_ALIASES")
    regex = T.literal(T.module_const(mod, "MANYLINUX_REGEX"))
    if not isinstance(regex, str):
        raise TranslateError("MANYLINUX_REGEX is not a string literal")
    sortkey = read_sortkey(mod)
    reverse = read_sort_call(mod)
    tagscore = read_tag_score(mod)
    usab = read_usability(mod)
    dist = read_dist_types(mod)
    pys = read_py_score(mod)
    abi_test = read_abi_test(mod)
    abi_score = read_abi_score(mod)
    alias = read_alias(mod)
    any_resets = read_any_step(mod)

    def pairs(l):
        return T.coq_list([f"({T.coq_str(a)}, {T.coq_str(b)})" for a, b in l])

    body = T.HEADER.replace("harness/translate.py", "harness/tr_c20.py")
    body += "From RC Require Import model.TypesC20.\nOpen Scope Z_scope.\n"
    body += "Definition interpreter_tags : list (string * string) := " + pairs(interp) + ".\n"
    body += "Definition legacy_aliases : list (string * string) :=\n  " + pairs(legacy) + ".\n"
    body += "Definition legacy_manylinux : list (string * string) := " + pairs(alias["prefix_table"]) + ".\n"
    body += "Definition alias_mode_usability : amode := " + alias["usability"] + ".\n"
    body += "Definition alias_mode_score : amode := " + alias["score"] + ".\n"
    body += "Definition any_resets : bool := " + ("true" if any_resets else "false") + ".\n"
    body += "Definition manylinux_regex : string := " + T.coq_str(regex) + ".\n"
    body += "Definition sortkey_fields : list sfield := " + T.coq_list(sortkey) + ".\n"
    body += "Definition sort_reverse : bool := " + ("true" if reverse else "false") + ".\n"
    body += "Definition tagscore_fields : list tfield := " + T.coq_list(tagscore) + ".\n"
    body += "Definition usability_order : list reason := " + T.coq_list(usab) + ".\n"
    body += "Definition dist_type_value (t : dist_type) : Z :=\n  match t with " + " | ".join(
        f"{DIST[n]} => {v}" if v >= 0 else f"{DIST[n]} => ({v})" for n, v in dist) + " end.\n"
    body += "Definition abi_test_compressed : bool := " + ("true" if abi_test else "false") + ".\n"
    body += "Definition abi_score_compressed : bool := " + ("true" if abi_score else "false") + ".\n"
    body += "Definition impl_score_defaults : list (string * Z) := " + T.coq_list(
        [f"({T.coq_str(k)}, {v})" if v >= 0 else f"({T.coq_str(k)}, ({v}))" for k, v in pys["defaults"]]) + ".\n"
    body += "Definition shift_major : Z := %d.\nDefinition shift_minor : Z := %d.\nDefinition shift_ord0 : Z := %d.\n" % (
        pys["shifts"]["major"], pys["shifts"]["minor"], pys["shifts"]["ord0"])
    return body

"""C12 - Source-project metadata is recovered exactly, whatever its packaging (DESIGN.md section 4)."""
from __future__ import annotations

import configparser
import io
import json
import logging
import os
import shutil
import sys
import tarfile
import types
import zipfile
import zlib
from pathlib import Path
from typing import Any, Dict, List, Optional, Tuple

import common
from common import Ctx, hx, unhx, run_model

ID = "C12"
PROPS = ["props/C12.v"]
EXTRACTS = ["C12"]
THEOREMS = [
    "C12_harvest_exact_partial", "C12_glued_text_reparses_flat", "C12_parenthesised_text_is_a_group", "C12_parser_fuel_enough",
    "C12_declared_marker_is_conjunction",
    "C12_dotdot_spelling_refuted", "C12_cfg_only_found",
    "C12_route_independent_partial", "C12_route_pyproject_refuted", "C12_finish_exact",
    "C12_packaging_independent_open", "C12_packaging_independent", "C12_packaging_independent_exists_partial",
    "C12_exists_dirs_refuted", "C12_real_cwd_irrelevant",
    "C12_frame", "C12_sequence_independent", "C12_failure_is_local", "C12_failure_is_metadata_failure",
    "C12_rename_table_fresh",
]
RULE = ("(a) generated setup()/setup.cfg declarations (canonical and re-spelled requirement lines, markers with "
        "and/or/groups, extras keys 'e', ':marker', 'e:marker', blank, quoted; str-vs-list shapes; ~15% malformed: bad "
        "markers, bad versions, framework kwargs, missing name/version) run through the real source.setup() and, rendered "
        "as projects (setup.py literal kwargs | setup.py+setup.cfg | setup.cfg only | pyproject [project]) x {dir,.tar.gz,.zip}, "
        "through extract_metadata; compared with the extracted harvest/finish/route model; (b) programs of the idiom DSL "
        "(literal | read file | regex-from-file | import helper | exec version file | setup.cfg | pyproject) x 3 packagings "
        "x 3 real cwds x shuffled analysis orders, compared with meta_of(decl) and with each other; (c) a probe setup.py "
        "queries the live extractor (exists/open/contains_path/to_relative) for generated path spellings and chdirs, "
        "compared with the PathMap model.  Non-trivial = a requirement with a composed marker was produced / a file was "
        "resolved inside an archive; distinct = distinct (declaration | program | project, query).  (e) frame condition: "
        "sequences of 2-4 generated projects (plain helper import | sys.path.pop(0) / filter / remove of the setup dir | "
        "sys.path.insert of src | raise | sys.exit | chdir | os.rename of a data file then reading it | reading a data file while "
        "shipping the old name | PEP 517 ok | PEP 517 hook raising; shared helper-module names; "
        "absolute and relative paths from one cwd) analysed in one process: after EVERY analysis os.getcwd(), sys.path, "
        "sys.meta_path, project modules in sys.modules, every patched attribute and any rename table kept on the Extractor "
        "classes are compared with the state before and "
        "with the FrameC12 model, every result with the project's own declaration.")
TRUSTED_BASE = [
    "T1 harness/tr_c12.py: separators/format strings of parse_req_with_marker and setup(), the './' and back-slash rules of to_relative, the packaging dispatch of extract_metadata -> gen/HarvestC12Consts.v",
    "T2 harness/c12.py: generators, project renderer (tar/zip/dir), probe module, canonicalisation",
    "packaging 26.3 Requirement/Marker parse+print, configparser, tarfile/zipfile/os.path.exists are specifications validated by T2 only",
    "T1 tr_c12.read_frame: statements, order and guards of the finally-block of _parse_setup_py, the begin_patch/patch() targets, try/finally of patch() and of the chdir in _parse_from_prepared_metadata -> gen/FrameC12Consts.v",
    "execution of setup.py programs is NOT modelled: the idiom family is tested (T2 b), not proved",
    "modelled, not verified: req_compile/metadata/source.py setup/_add_setup_cfg_kwargs/parse_req_with_marker/_fetch_from_setup_py, extractor.py, metadata.py dispatch",
]
ASSUMPTIONS = [
    "requirement heads (name[extras]specifier) are opaque canonical text; non-canonical heads, URL requirements, inline '#' comments are Unmodelled",
    "back-slash escapes inside quoted marker strings, the set-valued marker variables (extras, dependency_groups) are Unmodelled",
    "os.rename (Extractor.renames) is not part of the modelled idiom family; empty directories are not modelled",
    "the egg_info / wheel-build fall-backs are observed as 'fallback requested' (stubbed in T2 except for a small sample)",
]
LEVEL_TEXT = ("20 theorems over Gallina models of the setup()/setup.cfg harvester, of the three extractors' path resolution "
              "and of the bracket around one analysis: harvest = declared meaning for EVERY declaration inside a decidable guard "
              "(canonical heads, own markers that re-parse to themselves, key names without quotes; `or` markers and the keys "
              "'extra', ':marker', 'extra:marker' all inside), re-parsing 'A and B' is the flat concatenation and '(A)' a group for "
              "all texts, the declared marker means the conjunction for ALL markers, the parser never runs out of fuel; open() "
              "resolves every plainly spelled path (relative, './', absolute below the virtual cwd, after any chdir) to the same "
              "member in directory/.tar.gz/.zip for ALL projects and never consults the real file system / real cwd; setup.cfg-only "
              "projects find their setup.cfg in all packagings; every analysis gives the process state back and every failure is a "
              "metadata failure of that project, the rename table (os.rename) an analysis starts with is empty (per-extractor state, "
              "T1 checks it is assigned in Extractor.__init__ and not at class level), hence any sequence gives each project the "
              "result it gets alone; three _refuted "
              "witnesses remain ('..' spellings, directory members missing from a tar, pyproject-only projects in archives - the last "
              "a known finding).  That real setup.py programs of the idiom family stay inside these models is TESTED (T2: generated "
              "programs x 3 packagings x 3 cwds x orders and sequences), not proved.")
LEVEL_NOTE = ("Trusted: Coq kernel, extraction, OCaml driver, T1/T2 harness; packaging/configparser/tarfile/zipfile semantics "
              "validated by sampling only; no semantics of Python: arbitrary setup scripts are outside the theorems.")
TECHNIQUE = "Rocq proof over Gallina models (lexer automaton + fuelled parser compositionality, path algebra) + extraction-based differential correspondence"

CORPUS = common.CORPUS / "C12"


# ======================================================================================
# imports of the real code


def _imports():
    logging.disable(logging.CRITICAL)
    import warnings
    warnings.filterwarnings("ignore")
    import enc440
    import req_compile.metadata.metadata as MM
    import req_compile.metadata.source as S
    import req_compile.metadata.extractor as X
    from req_compile.errors import MetadataError
    return enc440, MM, S, X, MetadataError


# ======================================================================================
# generators

NAMES = ["a", "b-c", "Foo.Bar", "x_y", "pkg1", "zope.interface", "q"]
EXTRA_POOL = ["x", "y", "z1"]
CLAUSES = [">=1", "<2", "==1.2.*", "!=1.5", "~=2.0", ">=1.0", "<3.0", "==2"]
ATOMS = [
    ('python_version', '>=', '"3"'), ('os_name', '==', '"nt"'), ('sys_platform', '==', '"linux"'),
    ('python_version', '<', '"4"'), ('"x"', 'in', 'platform_machine'), ('platform_system', '!=', '"Windows"'),
    ('extra', '==', '"Foo_bar"'), ('implementation_name', '==', '"cpython"'), ('os_name', '==', '"posix"'),
    ('python_full_version', '>', '"3.6.1"'), ('"arm"', 'not in', 'platform_machine'), ('platform_release', '>=', '"5"'),
    ('python_version', '>', '"2.7"'), ('os_name', '!=', '"java"'),
]
VAR_ALIASES = {"os_name": ["os.name"], "sys_platform": ["sys.platform"], "platform_machine": ["platform.machine"]}
VERSIONS = ["1.2", "0.1", "2.0.post1", "1.0.0", "3", "1.2.3", "0.0.1", "2.0rc1", "1.0.dev3", "10.4", "1!2.0", "1.0+local.1",
            "0.7.dev12+g1a2b3c4", "3.1.post2", "1.1a2.dev1", "2.0.0b3"]
ODD_VERSIONS = ["1.2.0-1", "v1.0", "1.0_post2", "01.02", "1.0.0.0", " 1.5 "]


def gen_head(rng) -> str:
    from packaging.requirements import Requirement
    s = rng.choice(NAMES)
    k = rng.choice([0, 0, 0, 1, 2])
    if k:
        s += "[" + ",".join(rng.sample(EXTRA_POOL, k)) + "]"
    n = rng.choice([0, 0, 1, 1, 2])
    s += ",".join(rng.sample(CLAUSES, n))
    return str(Requirement(s))       # canonical spelling of the head (generator only)


def gen_atom(rng, canonical: bool) -> str:
    l, op, r = rng.choice(ATOMS)
    if not canonical:
        def alias(v):
            if v in VAR_ALIASES and rng.random() < 0.4:
                return rng.choice(VAR_ALIASES[v])
            if v.startswith('"') and rng.random() < 0.5:
                return "'" + v[1:-1] + "'"
            return v
        l, r = alias(l), alias(r)
        sp = rng.choice(["", " ", "  "])
        if op in ("in", "not in"):
            return l + " " + op.replace(" ", rng.choice([" ", "  ", "\t"])) + " " + r
        return l + sp + op + rng.choice(["", " "]) + r
    return f"{l} {op} {r}"


def gen_marker(rng, canonical: bool, depth: int = 0, allow_or: bool = True) -> str:
    n = rng.choice([1, 1, 1, 2, 2, 3])
    items = []
    for i in range(n):
        if depth < 2 and rng.random() < (0.12 if canonical else 0.2):
            inner = gen_marker(rng, canonical, depth + 1)
            if canonical and " and " not in inner and " or " not in inner:
                items.append(inner)          # packaging drops parentheses around a single item
            else:
                items.append("(" + (inner if canonical else rng.choice(["", " "]) + inner + rng.choice(["", " "])) + ")")
        else:
            items.append(gen_atom(rng, canonical))
    out = items[0]
    for it in items[1:]:
        c = rng.choice(["and", "and", "or"]) if allow_or else "and"
        out += " " + c + " " + it
    return out


def gen_req_line(rng, canonical: bool, allow_or: bool = True, marker_p: float = 0.45) -> str:
    h = gen_head(rng)
    if rng.random() < marker_p:
        m = gen_marker(rng, canonical, allow_or=allow_or)
        if canonical:
            # canonical spelling = what packaging prints; inside the guard no top-level 'or'
            from packaging.markers import Marker
            while True:
                mk = Marker(m)
                top = mk._markers
                while isinstance(top, list) and len(top) == 1 and isinstance(top[0], list):
                    top = top[0]
                if allow_or or "or" not in top:
                    break
                m = gen_marker(rng, canonical, allow_or=allow_or)
            m = str(mk)
        sep = "; " if canonical else rng.choice(["; ", ";", " ; ", " ;"])
        h = h + sep + m
    return h


def decorate(rng, line: str) -> str:
    r = rng.random()
    if r < 0.6:
        return line
    if r < 0.75:
        return rng.choice(["  ", " ", "\t"]) + line + rng.choice(["", " ", "  "])
    if r < 0.85:
        return line + rng.choice([" \\", "\\", "  \\\\"])
    return "\n" + line + "\n"


NOISE = ["", "  ", "# a comment", "# Gr\u00f6\u00dfe \u2713", "--index-url http://x", "\\", "   # c", "--no-binary :all:", "-e .", "-r other.txt", "-", ".x"]
BAD_MARKERS = ['os_name=="nt" and', '(os_name=="nt"', 'foo=="x"', 'os_name=>"nt"', 'os_name=="nt")',
               'os_name "nt"', 'os_name==nt', '', 'os_name=="nt" AND os_name=="x"', 'os_name=="nt',
               'extra == "a" or', 'python_version ~ "3"', 'not os_name=="nt"', 'os_name=="nt" os_name=="x"']
KEYS_PLAIN = ["dev", "test", "Te_St", " doc ", "x.y", "all"]
KEYS_ENV = [':python_version<"4"', ':os_name=="nt"', ":sys_platform=='linux'", ':python_version>="3" and os_name=="posix"',
            ': python_version < "4"']
KEYS_ENV_OR = [':os_name=="nt" or os_name=="posix"', ':python_version<"3" or (os_name=="nt" and sys_platform=="win32")']
KEYS_COLON = ["tst:sys_platform=='linux'", 'tst:sys_platform=="linux"', "dev:python_version<'3'", "a:b"]
KEYS_ODD = ["", "  ", 'a"b', "a'b", ":", "a b"]


def gen_strs(rng, canonical: bool, allow_or: bool, malformed: float) -> Any:
    n = rng.choice([0, 1, 1, 2, 2, 3])
    lines = []
    for _ in range(n):
        r = rng.random()
        if r < malformed:
            lines.append(gen_head(rng) + "; " + rng.choice(BAD_MARKERS))
        elif r < malformed + 0.1 and not canonical:
            lines.append(rng.choice(NOISE))
        else:
            ln = gen_req_line(rng, canonical, allow_or)
            lines.append(ln if canonical else decorate(rng, ln))
    if not canonical and rng.random() < 0.2:
        return "\n".join(lines) if rng.random() < 0.7 or not lines else lines[0]
    return lines


def gen_decl(rng, mode: str) -> Dict[str, Any]:
    """mode: 'wf' (inside the guard of harvest_exact), 'respelled' (any spelling/keys/or), 'malformed'."""
    canonical = mode == "wf"
    allow_or = True            # since the parenthesising repair `or` is inside the guard
    malformed = 0.25 if mode == "malformed" else 0.0
    d: Dict[str, Any] = {"framework": False, "cfg": None, "author": rng.choice([None, "J\u00fcrgen M\u00fcller", "\u5c71\u7530"])}
    d["name"] = rng.choice(NAMES + ["my proj"]) if mode != "wf" else rng.choice(NAMES)
    d["version"] = rng.choice(VERSIONS) if mode == "wf" or rng.random() < 0.8 else rng.choice(ODD_VERSIONS)
    d["install"] = gen_strs(rng, canonical, allow_or, malformed)
    keys = list(KEYS_PLAIN)
    if mode == "wf":
        keys += KEYS_ENV + KEYS_ENV_OR + [k for k in KEYS_COLON if k != "a:b"]
    else:
        keys += KEYS_ENV + KEYS_ENV_OR + KEYS_COLON + KEYS_ODD
    ks = rng.sample(keys, rng.choice([0, 1, 1, 2, 3]))
    d["extras"] = []
    for k in ks:
        v = gen_strs(rng, canonical, allow_or, malformed)
        if isinstance(v, str) and mode == "wf":
            v = [v]
        d["extras"].append([k, v])
    if mode == "wf" and any(k.startswith(":") for k, _ in d["extras"]):
        # glued after an existing marker: the key's marker must be or-free too (it is, KEYS_ENV)
        pass
    if mode == "malformed":
        r = rng.random()
        if r < 0.12:
            d["version"] = rng.choice(["not a version", "1.x", "", "1..2"])
        elif r < 0.2:
            d["framework"] = True
        elif r < 0.3:
            d["name"] = None
        elif r < 0.4:
            d["version"] = None
        elif r < 0.45:
            d["name"] = None
            d["version"] = None
        elif r < 0.5:
            d["install"] = None
    if mode != "wf" and rng.random() < 0.35:
        d["cfg"] = gen_cfg(rng, canonical, allow_or, malformed)
        if rng.random() < 0.5:
            d["name"] = None
        if rng.random() < 0.5:
            d["version"] = None
    return d


FREE_TEXT = [["author = J\u00fcrgen M\u00fcller"], ["description = Gr\u00f6\u00dfenma\u00df \u2013 na\u00efve caf\u00e9 \u2713"],
             ["author = \u5c71\u7530\u592a\u90ce", "description = \u00e9t\u00e9"], ["keywords = a, b"], None]


def gen_cfg(rng, canonical: bool, allow_or: bool, malformed: float) -> Dict[str, Any]:
    c: Dict[str, Any] = {"name": None, "version": None, "install": None, "extras": None, "text": rng.choice(FREE_TEXT)}
    if rng.random() < 0.7:
        c["name"] = rng.choice(NAMES)
    if rng.random() < 0.7:
        c["version"] = rng.choice(VERSIONS)
    if rng.random() < 0.7:
        v = gen_strs(rng, True, allow_or, malformed)
        c["install"] = [x for x in (v if isinstance(v, list) else [v])]
    if rng.random() < 0.6:
        ex = []
        for k in rng.sample(["dev", "test", "docs", "all"], rng.choice([1, 2])):
            v = gen_strs(rng, True, allow_or, malformed)
            ex.append([k, v if isinstance(v, list) else [v]])
        c["extras"] = ex
    return c


def cfg_text(c: Dict[str, Any]) -> str:
    out = []
    if c["name"] is not None or c["version"] is not None or c.get("text"):
        out.append("[metadata]")
        out += list(c.get("text") or [])          # free-text fields, UTF-8 (author with an umlaut, description)
        if c["name"] is not None:
            out.append("name = " + c["name"])
        if c["version"] is not None:
            out.append("version = " + c["version"])
    if c["install"] is not None:
        out.append("[options]")
        out.append("install_requires =")
        out += ["    " + ln for ln in c["install"]]
    if c["extras"] is not None:
        out.append("[options.extras_require]")
        for k, v in c["extras"]:
            out.append(k + " =")
            out += ["    " + ln for ln in v]
    return "\n".join(out) + "\n"


def cfg_values(text: str) -> Optional[Dict[str, Any]]:
    """what configparser (stdlib, specification) returns for the rendered setup.cfg"""
    p = configparser.ConfigParser()
    p.read_string(text)
    return {
        "name": p.get("metadata", "name") if p.has_option("metadata", "name") else None,
        "version": p.get("metadata", "version") if p.has_option("metadata", "version") else None,
        "install": p.get("options", "install_requires") if p.has_option("options", "install_requires") else None,
        "extras": [[k, v] for k, v in p.items("options.extras_require")] if p.has_section("options.extras_require") else None,
    }


# ======================================================================================
# encoders for the model


def enc_optstr(s: Optional[str]) -> str:
    return "N" if s is None else "S " + hx(s)


def enc_vres(enc440, v: Optional[Any]) -> str:
    if v is None:
        return "N"
    from packaging.version import Version, InvalidVersion
    try:
        return "V " + enc440.ver_token(Version(str(v)))
    except InvalidVersion:
        return "B"


def enc_strs(v: Any) -> str:
    if isinstance(v, str):
        return "O " + hx(v)
    return "L {} {}".format(len(v), " ".join(hx(x) for x in v)).strip()


def enc_decl(enc440, d: Dict[str, Any], cfgv: Optional[Dict[str, Any]]) -> str:
    t = [enc_optstr(d["name"]), enc_vres(enc440, d["version"]),
         "N" if d["install"] is None else enc_strs(d["install"]),
         str(len(d["extras"]))]
    for k, v in d["extras"]:
        t.append(hx(k))
        t.append(enc_strs(v))
    t.append("1" if d["framework"] else "0")
    if cfgv is None:
        t.append("N")
    else:
        t += ["C", enc_optstr(cfgv["name"]), enc_vres(enc440, cfgv["version"]), enc_optstr(cfgv["install"])]
        if cfgv["extras"] is None:
            t.append("N")
        else:
            t.append("E {}".format(len(cfgv["extras"])))
            for k, v in cfgv["extras"]:
                t += [hx(k), hx(v)]
    return " ".join(t)


def dec_hres(ans: str) -> Any:
    toks = ans.split()
    if not toks:
        return ("?", ans)
    if toks[0] == "OK":
        i = 1
        name = None
        if toks[i] == "S":
            name = unhx(toks[i + 1]); i += 2
        else:
            i += 1
        ver = None
        if toks[i] == "V":
            ver = toks[i + 1]; i += 2
        else:
            i += 1
        n = int(toks[i]); i += 1
        reqs = [unhx(x) for x in toks[i:i + n]]
        return ("OK", name, ver, reqs)
    if toks[0] == "ERR":
        return ("ERR", toks[1])
    return (toks[0],)


def enc_project(pr: Dict[str, Any]) -> str:
    t = [hx(pr["lead"]), "1" if pr["tar_dirs"] else "0", "1" if pr["zip_top"] else "0", "1" if pr["zip_dirs"] else "0",
         str(len(pr["files"]))]
    for p, c in pr["files"]:
        t += [hx(p), hx(c)]
    return " ".join(t)


# ======================================================================================
# rendering real projects


def write_tree(root: Path, files: List[Tuple[str, str]]) -> None:
    for rel, txt in files:
        p = root / rel
        p.parent.mkdir(parents=True, exist_ok=True)
        p.write_bytes(txt.encode("utf-8"))


def all_dirs(files: List[Tuple[str, str]]) -> List[str]:
    out: List[str] = []
    for rel, _ in files:
        parts = rel.split("/")[:-1]
        for i in range(1, len(parts) + 1):
            d = "/".join(parts[:i])
            if d not in out:
                out.append(d)
    return out


def render(base: Path, lead: str, files: List[Tuple[str, str]], tar_dirs: bool = True, zip_top: bool = True,
           zip_dirs: bool = False) -> Dict[str, str]:
    """base/d/<lead>/..., base/t/<lead>.tar.gz, base/z/<lead>.zip (layout of tests/conftest.py)"""
    d = base / "d" / lead
    d.mkdir(parents=True, exist_ok=True)
    write_tree(d, files)
    (base / "t").mkdir(exist_ok=True)
    (base / "z").mkdir(exist_ok=True)
    t = base / "t" / (lead + ".tar.gz")
    with tarfile.open(t, "w:gz") as tf:
        def add_dir(name):
            ti = tarfile.TarInfo(name)
            ti.type = tarfile.DIRTYPE
            ti.mode = 0o755
            tf.addfile(ti)
        if tar_dirs:
            add_dir(lead)
            for dd in all_dirs(files):
                add_dir(lead + "/" + dd)
        for rel, txt in files:
            data = txt.encode("utf-8")
            ti = tarfile.TarInfo(lead + "/" + rel)
            ti.size = len(data)
            ti.mode = 0o644
            tf.addfile(ti, io.BytesIO(data))
    z = base / "z" / (lead + ".zip")
    with zipfile.ZipFile(z, "w") as zf:
        if zip_top:
            zf.writestr(lead + "/", b"")
        if zip_dirs:
            for dd in all_dirs(files):
                zf.writestr(lead + "/" + dd + "/", b"")
        for rel, txt in files:
            zf.writestr(lead + "/" + rel, txt.encode("utf-8"))
    return {"D": str(d), "T": str(t), "Z": str(z)}


class Stubs:
    """wrap the two slow fall-backs of source.py inside the harness process (no hook in /repo)"""

    def __init__(self, S, real_egg_info: bool = False):
        self.S = S
        self.real = real_egg_info
        self.events: List[str] = []

    def __enter__(self):
        S = self.S
        self.old = (S._build_egg_info, S._build_wheel)
        # re-entrant: a nested Stubs(real_egg_info=True) must reach the REAL function, not the outer stub
        self.owner = not hasattr(S, "_c12_real_fallbacks")
        if self.owner:
            S._c12_real_fallbacks = self.old
        old_egg = S._c12_real_fallbacks[0]

        def egg(*args, **kwargs):     # whatever arguments the code gives its fall-back; only setup_file is looked at
            setup_file = common.arg_of(old_egg, args, kwargs, "setup_file", pos=2)
            self.events.append("egg_info" if setup_file is not None else "egg_info:none")
            if self.real:
                return old_egg(*args, **kwargs)
            return None

        def wheel(*args, **kwargs):
            self.events.append("wheel")
            return None
        S._build_egg_info = egg
        S._build_wheel = wheel
        return self

    def __exit__(self, *a):
        self.S._build_egg_info, self.S._build_wheel = self.old
        if self.owner:
            del self.S._c12_real_fallbacks


def observe_extract(enc440, MM, MetadataError, path: str, semantic: bool = False) -> Any:
    try:
        r = MM.extract_metadata(path)
    except MetadataError:
        return ("MetadataError",)
    except Exception as ex:           # anything else escaping is not "a metadata failure for that project"
        common.reraise_harness_fault(ex)     # ... nor is an error of the harness's own stubs / probe one of the code
        return ("EXC", type(ex).__name__)
    ver = enc440.ver_token(r.version) if r.version is not None else None
    if semantic or type(r).__name__ != "DistInfo":
        return ("OKSEM", r.name, ver, sorted(str(x) for x in r.requires()))
    return ("OK", r.name, ver, [str(x) for x in r.reqs])


def fn_info(S, path: str) -> Tuple[str, Optional[Any]]:
    from req_compile.filename import parse_source_filename
    return parse_source_filename(os.path.basename(path))


# ======================================================================================
# T2 (a1): the harvester called directly


def impl_setup_direct(enc440, S, d: Dict[str, Any], workdir: Path) -> Any:
    kwargs: Dict[str, Any] = {}
    if d["name"] is not None:
        kwargs["name"] = d["name"]
    if d["version"] is not None:
        kwargs["version"] = d["version"]
    if d["install"] is not None:
        kwargs["install_requires"] = list(d["install"]) if isinstance(d["install"], list) else d["install"]
    if d["extras"]:
        kwargs["extras_require"] = {k: (list(v) if isinstance(v, list) else v) for k, v in d["extras"]}
    if d["framework"]:
        kwargs["pbr"] = True
    cfgp = workdir / "setup.cfg"
    if d["cfg"] is not None:
        cfgp.write_text(cfg_text(d["cfg"]), encoding="utf-8")
    elif cfgp.exists():
        cfgp.unlink()
    results: List[Any] = []
    old = os.getcwd()
    old_err = sys.stderr
    os.chdir(workdir)
    sys.stderr = io.StringIO()
    try:
        S.setup(results, **kwargs)
    except Exception as ex:
        return ("ERR", type(ex).__name__)
    finally:
        sys.stderr = old_err
        os.chdir(old)
    r = results[0]
    if r.name is None and r.version is None:
        return ("ERR", "NoMeta")            # _parse_setup_py's check (exercised for real in a2)
    return ("OK", r.name, enc440.ver_token(r.version) if r.version is not None else None, [str(x) for x in r.reqs])


def canon_h(o: Any) -> Any:
    """the exception class of a failing harvest is not observable through extract_metadata: ERR only"""
    if o[0] == "ERR":
        return ("ERR",)
    return tuple(o)


def t2_direct(ctx: Ctx, enc440, S) -> None:
    rng = ctx.rng
    n = ctx.n(900, 20000)
    work = ctx.tmpdir() / "direct"
    work.mkdir(parents=True, exist_ok=True)
    cases = []
    lines = []
    for i in range(n):
        r = rng.random()
        mode = "wf" if r < 0.3 else "respelled" if r < 0.85 else "malformed"
        d = gen_decl(rng, mode)
        cfgv = cfg_values(cfg_text(d["cfg"])) if d["cfg"] is not None else None
        obs = impl_setup_direct(enc440, S, d, work)
        cases.append((mode, d, obs))
        lines.append("H " + enc_decl(enc440, d, cfgv))
        lines.append("D " + enc_decl(enc440, d, cfgv))
        lines.append("G " + enc_decl(enc440, d, cfgv))
    ans = run_model("C12", lines)
    if len(ans) != len(lines):
        ctx.obligation_broken("model-runner:C12", f"{len(ans)} answers for {len(lines)} cases")
        return
    for i, (mode, d, obs) in enumerate(cases):
        h = dec_hres(ans[3 * i])
        m = dec_hres(ans[3 * i + 1])
        guard = ans[3 * i + 2] == "1"
        ctx.count("direct:inside-guard" if guard else "direct:outside-guard")
        if guard and h[0] != "UN" and canon_h(obs) != canon_h(m):
            # C12_harvest_exact_partial replayed on the real code: inside the guard the implementation's
            # harvest IS the declared meaning
            ctx.mismatch("theorem-replay:harvest_exact", d, obs, m)
        if mode == "wf" and not guard:
            ctx.count("direct:wf-generator-left-the-guard")
        ctx.count("direct:mode:" + mode)
        ctx.count("direct:impl:" + obs[0] + (":" + obs[1] if obs[0] == "ERR" else ""))
        if h[0] == "UN":
            ctx.count("direct:unmodelled")
            continue
        composed = h[0] == "OK" and any("; " in r and ("extra ==" in r) for r in h[3])
        ctx.case(key=("direct", json.dumps(d, sort_keys=True)), nontrivial=composed,
                 sample={"decl": d, "impl": obs, "model": h} if i % 211 == 0 else None)
        if canon_h(obs) != canon_h(h):
            ctx.mismatch("harvest-direct", d, obs, h)
        # inside the guard the harvest is the declared meaning (what the theorem says); counted, and a
        # disagreement here on a 'wf' declaration means the generator left the guard or the theorem is wrong
        if mode == "wf":
            if h != m:
                ctx.mismatch("harvest-vs-declared-inside-guard", d, h, m)
        elif h[0] == "OK" and m[0] == "OK" and h != m:
            ctx.count("direct:harvest-differs-from-declared (outside the guard)")


# ======================================================================================
# T2 (c): the live extractor queried from inside a setup.py


PROBE_SETUP = "import c12probe\nc12probe.run(__file__)\nfrom setuptools import setup\nsetup(name={name!r}, version='1.0')\n"

FILE_POOL = ["VERSION", ".version", "pkg/.hidden.txt", "README.rst", "requirements.txt", "pkg/__init__.py", "pkg/version.py", "pkg/sub/data.txt",
             "src/Mod.py", "docs/conf.py", "pkg/_v.py", "Pkg/upper.txt", "a/b/c/d.txt"]


def gen_project(rng, i: int) -> Dict[str, Any]:
    name = rng.choice(["proj", "my-proj", "Pr.oj", "p_q"])
    lead = f"{name}-1.0"
    fs = rng.sample(FILE_POOL, rng.choice([1, 2, 3, 4, 5]))
    inner = [f.split("/")[0] for f in fs if "/" in f]
    if inner and rng.random() < 0.3:
        lead = rng.choice(inner)          # a checkout directory named like the package it holds (tinytool/tinytool/...)
    files = [("setup.py", PROBE_SETUP.format(name=name))] + [(f, f"content of {f} #{i}\n" + rng.choice(["", "é\n", "x = 1\n"])) for f in fs]
    return {"name": name, "lead": lead, "files": files, "tar_dirs": rng.random() < 0.7, "zip_top": rng.random() < 0.7,
            "zip_dirs": rng.random() < 0.4}


def gen_queries(rng, pr: Dict[str, Any]) -> Tuple[Optional[str], List[List[str]]]:
    """(sub, queries) - queries are [stage, form, path]; stage 0 = before chdir(sub), 1 = after"""
    files = [f for f, _ in pr["files"]]
    dirs = all_dirs(pr["files"])
    sub = rng.choice(dirs) if dirs and rng.random() < 0.6 else None
    qs: List[List[str]] = []

    def rel_to(stage: int, target: str) -> Optional[str]:
        if stage == 0 or sub is None:
            return target
        if target.startswith(sub + "/"):
            return target[len(sub) + 1:]
        return None
    for stage in ([0, 1] if sub else [0]):
        for _ in range(rng.choice([4, 6, 8])):
            r = rng.random()
            if r < 0.5:
                t = rng.choice(files)
            elif r < 0.65 and dirs:
                t = rng.choice(dirs)
            elif r < 0.8:
                t = rng.choice(["missing.txt", "pkg/nope.py", "SETUP.PY", "version", "PKG/__init__.py", "setup.cfg", pr["lead"],
                                rng.choice(files)[:-1], rng.choice(files)[:3], rng.choice(files)[:1], "pk", "setup"])
            else:
                t = rng.choice(files)
                t = rng.choice([t.upper(), t + "/", "x/../" + t, t.replace("/", "//", 1), "./" + t, ".\\" + t,
                                t.replace("/", "\\"), t.rsplit("/", 1)[0] + "/../" + t if "/" in t else "./././" + t,
                                "../" + t, "", ".", "./", "/etc/hostname", "/dev/null", t + "/.", "pkg/../../" + t])
            rel = rel_to(stage, t)
            if rel is None:
                rel = t
            form = rng.choice(["rel", "rel", "dot", "cwd", "cwd", "file", "root"])
            qs.append([str(stage), form, rel if form != "file" else t])
    return sub, qs


class Probe(types.ModuleType):
    """imported by the generated setup.py; asks the live extractor from inside the patched environment"""

    def __init__(self):
        super().__init__("c12probe")
        self.extractor = None
        self.sub = None
        self.queries: List[List[str]] = []
        self.finds: List[Any] = []
        self.find_in_archive = None
        self.out: List[Any] = []
        self.custom = None

    def run(self, setup_file):
        ex = self.extractor
        if self.custom is not None:
            return self.custom(self, setup_file)
        self.out.append(["root", ex.fake_root, os.getcwd(), setup_file])
        for fname, depth in self.finds:
            try:
                r = self.find_in_archive(ex, fname, max_depth=depth)
            except Exception as exn:
                r = "EXC:" + type(exn).__name__
            self.out.append(["find", os.getcwd(), fname, depth, r])
        stage = 0
        for st, form, p in self.queries:
            if int(st) == 1 and stage == 0:
                os.chdir(self.sub)
                stage = 1
                self.out.append(["chdir", os.getcwd()])
            if form == "rel":
                path = p
            elif form == "dot":
                path = "./" + p
            elif form == "cwd":
                path = os.path.join(os.getcwd(), p)
            elif form == "file":
                path = os.path.join(os.path.dirname(setup_file), p)
            else:
                path = os.path.join(ex.fake_root, p)
            cwd = os.getcwd()
            try:
                e = bool(os.path.exists(path))
            except Exception as exn:
                e = type(exn).__name__
            try:
                with open(path, "r", encoding="utf-8") as fh:
                    o: Any = ["B", fh.read()]
            except OSError:
                o = ["ERR"]
            except Exception as exn:
                o = ["EXC", type(exn).__name__]
            try:
                with open(path) as fh:                 # no encoding: the extractor's default decoding
                    od: Any = ["B", fh.read()]
            except OSError:
                od = ["ERR"]
            except Exception as exn:
                od = ["EXC", type(exn).__name__]
            try:
                c = bool(ex.contains_path(path))
                tr = ex.to_relative(path)
            except Exception as exn:
                c, tr = None, type(exn).__name__
            self.out.append(["q", cwd, path, e, o, c, tr, od])


def install_probe(S) -> Tuple[Probe, Any]:
    probe = Probe()
    probe.find_in_archive = S.find_in_archive
    sys.modules["c12probe"] = probe
    old = S._parse_setup_py

    def wrapped(*args, **kwargs):     # forwards the call as the code spelled it
        probe.extractor = common.arg_of(old, args, kwargs, "extractor", pos=2)
        return old(*args, **kwargs)
    S._parse_setup_py = wrapped
    return probe, old


def t2_paths(ctx: Ctx, enc440, MM, S, MetadataError) -> None:
    rng = ctx.rng
    nproj = ctx.n(40, 600)
    base = ctx.tmpdir() / "paths"
    probe, old_parse = install_probe(S)
    lines: List[str] = []
    expect: List[Any] = []
    try:
        with Stubs(S) as stubs:
            for i in range(nproj):
                pr = gen_project(rng, i)
                sub, qs = gen_queries(rng, pr)
                finds = [(rng.choice(["setup.py", "setup.cfg", "version.py", "__init__.py", "d.txt", "mod.py", "version",
                                      "pkg/__init__.py", "conf.py", "requirements.txt", "upper.txt"]), rng.choice([0, 1, 1, 2, 5]))
                         for _ in range(3)]
                paths = render(base / str(i), pr["lead"], pr["files"], pr["tar_dirs"], pr["zip_top"], pr["zip_dirs"])
                pj = enc_project(pr)
                for k in ("D", "T", "Z"):
                    probe.sub, probe.queries, probe.out = sub, qs, []
                    probe.finds = finds
                    n_ev = len(stubs.events)
                    res = observe_extract(enc440, MM, MetadataError, paths[k])
                    ctx.count("paths:analysis:" + res[0])
                    if res[0] != "OK" or len(stubs.events) != n_ev:
                        ctx.mismatch("probe-project-not-analysed", {"project": pr, "kind": k, "sub": sub}, res, "OK")
                        continue
                    root = None
                    for rec in probe.out:
                        if rec[0] == "root":
                            root = rec[1]
                            lines.append("W {} {} {} 1".format(k, hx(root), hx(pr["lead"])))
                            expect.append(("start_cwd", (pr["lead"], k), hx(rec[2])))
                            base_name = pr["lead"]
                            want_root = {"D": "/" + base_name, "T": "/" + base_name + ".tar.gz", "Z": "/" + base_name + ".zip"}[k]
                            if root != want_root:
                                ctx.mismatch("fake_root", (pr["lead"], k), root, want_root)
                        elif rec[0] == "find":
                            _, cwd, fname, depth, r = rec
                            case = {"kind": k, "lead": pr["lead"], "files": [f for f, _ in pr["files"]], "fname": fname, "depth": depth}
                            lines.append("A {} {} {} {} {} {}".format(k, pj, hx(root), hx(cwd), hx(fname), depth))
                            if k == "D":      # os.walk order is the operating system's: only found / not found
                                expect.append(("find_in_archive:found", case, "NONE" if r is None else "S"))
                            else:
                                expect.append(("find_in_archive", case, "NONE" if r is None else "S " + hx(r)))
                        elif rec[0] == "q":
                            _, cwd, path, e, o, c, tr, od = rec
                            case = {"kind": k, "project": {kk: pr[kk] for kk in ("lead", "tar_dirs", "zip_top", "zip_dirs")},
                                    "files": [f for f, _ in pr["files"]], "root": root, "cwd": cwd, "path": path}
                            args = "{} {} {}".format(hx(root), hx(cwd), hx(path))
                            lines.append("X {} {} {}".format(k, pj, args))
                            expect.append(("exists", case, "1" if e is True else "0" if e is False else str(e)))
                            lines.append("O {} {} {}".format(k, pj, args))
                            expect.append(("open", case, "B " + hx(o[1]) if o[0] == "B" else o[0] if o[0] == "ERR" else "EXC:" + o[1]))
                            lines.append("O {} {} {}".format(k, pj, args))
                            expect.append(("open-default-encoding", case, "B " + hx(od[1]) if od[0] == "B" else od[0] if od[0] == "ERR" else "EXC:" + od[1]))
                            lines.append("C {}".format(args))
                            expect.append(("contains_path", case, "1" if c else "0"))
                            lines.append("R {}".format(args))
                            expect.append(("to_relative", case, hx(tr) if isinstance(tr, str) else str(tr)))
    finally:
        S._parse_setup_py = old_parse
        sys.modules.pop("c12probe", None)
    ans = run_model("C12", lines)
    if len(ans) != len(lines):
        ctx.obligation_broken("model-runner:C12", f"{len(ans)} answers for {len(lines)} path cases")
        return
    for (what, case, exp), a in zip(expect, ans):
        ctx.count("paths:" + what)
        if a == "REAL":
            ctx.count("paths:served-by-real-fs")
            continue
        if what == "find_in_archive:found":
            a = a.split()[0]
        inside = what == "open" and exp.startswith("B ") and isinstance(case, dict) and case["kind"] != "D"
        ctx.case(key=("paths", what, json.dumps(case, sort_keys=True)), nontrivial=inside,
                 sample={"what": what, "case": case, "impl": exp, "model": a} if ctx.evaluations % 1499 == 0 else None)
        if a != exp:
            ctx.mismatch("extractor-" + what, case, exp, a)


# ======================================================================================
# T2 (a2): declarations rendered as projects in three styles x three packagings


def kwargs_of(d: Dict[str, Any]) -> Dict[str, Any]:
    kw: Dict[str, Any] = {}
    if d["name"] is not None:
        kw["name"] = d["name"]
    if d["version"] is not None:
        kw["version"] = d["version"]
    if d["install"] is not None:
        kw["install_requires"] = d["install"]
    if d["extras"]:
        kw["extras_require"] = {k: v for k, v in d["extras"]}
    if d["framework"]:
        kw["use_pyscaffold"] = True
    if d.get("author"):
        kw["author"] = d["author"]
        kw["description"] = "Gr\u00f6\u00dfe \u2013 caf\u00e9"
    return kw


def lead_for(rng, d: Dict[str, Any]) -> str:
    name = (d["name"] or (d["cfg"] or {}).get("name") or "anon").replace(" ", "-")
    ver = d["version"] or (d["cfg"] or {}).get("version") or "0.3"
    if d["cfg"] and d["cfg"].get("name"):
        name = d["cfg"]["name"]
    if d["cfg"] and d["cfg"].get("version"):
        ver = d["cfg"]["version"]
    r = rng.random()
    from packaging.version import Version, InvalidVersion
    try:
        ver = str(Version(str(ver)))
    except InvalidVersion:
        ver = "0.3"
    if r < 0.12:
        ver = "9.9"                      # file name disagrees with the declaration: the file name wins
    elif r < 0.2:
        name = "other" + name            # archive name disagrees: the file name wins for archives only
    elif r < 0.3:
        name = name.replace("-", "_").upper()      # same project, other spelling
    return f"{name}-{ver}"


def fn_expected(path: str) -> Tuple[str, Optional[str]]:
    """what the FILE NAME the harness gave to a project says (the harness builds archives as <name>-<version>.<ext>,
    versions never contain a dash): name with '_' spelled '-', version text; a directory says nothing about a version.
    Deliberately NOT computed with req_compile.filename.parse_source_filename (the code under test)."""
    base = os.path.basename(path)
    for ext in (".tar.gz", ".zip"):
        if base.endswith(ext):
            stem = base[: -len(ext)]
            name, _, ver = stem.rpartition("-")
            return name.replace("_", "-"), ver
    return base, None


def fn_tokens(enc440, path: str, ctx: Optional[Ctx] = None) -> Optional[str]:
    from packaging.version import Version
    n, v = fn_expected(path)
    ver = Version(v) if v is not None else None
    if ctx is not None:
        from req_compile.filename import parse_source_filename
        try:
            rn, rv = parse_source_filename(os.path.basename(path))
            got: Any = (rn, None if rv is None else str(rv))
        except Exception as ex:
            got = ("EXC", type(ex).__name__)
        ctx.count("file-name:" + ("archive" if v is not None else "directory"))
        if got != (n, None if ver is None else str(ver)):
            ctx.mismatch("file-name-version", os.path.basename(path), got, (n, None if ver is None else str(ver)))
    return "{} {}".format(hx(n), "N" if ver is None else "V " + enc440.ver_token(ver))


def pyproject_text(d: Dict[str, Any]) -> str:
    import toml
    proj: Dict[str, Any] = {"name": d["name"], "version": d["version"], "dependencies": list(d["install"] or [])}
    opt = {k.strip(): list(v) for k, v in d["extras"] if ":" not in k and k.strip()}
    if opt:
        proj["optional-dependencies"] = opt
    if d.get("author"):
        proj["authors"] = [{"name": d["author"]}]
        proj["description"] = "Gr\u00f6\u00dfe \u2013 caf\u00e9"
    return toml.dumps({"build-system": {"requires": ["setuptools"], "build-backend": "setuptools.build_meta"}, "project": proj})


def t2_rendered(ctx: Ctx, enc440, MM, S, MetadataError) -> None:
    rng = ctx.rng
    n = ctx.n(70, 1200)
    base = ctx.tmpdir() / "rendered"
    jobs = []
    for i in range(n):
        r = rng.random()
        style = "setup_py" if r < 0.55 else "cfg_only" if r < 0.75 else "pyproject"
        mode = "wf" if style == "pyproject" or rng.random() < 0.35 else ("respelled" if rng.random() < 0.8 else "malformed")
        d = gen_decl(rng, mode)
        files: List[Tuple[str, str]] = []
        if style == "setup_py":
            files.append(("setup.py", "from setuptools import setup\nsetup(**%r)\n" % (kwargs_of(d),)))
            if d["cfg"] is not None:
                files.append(("setup.cfg", cfg_text(d["cfg"])))
        elif style == "cfg_only":
            c = gen_cfg(rng, True, mode != "wf", 0.0)
            c["name"] = c["name"] or "cfgproj"
            c["version"] = c["version"] or "1.1"
            d = {"name": None, "version": None, "install": None, "extras": [], "framework": False, "cfg": c}
            files.append(("setup.cfg", cfg_text(c)))
            if rng.random() < 0.5:
                files.append(("pyproject.toml", '[build-system]\nrequires = ["setuptools"]\nbuild-backend = "setuptools.build_meta"\n'))
        else:
            d["extras"] = [[k, v] for k, v in d["extras"] if ":" not in k]
            files.append(("pyproject.toml", pyproject_text(d)))
        files.append(("pkg/__init__.py", ""))
        lead = lead_for(rng, d)
        paths = render(base / str(i), lead, files)
        jobs.append((style, mode, d, lead, files, paths))
    lines: List[str] = []
    meta: List[Any] = []
    with Stubs(S) as stubs:
        for style, mode, d, lead, files, paths in jobs:
            cfgv = cfg_values(cfg_text(d["cfg"])) if d["cfg"] is not None else None
            for k in ("D", "T", "Z"):
                n_ev = len(stubs.events)
                obs = observe_extract(enc440, MM, MetadataError, paths[k])
                ev = stubs.events[n_ev:]
                fnt = fn_tokens(enc440, paths[k], ctx)
                has_py = style == "setup_py"
                has_cfg = any(f == "setup.cfg" for f, _ in files)
                pyp = "P" if style == "pyproject" else "B" if any(f == "pyproject.toml" for f, _ in files) else "N"
                lines.append("U {} {} {} {}".format(k, int(has_py), int(has_cfg), pyp))
                root = {"D": "/" + lead, "T": "/" + lead + ".tar.gz", "Z": "/" + lead + ".zip"}[k]
                pj = enc_project({"lead": lead, "files": files, "tar_dirs": True, "zip_top": True, "zip_dirs": False})
                lines.append("W {} {} {} {}".format(k, hx(root), hx(lead), int(has_py)))
                meta.append((style, mode, d, lead, k, obs, ev, fnt, cfgv, pj, root))
    ans1 = run_model("C12", lines)
    # second round: the model's view of setup.cfg from the cwd the code established, then harvest+finish
    lines2: List[str] = []
    for i, m in enumerate(meta):
        style, mode, d, lead, k, obs, ev, fnt, cfgv, pj, root = m
        cwd = unhx(ans1[2 * i + 1])
        lines2.append("X {} {} {} {} {}".format(k, pj, hx(root), hx(cwd), hx("setup.cfg")))
    ans2 = run_model("C12", lines2)
    lines3: List[str] = []
    for i, m in enumerate(meta):
        style, mode, d, lead, k, obs, ev, fnt, cfgv, pj, root = m
        sees_cfg = ans2[i] == "1"
        lines3.append("F {} {} {}".format(k, fnt, enc_decl(enc440, d, cfgv if sees_cfg else None)))
        lines3.append("D " + enc_decl(enc440, d, cfgv))
    ans3 = run_model("C12", lines3)
    for i, m in enumerate(meta):
        style, mode, d, lead, k, obs, ev, fnt, cfgv, pj, root = m
        route = ans1[2 * i]
        f = dec_hres(ans3[2 * i])
        decl_meaning = dec_hres(ans3[2 * i + 1])
        ctx.count(f"rendered:{style}:{k}:{obs[0]}")
        ctx.count("rendered:route:" + route)
        case = {"style": style, "kind": k, "lead": lead, "decl": d}
        if route == "Pep517":
            # the PEP 517 hook (setuptools itself) renders the declaration: compare with the DECLARED meaning
            if decl_meaning[0] != "OK":
                continue
            want = ("OK", decl_meaning[1], decl_meaning[2], sem_reqs(decl_meaning[3]))
            got = obs if obs[0] != "OK" else ("OK", obs[1], obs[2], sem_reqs(obs[3]))
            ctx.case(key=("rendered", json.dumps(case, sort_keys=True)), nontrivial=bool(decl_meaning[3]),
                     sample={"case": case, "impl": obs, "declared": decl_meaning} if i % 97 == 0 else None)
            if got != want:
                ctx.mismatch("pyproject-vs-declared", case, got, want)
            continue
        if route == "Nothing":
            want: Any = ("MetadataError",)
        elif f[0] == "UN":
            ctx.count("rendered:unmodelled")
            continue
        elif f[0] == "ERR":
            want = ("MetadataError",)            # the (stubbed) egg_info fall-back is asked when there is a setup.py
            if style == "setup_py" and "egg_info" not in ev and obs == ("MetadataError",):
                ctx.mismatch("fallback-not-requested", case, ev, "egg_info")
        else:
            want = f
        ctx.case(key=("rendered", json.dumps(case, sort_keys=True)), nontrivial=(want[0] == "OK" and k != "D"),
                 sample={"case": case, "impl": obs, "model": want} if i % 97 == 0 else None)
        if tuple(obs) != tuple(want):
            ctx.mismatch("rendered-project", case, obs, want)


# ======================================================================================
# T2 (b): the idiom DSL - programs rendered to real projects (TESTED, not proved)

VERSION_IDIOMS = ["literal", "read", "read_with", "io_open", "codecs_open", "regex", "import_pkg", "import_sub", "exec", "cfg",
                  "import_relative", "spec_load", "dunder_import", "ast_literal", "syspath_src"]
INSTALL_IDIOMS = ["literal", "read_lines", "read_iter", "import_helper", "cfg", "split_cfg"]
SHARED_IDIOMS = ["shared_spec", "shared_imp", "shared_plain", "shared_pkgsub", "shared_exec"]
SHARED_NAMES = ["version", "_about", "c12meta"]
HERE_STYLES = ["rel", "dirname_file", "abspath_dirname", "dirname_abspath", "chdir_here", "dotslash", "getcwd"]


def gen_program(rng, i: int) -> Dict[str, Any]:
    d = gen_decl(rng, "wf")
    d["install"] = [x for x in (d["install"] or [])]
    prog = {"decl": d, "version_idiom": rng.choice(VERSION_IDIOMS), "install_idiom": rng.choice(INSTALL_IDIOMS),
            "here": rng.choice(HERE_STYLES), "pkg": rng.choice(["pkg", "pkg", "mylib", "src_pkg"]), "i": i,
            "pyproject": False, "readme": rng.choice([None, None, "plain", "guarded", "noenc"]), "cfg_only": False, "bare_dir": False}
    r = rng.random()
    if r < 0.14:
        # a purely declarative project: setup.cfg only, with UTF-8 free text
        prog["cfg_only"] = True
        # (an option name is written at the start of its line: a padded key would be a continuation line of the
        # previous option in setup.cfg, i.e. another declaration than the one recorded here)
        d["extras"] = [[k.strip(), v] for k, v in d["extras"] if ":" not in k and '"' not in k and k.strip()]
        prog["text"] = rng.choice([t for t in FREE_TEXT if t])
        return prog
    if r < 0.3:
        # a bare checkout: the directory is named like the package it holds, files are reached through the
        # absolute path of setup.py, reads are guarded ("works from a bare checkout too")
        prog["bare_dir"] = True
        prog["version_idiom"] = rng.choice(["guarded_exists", "guarded_isfile", "guarded_try"])
        prog["here"] = rng.choice(["abspath_dirname", "dirname_abspath"])
        d["name"] = rng.choice(["a", "q", "pkg1", "tinytool", "x_y"])
        return prog
    if rng.random() < 0.12:
        prog["pyproject"] = True
        d["extras"] = [[k, v] for k, v in d["extras"] if ":" not in k]
    return prog


def render_program(prog: Dict[str, Any]) -> Tuple[List[Tuple[str, str]], Dict[str, Any]]:
    """files of the project and the effective declaration (what the program declares)"""
    d = prog["decl"]
    pkg = prog["pkg"]
    if prog["pyproject"]:
        return [("pyproject.toml", pyproject_text(d)), (pkg + "/__init__.py", "")], d
    if prog.get("cfg_only"):
        c = {"name": d["name"], "version": d["version"], "install": list(d["install"]),
             "extras": [[k, list(v)] for k, v in d["extras"]] or None, "text": prog.get("text")}
        eff0 = {"name": None, "version": None, "install": None, "extras": [], "framework": False, "cfg": c}
        return [(pkg + "/__init__.py", ""), ("setup.cfg", cfg_text(c))], eff0
    files: Dict[str, str] = {pkg + "/__init__.py": "# package\n"}
    eff = {"name": d["name"], "version": d["version"], "install": d["install"], "extras": d["extras"],
           "framework": False, "cfg": None}
    cfg: Dict[str, Any] = {"name": None, "version": None, "install": None, "extras": None}
    pre = ["import os, re, io, codecs, sys", "from setuptools import setup, find_packages"]
    here = prog["here"]
    if here == "dirname_file":
        pre.append("here = os.path.dirname(__file__)")
    elif here == "abspath_dirname":
        pre.append("here = os.path.abspath(os.path.dirname(__file__))")
    elif here == "dirname_abspath":
        pre.append("here = os.path.dirname(os.path.abspath(__file__))")
    elif here == "chdir_here":
        pre.append("os.chdir(os.path.dirname(os.path.abspath(__file__)))")

    if here == "getcwd":
        pre.append("here = os.getcwd()")

    def P(rel: str) -> str:
        if here in ("rel", "chdir_here"):
            return repr(rel)
        if here == "dotslash":
            return repr("./" + rel)
        return "os.path.join(here, %s)" % ", ".join(repr(p) for p in rel.split("/"))
    v = d["version"]
    vi = prog["version_idiom"]
    kw = ["name=%r" % d["name"]]
    if vi == "literal":
        kw.append("version=%r" % v)
    elif vi in ("read", "read_with", "io_open", "codecs_open"):
        # every third project keeps its version in a hidden file at the top level (decided by the declaration, so
        # that a program is a function of its description): a leading dot is part of the file's name in all packagings
        vfile = ".version" if zlib.crc32((d["name"] + "\0" + v).encode("utf-8")) % 3 == 0 else "VERSION"
        files[vfile] = v + "\n"
        if vi == "read" and zlib.crc32((d["name"] + "\0" + v + "\0t").encode("utf-8")) % 2 == 0:
            # tolerant reading: a default unless the file exists (a file the analyser cannot see is then a WRONG
            # version, not a failure the egg_info fall-back would repair)
            pre.append("version = '0.0.0.dev0'\nif os.path.exists(%s):\n    version = open(%s).read().strip()" % (P(vfile), P(vfile)))
        elif vi == "read":
            pre.append("version = open(%s).read().strip()" % P(vfile))
        elif vi == "read_with":
            pre.append("with open(%s, encoding='utf-8') as fh:\n    version = fh.read().strip()" % P(vfile))
        elif vi == "io_open":
            pre.append("version = io.open(%s, encoding='utf-8').read().strip()" % P(vfile))
        else:
            pre.append("version = codecs.open(%s, 'r', 'utf-8').read().strip()" % P(vfile))
        kw.append("version=version")
    elif vi == "regex":
        files[pkg + "/__init__.py"] = "# package\n__version__ = '%s'\n" % v
        pre.append("version = re.search(r\"__version__ = ['\\\"]([^'\\\"]+)['\\\"]\", open(%s).read()).group(1)" % P(pkg + "/__init__.py"))
        kw.append("version=version")
    elif vi == "import_pkg":
        files[pkg + "/__init__.py"] = "__version__ = '%s'\n" % v
        pre.append("from %s import __version__" % pkg)
        kw.append("version=__version__")
    elif vi == "import_sub":
        files[pkg + "/_version.py"] = "VERSION = '%s'\n" % v
        pre.append("from %s._version import VERSION" % pkg)
        kw.append("version=VERSION")
    elif vi == "exec":
        files[pkg + "/version.py"] = "__version__ = '%s'\n" % v
        pre.append("ns = {}\nexec(open(%s).read(), ns)" % P(pkg + "/version.py"))
        kw.append("version=ns['__version__']")
    elif vi == "cfg":
        cfg["version"] = v
        eff["version"] = None
    elif vi == "import_relative":
        files[pkg + "/_version.py"] = "VERSION = '%s'\n" % v
        files[pkg + "/__init__.py"] = "from ._version import VERSION as __version__\n"
        pre.append("from %s import __version__" % pkg)
        kw.append("version=__version__")
    elif vi == "spec_load":
        files[pkg + "/_version.py"] = "VERSION = '%s'\n" % v
        pre.append("import importlib.util\nspec = importlib.util.spec_from_file_location('_c12v', %s)\n"
                   "vmod = importlib.util.module_from_spec(spec)\nspec.loader.exec_module(vmod)" % P(pkg + "/_version.py"))
        kw.append("version=vmod.VERSION")
    elif vi == "dunder_import":
        files[pkg + "/__init__.py"] = "__version__ = '%s'\n" % v
        pre.append("version = __import__(%r).__version__" % pkg)
        kw.append("version=version")
    elif vi == "ast_literal":
        files[pkg + "/__init__.py"] = "# package\n__version__ = '%s'\n" % v
        pre.append("import ast\nfor line in open(%s):\n    if line.startswith('__version__'):\n"
                   "        version = ast.literal_eval(line.split('=', 1)[1].strip())" % P(pkg + "/__init__.py"))
        kw.append("version=version")
    elif vi == "syspath_src":
        files["src/c12verhelper.py"] = "VERSION = '%s'\n" % v
        pre.append("sys.path.insert(0, os.path.join(os.path.dirname(os.path.abspath(__file__)), 'src'))\nfrom c12verhelper import VERSION")
        kw.append("version=VERSION")
    elif vi in ("guarded_exists", "guarded_isfile", "guarded_try"):
        inner = d["name"]                        # the package directory carries the project's (= the checkout's) name
        files[inner + "/VERSION"] = v + "\n"
        pre.append("vfile = os.path.join(here, %r, 'VERSION')" % inner)
        if vi == "guarded_try":
            pre.append("try:\n    version = open(vfile).read().strip()\nexcept IOError:\n    version = '0.0.0'")
        else:
            test = "os.path.exists" if vi == "guarded_exists" else "os.path.isfile"
            pre.append("version = open(vfile).read().strip() if %s(vfile) else '0.0.0'" % test)
        kw.append("version=version")
    elif vi in SHARED_IDIOMS:
        # a helper module whose NAME is shared with other projects of the same batch (each with its own
        # values): what one project loads must never be what a later project sees
        N = prog["shared"]
        body = "VERSION = '%s'\nREQUIRES = %r\n" % (v, d["install"])
        if vi == "shared_spec":
            files[pkg + "/" + N + ".py"] = body
            pre.append("from importlib.util import module_from_spec, spec_from_file_location\n"
                       "spec = spec_from_file_location(%r, os.path.join(%r, %r))\n"
                       "hm = module_from_spec(spec)\nspec.loader.exec_module(hm)" % (N, pkg, N + ".py"))
            kw += ["version=hm.VERSION", "install_requires=hm.REQUIRES"]
        elif vi == "shared_imp":
            files[pkg + "/" + N + ".py"] = body
            pre.append("import imp\nhm = imp.load_source(%r, %r)" % (N, "./" + pkg + "/" + N + ".py"))
            kw += ["version=hm.VERSION", "install_requires=hm.REQUIRES"]
        elif vi == "shared_plain":
            files[N + ".py"] = body
            pre.append("from %s import VERSION, REQUIRES" % N)
            kw += ["version=VERSION", "install_requires=REQUIRES"]
        elif vi == "shared_pkgsub":
            files[pkg + "/" + N + ".py"] = body
            pre.append("from %s.%s import VERSION, REQUIRES" % (pkg, N))
            kw += ["version=VERSION", "install_requires=REQUIRES"]
        else:       # shared_exec
            files[pkg + "/" + N + ".py"] = body
            pre.append("ns = {}\nexec(open(%s).read(), ns)" % P(pkg + "/" + N + ".py"))
            kw += ["version=ns['VERSION']", "install_requires=ns['REQUIRES']"]
    if prog.get("readme"):
        files["README.rst"] = "Title\n=====\n\ntext \u00e9\n"
        if prog["readme"] == "noenc":
            pre.append("long_description = open(%s).read()" % P("README.rst"))
        elif prog["readme"] == "guarded":
            pre.append("long_description = io.open(%s, encoding='utf-8').read() if os.path.exists(%s) else ''" % (P("README.rst"), P("README.rst")))
        else:
            pre.append("long_description = io.open(%s, encoding='utf-8').read()" % P("README.rst"))
        kw.append("long_description=long_description")
    ii = prog["install_idiom"]
    ins = d["install"]
    if ii == "literal":
        kw.append("install_requires=%r" % ins)
    elif ii in ("read_lines", "read_iter"):
        files["requirements.txt"] = "".join(x + "\n" for x in ins)
        if ii == "read_lines":
            pre.append("reqs = open(%s).read().splitlines()" % P("requirements.txt"))
        else:
            pre.append("reqs = [ln.strip() for ln in open(%s) if ln.strip()]" % P("requirements.txt"))
        kw.append("install_requires=reqs")
    elif ii == "import_helper":
        files[pkg + "/_deps.py"] = "INSTALL = %r\n" % ins
        pre.append("from %s._deps import INSTALL" % pkg)
        kw.append("install_requires=INSTALL")
    elif ii == "shared":
        pass                       # install_requires comes from the shared helper module (above)
    elif ii == "cfg":
        cfg["install"] = list(ins)
        eff["install"] = None
    elif ii == "split_cfg":
        h = len(ins) // 2
        kw.append("install_requires=%r" % ins[:h])
        cfg["install"] = list(ins[h:])
        eff["install"] = ins[:h]
    if d["extras"]:
        kw.append("extras_require=%r" % {k: vv for k, vv in d["extras"]})
    kw.append("packages=find_packages()")
    kw.append("python_requires='>=3.6'")
    if any(x is not None for x in cfg.values()):
        files["setup.cfg"] = cfg_text(cfg)
        eff["cfg"] = cfg
    files["setup.py"] = "\n".join(pre) + "\nsetup(" + ", ".join(kw) + ")\n"
    return sorted(files.items()), eff


def gen_batch(rng, i: int) -> List[Dict[str, Any]]:
    """2-3 unrelated projects that keep version/requirements in a helper module of the SAME name, each
    loading it through a different idiom"""
    N = rng.choice(SHARED_NAMES)
    k = rng.choice([2, 3, 3])
    idioms = rng.sample(SHARED_IDIOMS, k)
    if "shared_plain" not in idioms and "shared_pkgsub" not in idioms and rng.random() < 0.8:
        idioms[rng.randrange(k)] = "shared_plain"
    pkgs = ["pkg", "pkg", "mylib"] if rng.random() < 0.5 else ["pkg", "mylib", "src_pkg"]
    out = []
    names = rng.sample(NAMES, k)
    for j in range(k):
        d = gen_decl(rng, "wf")
        d["name"] = names[j]
        d["install"] = [x for x in (d["install"] or [])] or [gen_head(rng)]
        d["version"] = rng.choice(VERSIONS)
        out.append({"decl": d, "version_idiom": idioms[j], "install_idiom": "shared", "here": "rel", "pkg": pkgs[j],
                    "i": i * 10 + j, "pyproject": False, "readme": None, "shared": N})
    return out


def leaked_modules(before: set, roots: List[str]) -> List[str]:
    """modules registered during an analysis whose __file__ lies inside an analysed project: absolute under
    its fake root, or relative (to the virtual cwd)"""
    out = []
    for name in list(sys.modules):
        if name in before:
            continue
        f = getattr(sys.modules.get(name), "__file__", None)
        if isinstance(f, str) and f and (not os.path.isabs(f) or any(f.startswith(r + "/") or f == r for r in roots)):
            out.append(name + ":" + f)
    return sorted(out)


def run_batch(enc440, MM, S, MetadataError, rendered: List[Dict[str, str]], order: List[int], kinds: List[str]) -> List[Any]:
    """analyse the projects in the given order in THIS process; returns [(obs, leaked modules)]"""
    out = []
    with Stubs(S):
        for idx in order:
            path = rendered[idx][kinds[idx]]
            before = set(sys.modules)
            obs = observe_extract(enc440, MM, MetadataError, path)
            root = "/" + os.path.basename(path)
            out.append((obs, leaked_modules(before, [root])))
    for n in SHARED_NAMES:                # never let a leak of one case poison the next
        sys.modules.pop(n, None)
    return out


def t2_batches(ctx: Ctx, enc440, MM, S, MetadataError) -> None:
    """T2 (b'): analysis ORDER - projects sharing helper-module names across idioms, in all orders"""
    import itertools
    rng = ctx.rng
    nb = ctx.n(8, 120)
    base = ctx.tmpdir() / "batches"
    for b in range(nb):
        batch = gen_batch(rng, b)
        rendered, effs, leads = [], [], []
        for j, prog in enumerate(batch):
            files, eff = render_program(prog)
            lead = "{}-{}".format(prog["decl"]["name"], _canon_version(prog["decl"]["version"]))
            rendered.append(render(base / f"{b}-{j}", lead, files))
            effs.append(eff)
            leads.append(lead)
        kinds_choices = [[rng.choice("DTZ") for _ in batch] for _ in range(2)] + [["D"] * len(batch)]
        lines = []
        for j, prog in enumerate(batch):
            for k in "DTZ":
                lines.append("F {} {} {}".format(k, fn_tokens(enc440, rendered[j][k], ctx), enc_decl(enc440, effs[j], None)))
        ans = run_model("C12", lines)
        for order in itertools.permutations(range(len(batch))):
            kinds = rng.choice(kinds_choices)
            res = run_batch(enc440, MM, S, MetadataError, rendered, list(order), kinds)
            for pos, idx in enumerate(order):
                obs, leaked = res[pos]
                want = dec_hres(ans[3 * idx + "DTZ".index(kinds[idx])])
                if want[0] == "UN":
                    continue
                if want[0] == "ERR":
                    want = ("MetadataError",)
                case = {"batch": [{k: p[k] for k in ("decl", "version_idiom", "install_idiom", "here", "pkg", "shared", "pyproject", "readme", "i")}
                                  for p in batch],
                        "order": list(order), "kinds": kinds, "position": pos, "project": idx}
                ctx.count("batches:idiom:" + batch[idx]["version_idiom"])
                ctx.count("batches:" + obs[0])
                ctx.case(key=("batch", json.dumps(case, sort_keys=True)), nontrivial=(pos > 0 and obs[0] == "OK"),
                         sample={"case": case, "impl": obs} if (b == 0 and pos == 1 and order[0] == 0) else None)
                if tuple(obs) != tuple(want):
                    ctx.mismatch("analysis-order", case, obs, want)
                if leaked:
                    ctx.mismatch("module-left-in-sys.modules", case, leaked, [])


def render_prog(base: Path, prog: Dict[str, Any], lead: str, files: List[Tuple[str, str]]) -> Dict[str, str]:
    paths = render(base, lead, files)
    if prog.get("bare_dir"):
        paths["D"] = render(base / "checkout", prog["decl"]["name"], files)["D"]     # directory named like its package
    return paths


BROKEN_SETUP = "from setuptools import setup\nraise RuntimeError('this project cannot be analysed')\n"


def t2_idioms(ctx: Ctx, enc440, MM, S, MetadataError) -> None:
    rng = ctx.rng
    nprog = ctx.n(45, 700)
    base = ctx.tmpdir() / "idioms"
    unrelated = ctx.tmpdir() / "elsewhere"
    unrelated.mkdir(parents=True, exist_ok=True)
    progs = []
    for i in range(nprog):
        prog = gen_program(rng, i)
        files, eff = render_program(prog)
        lead = "{}-{}".format(prog["decl"]["name"], _canon_version(prog["decl"]["version"]))
        paths = render_prog(base / str(i), prog, lead, files)
        progs.append((prog, files, eff, lead, paths))
    # projects that cannot be analysed, interleaved
    broken = []
    for j in range(max(2, nprog // 10)):
        lead = f"broken{j}-1.0"
        broken.append(render(base / f"b{j}", lead, [("setup.py", BROKEN_SETUP)]))
    jobs = []
    for pi, (prog, files, eff, lead, paths) in enumerate(progs):
        for k in ("D", "T", "Z"):
            for cw in ("project", "root", "elsewhere"):
                jobs.append((pi, k, cw))
    rng.shuffle(jobs)
    results: Dict[Tuple[int, str, str], Any] = {}
    old_cwd = os.getcwd()
    try:
        with Stubs(S) as stubs:
            for n_job, (pi, k, cw) in enumerate(jobs):
                prog, files, eff, lead, paths = progs[pi]
                if n_job % 7 == 3:
                    b = rng.choice(broken)
                    ob = observe_extract(enc440, MM, MetadataError, b[rng.choice("DTZ")])
                    ctx.count("idioms:broken-project:" + ob[0])
                    if ob != ("MetadataError",):
                        ctx.mismatch("unanalysable-project-not-a-metadata-failure", {"project": "raise in setup.py"}, ob, ("MetadataError",))
                path = paths[k]
                os.chdir(path if (cw == "project" and k == "D") else os.path.dirname(path) if cw == "project" else "/" if cw == "root" else str(unrelated))
                n_ev = len(stubs.events)
                results[(pi, k, cw)] = (observe_extract(enc440, MM, MetadataError, path), stubs.events[n_ev:])
                os.chdir(old_cwd)
    finally:
        os.chdir(old_cwd)
    lines = []
    for pi, (prog, files, eff, lead, paths) in enumerate(progs):
        cfgv = cfg_values(cfg_text(eff["cfg"])) if eff["cfg"] is not None else None
        for k in ("D", "T", "Z"):
            lines.append("F {} {} {}".format(k, fn_tokens(enc440, paths[k], ctx), enc_decl(enc440, eff, cfgv)))
        lines.append("D " + enc_decl(enc440, eff, cfgv))
    ans = run_model("C12", lines)
    for pi, (prog, files, eff, lead, paths) in enumerate(progs):
        declared = dec_hres(ans[4 * pi + 3])
        case_base = {k: prog.get(k) for k in ("version_idiom", "install_idiom", "here", "pkg", "pyproject", "readme", "cfg_only", "bare_dir", "text")}
        ctx.count("idioms:version:" + prog["version_idiom"])
        ctx.count("idioms:install:" + prog["install_idiom"])
        ctx.count("idioms:here:" + prog["here"])
        for ki, k in enumerate(("D", "T", "Z")):
            f = dec_hres(ans[4 * pi + ki])
            for cw in ("project", "root", "elsewhere"):
                obs, ev = results[(pi, k, cw)]
                case = dict(case_base, kind=k, cwd=cw, decl=prog["decl"], lead=lead)
                ctx.count(f"idioms:{k}:{obs[0]}")
                if prog["pyproject"]:
                    if k == "D":
                        want: Any = ("OK", declared[1], declared[2], sem_reqs(declared[3])) if declared[0] == "OK" else None
                        got = ("OK", obs[1], obs[2], sem_reqs(obs[3])) if obs[0] == "OK" else obs
                    else:
                        want, got = ("MetadataError",), obs          # known finding C12-pyproject-archive
                else:
                    want, got = f, obs
                    if f[0] == "UN":
                        ctx.count("idioms:unmodelled")
                        continue
                    if f[0] == "ERR":
                        want = ("MetadataError",)
                    # inside the guard the harvest IS the declaration
                    if f != declared and f[0] == "OK" and declared[0] == "OK" and (f[3] != declared[3]):
                        ctx.mismatch("idiom-program-outside-guard", case, f, declared)
                ctx.case(key=("idiom", json.dumps(case, sort_keys=True)), nontrivial=(got[0] == "OK" and k != "D"),
                         sample={"case": case, "files": [x for x, _ in files], "impl": obs} if (pi * 9 + ki) % 131 == 0 else None)
                if want is not None and tuple(got) != tuple(want):
                    ctx.mismatch("idiom-program", dict(case, files=files, events=ev), got, want)
            # equal across the three cwds by construction of the comparison; across packagings:
        if not prog["pyproject"]:
            obs_set = {json.dumps(results[(pi, k, cw)][0][3] if results[(pi, k, cw)][0][0] == "OK" else results[(pi, k, cw)][0])
                       for k in "DTZ" for cw in ("project", "root", "elsewhere")}
            if len(obs_set) != 1:
                ctx.mismatch("nine-combinations-differ", dict(case_base, decl=prog["decl"], files=files), sorted(obs_set), "one value")


def _canon_version(v: str) -> str:
    from packaging.version import Version
    return str(Version(v))


# ======================================================================================
# T2 (d): marker / requirement texts against packaging (the third-party specification)


def t2_texts(ctx: Ctx, enc440) -> None:
    import pkg_resources
    from packaging.markers import Marker
    rng = ctx.rng
    n = ctx.n(1200, 30000)
    lines = []
    exp = []
    for i in range(n):
        r = rng.random()
        if r < 0.75:
            t = gen_marker(rng, rng.random() < 0.3)
        elif r < 0.9:
            t = rng.choice(BAD_MARKERS)
        else:
            t = gen_marker(rng, False) + rng.choice([" and", ")", " (", ' or os_name', " and and os_name=='x'"])
        try:
            m = Marker(t)
            want = "OK " + hx(str(m))
        except Exception:
            m = None
            want = "ERR"
        lines.append("M " + hx(t))
        exp.append(("marker", t, want))
        if m is not None:
            # evaluation under an environment given as a truth table of the atoms
            env = {"os_name": rng.choice(["nt", "posix"]), "sys_platform": rng.choice(["linux", "win32"]),
                   "python_version": rng.choice(["2.7", "3.8", "4.1"]), "python_full_version": rng.choice(["3.6.0", "3.8.1"]),
                   "platform_machine": rng.choice(["x86_64", "armv7"]), "platform_system": rng.choice(["Windows", "Linux"]),
                   "implementation_name": rng.choice(["cpython", "pypy"]), "platform_release": rng.choice(["4", "6"]),
                   "extra": rng.choice(["", "foo-bar", "dev"])}
            atoms = _atoms_of(m._markers)
            tbl = []
            for a in atoms:
                tbl.append((a, Marker(a).evaluate(env)))
            lines.append("E {} {} {}".format(hx(t), len(tbl), " ".join(hx(a) + " " + ("1" if b else "0") for a, b in tbl)).strip())
            exp.append(("marker-eval", (t, env), "1" if m.evaluate(env) else "0"))
    for i in range(ctx.n(400, 8000)):
        ln = gen_req_line(rng, rng.random() < 0.4)
        ln = decorate(rng, ln).replace("\n", "")
        if rng.random() < 0.1:
            ln = gen_head(rng) + ";" + rng.choice(BAD_MARKERS)
        try:
            import req_compile.utils as U
            want = "OK " + hx(str(U.parse_requirement(ln)))
        except Exception:
            want = "ERR"
        lines.append("Q " + hx(ln))
        exp.append(("requirement-text", ln, want))
    ans = run_model("C12", lines)
    if len(ans) != len(lines):
        ctx.obligation_broken("model-runner:C12", "text cases")
        return
    for (what, case, want), a in zip(exp, ans):
        ctx.count("texts:" + what)
        if a == "UN":
            ctx.count("texts:unmodelled")
            continue
        ctx.case(key=(what, repr(case)), nontrivial=(want.startswith("OK") or what == "marker-eval"))
        if a != want:
            ctx.mismatch(what, case, want if not want.startswith("OK ") else "OK " + unhx(want[3:]),
                         a if not a.startswith("OK ") else "OK " + unhx(a[3:]))


def _truth(ms: Any, val: Dict[str, bool]) -> bool:
    groups: List[List[bool]] = [[]]
    for m in ms:
        if isinstance(m, list):
            groups[-1].append(_truth(m, val))
        elif isinstance(m, tuple):
            groups[-1].append(val[" ".join(x.serialize() for x in m)])
        elif m == "or":
            groups.append([])
    return any(all(g) for g in groups)


def sem_reqs(reqs: List[str]) -> List[Any]:
    """requirements up to the MEANING of their markers (truth table over the atoms): setuptools
    parenthesises every multi-atom marker, the declared composition only where 'or' needs it"""
    import itertools
    from packaging.requirements import Requirement
    out = []
    for r in reqs:
        q = Requirement(r)
        if q.marker is None:
            out.append((r, None))
            continue
        atoms = sorted(set(_atoms_of(q.marker._markers)))
        rows = []
        for bits in itertools.product([False, True], repeat=min(len(atoms), 10)):
            val = dict(zip(atoms, bits))
            rows.append(_truth(q.marker._markers, val))
        head = str(q).split(";")[0]
        out.append((head, (tuple(atoms), tuple(rows))))
    return sorted(out, key=repr)


def _atoms_of(ms: Any) -> List[str]:
    out = []
    for m in ms:
        if isinstance(m, list):
            out += _atoms_of(m)
        elif isinstance(m, tuple):
            out.append(" ".join(x.serialize() for x in m))
    return out


# ======================================================================================
# T2 (e): the frame condition - global state before/after every analysis, sequences of projects


def frame_attr_names() -> List[str]:
    import tr_c12
    try:
        steps, begin, ctxp, ctx_ok, restored, pep = tr_c12.read_frame()
    except Exception:      # T1 failing is reported by translate(); the frame check must still run
        begin = ["importlib.util.spec_from_file_location", "importlib.util.module_from_spec", "imp.load_source"]
        ctxp = ["sys.stderr", "sys.stdout", "sys.stdin", "os._exit", "os.symlink", "builtins.open", "subprocess.check_call",
                "subprocess.check_output", "subprocess.Popen", "multiprocessing.Pool", "multiprocessing.Process",
                "urllib.request.urlretrieve", "requests.Session", "requests.get", "requests.post", "os.listdir",
                "os.path.exists", "os.path.isfile", "os.rename", "io.open", "codecs.open", "setuptools.setup",
                "distutils.core.setup", "fileinput.input", "setuptools.find_packages", "sys.argv"]
    names = []
    for n in begin + ctxp + ["os.chdir", "os.getcwd", "os.path.abspath"]:
        if n not in names:
            names.append(n)
    return names


def _resolve_attr(name: str) -> Any:
    import importlib
    parts = name.split(".")
    for i in range(len(parts) - 1, 0, -1):
        modname = ".".join(parts[:i])
        mod = sys.modules.get(modname)
        if mod is None:
            try:
                mod = importlib.import_module(modname)
            except Exception:
                continue
        obj = mod
        try:
            for a in parts[i:]:
                obj = getattr(obj, a)
        except AttributeError:
            return ("<absent>",)
        return obj
    return ("<absent>",)


def class_level_renames() -> List[Any]:
    """a rename table that outlives the extractor it was filled through: state on the Extractor CLASSES"""
    import req_compile.metadata.extractor as X
    out = []
    for c in (X.Extractor, X.NonExtractor, X.TarExtractor, X.ZipExtractor):
        t = c.__dict__.get("renames")
        if isinstance(t, dict):
            out += [[str(k), str(v)] for k, v in t.items()]
    return sorted(out)


class Frame:
    """the process-global state the bracket of extract_metadata must give back"""

    def __init__(self, names: List[str]):
        self.names = names
        self.cwd = os.getcwd()
        self.path = list(sys.path)
        self.meta = list(sys.meta_path)
        self.mods = dict(sys.modules)
        self.attrs = {n: (list(sys.argv) if n == "sys.argv" else _resolve_attr(n)) for n in names}
        self.root_level = logging.getLogger().level
        self.capture = logging._warnings_showwarning is not None
        self.renames = class_level_renames()

    def delta(self) -> Dict[str, Any]:
        """what differs NOW from the snapshot, in the model's terms"""
        out: Dict[str, Any] = {}
        out["cwd"] = os.getcwd()
        out["path"] = list(sys.path)
        out["hooks"] = len([h for h in sys.meta_path if all(h is not m for m in self.meta)])
        own = []
        for name, mod in list(sys.modules.items()):
            if name in self.mods and self.mods[name] is mod:
                continue
            f = getattr(mod, "__file__", None)
            if isinstance(f, str) and f and (not os.path.isabs(f) or not os.path.exists(f)):
                own.append(name)
        out["modules"] = sorted(own)
        pat = []
        for n in self.names:
            cur = list(sys.argv) if n == "sys.argv" else _resolve_attr(n)
            if (cur != self.attrs[n]) if n == "sys.argv" else (cur is not self.attrs[n] and cur != self.attrs[n]):
                pat.append(n)
        out["patched"] = sorted(pat)
        out["capture"] = logging._warnings_showwarning is not None
        out["renames"] = class_level_renames()
        return out

    def restore(self) -> None:
        os.chdir(self.cwd)
        sys.path[:] = self.path
        sys.meta_path[:] = self.meta
        for name in list(sys.modules):
            if name not in self.mods:
                f = getattr(sys.modules[name], "__file__", None)
                if isinstance(f, str) and f and (not os.path.isabs(f) or not os.path.exists(f)):
                    del sys.modules[name]
        import importlib
        for n, v in self.attrs.items():
            if v == ("<absent>",):
                continue
            parts = n.split(".")
            for i in range(len(parts) - 1, 0, -1):
                mod = sys.modules.get(".".join(parts[:i]))
                if mod is not None and len(parts) - i == 1:
                    try:
                        setattr(mod, parts[-1], v)
                    except Exception:
                        pass
                    break
        logging.getLogger().setLevel(self.root_level)
        logging.captureWarnings(self.capture)
        import req_compile.metadata.extractor as X
        for c in (X.Extractor, X.NonExtractor, X.TarExtractor, X.ZipExtractor):
            if isinstance(c.__dict__.get("renames"), dict):
                c.__dict__["renames"].clear()


FRAME_KINDS = ["helper", "helper", "pop0", "pop0", "drop", "remove", "insert", "raise", "sysexit", "chdir", "pep517", "pep517_broken",
               "rename", "rename", "readver", "readver", "damaged_zip", "damaged_tar"]
TEMPLATE_VERSION = "0.0.0.dev0"
PEP517_TMPL = ('[build-system]\nrequires = ["setuptools"]\nbuild-backend = "setuptools.build_meta"\n[project]\nname = "{name}"\n'
               '{ver}\ndependencies = ["own{i}>=1"]\n')


def gen_frame_project(rng, i: int, helper: str, kind: Optional[str] = None) -> Dict[str, Any]:
    kind = kind or rng.choice(FRAME_KINDS)
    name = "fp%d" % i
    version = "%d.%d" % (1 + i % 7, i % 5)
    return {"i": i, "kind": kind, "name": name, "version": version, "helper": helper,
            "packaging": "D" if kind.startswith("pep517") else "Z" if kind == "damaged_zip" else "T" if kind == "damaged_tar" else rng.choice("DTZ"),
            "relative": rng.random() < 0.5, "updir": rng.random() < 0.3}


def frame_files(fp: Dict[str, Any]) -> List[Tuple[str, str]]:
    i, kind, N = fp["i"], fp["kind"], fp["helper"]
    body = "VERSION = %r\nREQUIRES = ['own%d>=1']\n" % (fp["version"], i)
    if kind == "pep517":
        return [("pyproject.toml", PEP517_TMPL.format(name=fp["name"], ver='version = "%s"' % fp["version"], i=i)), (fp["name"] + "/__init__.py", "")]
    if kind == "pep517_broken":
        return [("pyproject.toml", PEP517_TMPL.format(name=fp["name"], ver='dynamic = ["version"]', i=i)
                 + '[tool.setuptools.dynamic]\nversion = {attr = "nosuchmodule%d.__version__"}\n' % i), (fp["name"] + "/__init__.py", "")]
    if kind.startswith("damaged"):
        # an ordinary project whose setup.py reads its requirements file; the ARCHIVE is damaged afterwards so that the
        # damage only shows when that member is read (see damage_zip_member / damage_tar_payload)
        return [("setup.py", "from setuptools import setup\nreqs = open('requirements.txt').read().split()\n"
                             "setup(name=%r, version=%r, install_requires=reqs)\n" % (fp["name"], fp["version"])),
                ("requirements.txt", "own%d>=1\n" % i + "".join("filler%d\n" % j for j in range(400)))]
    if kind in ("rename", "readver"):
        # the version lives in a data file; "rename" promotes VERSION.in to VERSION first (os.rename is emulated
        # by the analyser: Extractor.add_rename), "readver" reads its own VERSION and also ships a VERSION.in template
        pre = ["import os", "from setuptools import setup"]
        if kind == "rename":
            files = [("VERSION.in", fp["version"] + "\n")]
            pre.append("os.rename('VERSION.in', 'VERSION')")
        else:
            files = [("VERSION", fp["version"] + "\n"), ("VERSION.in", TEMPLATE_VERSION + "\n")]
        pre.append("v = open('VERSION').read().strip()")
        pre.append("setup(name=%r, version=v, install_requires=['own%d>=1', 'tag-' + v.replace('.', '-')])" % (fp["name"], i))
        return files + [("setup.py", "\n".join(pre) + "\n")]
    pre = ["import os, sys", "here = os.path.dirname(os.path.abspath(__file__))"]
    files = []
    if kind == "insert":
        files.append(("src/" + N + ".py", body))
        pre.append("sys.path.insert(0, os.path.join(here, 'src'))")
    else:
        files.append((N + ".py", body))
    pre.append("from %s import VERSION, REQUIRES" % N)
    if kind == "pop0":
        pre.append("sys.path.pop(0)   # remove current dir from sys.path")
    elif kind == "drop":
        pre.append("sys.path = [p for p in sys.path if p != here]")
    elif kind == "remove":
        pre.append("sys.path.remove(here)")
    elif kind == "chdir":
        files.append(("pkg/__init__.py", ""))
        pre.append("os.chdir('pkg')")
    elif kind == "raise":
        pre.append("raise RuntimeError('this project cannot be analysed')")
    pre.append("from setuptools import setup")
    pre.append("setup(name=%r, version=VERSION, install_requires=REQUIRES)" % fp["name"])
    if kind == "sysexit":
        pre.append("sys.exit(0)")
    files.append(("setup.py", "\n".join(pre) + "\n"))
    return files


def frame_model_project(fp: Dict[str, Any], lead: str, arg: str, real_dir: str) -> str:
    k = fp["packaging"]
    root = {"D": "/" + lead, "T": "/" + lead + ".tar.gz", "Z": "/" + lead + ".zip"}[k]
    sd = root + "/" if k == "D" else root + "/" + lead
    here = root if k == "D" else sd
    kind, N = fp["kind"], fp["helper"]
    if kind.startswith("pep517"):
        return "{} {} {} {} - 0 0 0 0 R".format(fp["i"], "P1" if kind == "pep517_broken" else "P0", hx(arg), hx(real_dir))
    rel = "" if k == "D" else lead + "/"         # Extractor.to_relative: names relative to the fake root
    if kind in ("rename", "readver"):
        data = [rel + f for f, _ in frame_files(fp) if f != "setup.py"]
        ops = (["N {} {}".format(hx(rel + "VERSION.in"), hx(rel + "VERSION"))] if kind == "rename" else []) + ["F " + hx(rel + "VERSION")]
        return "{} S {} {} {} 0 {} {} 0 {} {} R".format(fp["i"], hx(arg), hx(real_dir), hx(sd), len(data), " ".join(hx(x) for x in data),
                                                        len(ops), " ".join(ops))
    if kind.startswith("damaged"):
        data = [rel + "requirements.txt"]
        return "{} S {} {} {} 0 1 {} 1 1 F {} R".format(fp["i"], hx(arg), hx(real_dir), hx(sd), hx(data[0]), hx(data[0]))
    ops = []
    helpers = [(N, sd)]
    if kind == "insert":
        helpers = [(N, here + "/src")]
        ops.append("A " + hx(here + "/src"))
    ops.append("I " + hx(N))
    if kind == "pop0":
        ops.append("O")
    elif kind == "drop":
        ops.append("D " + hx(here))
    elif kind == "remove":
        ops.append("R " + hx(here))
    elif kind == "chdir":
        ops.append("C " + hx("pkg"))
    ending = "X" if kind == "raise" else "E" if kind == "sysexit" else "R"
    return "{} S {} {} {} {} {} 0 0 {} {} {}".format(
        fp["i"], hx(arg), hx(real_dir), hx(sd), len(helpers), " ".join(hx(n) + " " + hx(d) for n, d in helpers),
        len(ops), " ".join(ops), ending)


def dec_frame_answer(ans: str) -> List[Dict[str, Any]]:
    out = []
    for part in ans.split(" || "):
        g, o, st = [x.strip().split() for x in part.split(" | ")]
        nr = int(o[1])
        reads = [(unhx(x.split(":")[0]), unhx(x.split(":")[1])) for x in o[2:2 + nr]]
        o = [o[0]] + o[2 + nr:]
        n = int(o[1])
        seen = [(unhx(x.split(":")[0]), int(x.split(":")[1])) for x in o[2:2 + n]]
        failed, escaped = o[2 + n] == "1", o[3 + n] == "1"
        i = 0
        cwd = unhx(st[i]); i += 1
        capture = st[i] == "1"; i += 1
        k = int(st[i]); renames = sorted([unhx(x.split(":")[0]), unhx(x.split(":")[1])] for x in st[i + 1:i + 1 + k]); i += 1 + k
        k = int(st[i]); path = [unhx(x) for x in st[i + 1:i + 1 + k]]; i += 1 + k
        k = int(st[i]); hooks = k; i += 1 + k
        k = int(st[i]); mods = sorted(unhx(x.split(":")[0]) for x in st[i + 1:i + 1 + k]); i += 1 + k
        k = int(st[i]); pat = sorted(unhx(x) for x in st[i + 1:i + 1 + k])
        out.append({"guard": g[0] == "1", "resolved": unhx(o[0]), "seen": seen, "reads": reads, "failed": failed, "escaped": escaped,
                    "state": {"cwd": cwd, "path": path, "hooks": hooks, "modules": mods, "patched": pat, "capture": capture,
                              "renames": renames}})
    return out


def owner_of(obs: Any) -> Optional[int]:
    import re
    reqs = obs[3] if obs[0] in ("OK", "OKSEM") else []
    for r in reqs:
        m = re.match(r"own(\d+)", r)
        if m:
            return int(m.group(1))
    return None


def tag_of(obs: Any) -> Optional[str]:
    reqs = obs[3] if obs[0] in ("OK", "OKSEM") else []
    for r in reqs:
        if r.startswith("tag-"):
            return r.split(";")[0].strip()
    return None


def tag_for(content: str) -> str:
    return "tag-" + content.strip().replace(".", "-")


def served_content(fp: Dict[str, Any], served: str) -> Optional[str]:
    """the content of the member [served] (relative to the fake root) of this project"""
    base = served.rsplit("/", 1)[-1]
    for f, c in frame_files(fp):
        if f == base:
            return c
    return None


def damage_zip_member(path: str, member_suffix: str) -> None:
    """intact central directory, one member whose (stored) data no longer matches its CRC-32: found only when read"""
    data = bytearray(Path(path).read_bytes())
    with zipfile.ZipFile(path) as zf:
        info = [i for i in zf.infolist() if i.filename.endswith(member_suffix)][0]
        start = info.header_offset + 30 + len(info.filename.encode()) + len(info.extra)
    # the local header's extra field may differ from the central one: locate the data by its content instead
    body = b"filler7\n"
    pos = data.find(body, info.header_offset)
    data[pos] = ord("F")
    Path(path).write_bytes(bytes(data))


def damage_tar_payload(path: str) -> None:
    """a COMPLETE gzip stream whose tar payload ends inside the last member: found only when that member is read"""
    import gzip
    raw = gzip.decompress(Path(path).read_bytes())
    with tarfile.open(path) as tf:
        last = [m for m in tf.getmembers() if m.isreg()][-1]
    cut = last.offset_data + max(1, last.size // 2)
    Path(path).write_bytes(gzip.compress(raw[:cut]))


def run_frame_sequence(enc440, MM, S, MetadataError, ws: Path, seq: List[Dict[str, Any]], names: List[str],
                       real_egg_info: bool = False) -> List[Dict[str, Any]]:
    """render the projects of seq, then analyse them in order in this process from ONE working directory
    (the caller never chdirs in between); per step: observation and the global state after it"""
    out = []
    start = Frame(names)
    cwd = ws
    if seq and seq[0].get("updir"):
        cwd = ws / "work" / "here"
    cwd.mkdir(parents=True, exist_ok=True)
    for fp in seq:
        lead = "{}-{}".format(fp["name"], fp["version"])
        paths = render(ws / ("p%d" % fp["i"]), lead, frame_files(fp))
        target = paths[fp["packaging"]]
        fp["_target"], fp["_lead"] = target, lead
        fp["_arg"] = os.path.relpath(target, str(cwd)) if fp["relative"] else target
        if fp["kind"] == "damaged_zip":
            damage_zip_member(target, "requirements.txt")
        elif fp["kind"] == "damaged_tar":
            damage_tar_payload(target)
    try:
        os.chdir(cwd)
        with Stubs(S, real_egg_info=real_egg_info):
            for pos, fp in enumerate(seq):
                before = Frame(names)
                if fp["kind"].startswith("damaged"):
                    # the archive error surfaces in the fall-back's extract(): that part must run for real
                    with Stubs(S, real_egg_info=True):
                        obs = observe_extract(enc440, MM, MetadataError, fp["_arg"], semantic=real_egg_info)
                else:
                    obs = observe_extract(enc440, MM, MetadataError, fp["_arg"], semantic=real_egg_info)
                d = before.delta()
                same = {"cwd": before.cwd, "path": before.path, "hooks": 0, "modules": [], "patched": [], "capture": before.capture,
                        "renames": before.renames}
                changed = {k: v for k, v in d.items() if v != same[k]}
                if "path" in changed:
                    changed["path"] = {"added": [x for x in d["path"] if x not in before.path],
                                       "removed": [x for x in before.path if x not in d["path"]]}
                out.append({"obs": obs, "changed": changed, "cwd_before": before.cwd, "path_before": before.path,
                            "capture_before": before.capture,
                            "state": {"cwd": d["cwd"], "path": d["path"], "capture": d["capture"], "renames": d["renames"],
                                      "hooks": len([h for h in sys.meta_path if all(h is not m for m in start.meta)]),
                                      "modules": Frame.delta(start)["modules"], "patched": Frame.delta(start)["patched"]}})
    finally:
        start.restore()
    return out


def gen_frame_sequence(rng, base_i: int) -> List[Dict[str, Any]]:
    N = rng.choice(SHARED_NAMES)
    n = rng.choice([2, 3, 3, 4])
    seq = [gen_frame_project(rng, base_i + j, N if rng.random() < 0.8 else rng.choice(SHARED_NAMES)) for j in range(n)]
    r = rng.random()
    if r < 0.35:          # the classic: a project that takes the setup dir off sys.path, then an ordinary one
        seq[0] = gen_frame_project(rng, base_i, N, rng.choice(["pop0", "drop", "remove"]))
        seq[1] = gen_frame_project(rng, base_i + 1, N, "helper")
    elif r < 0.6:         # a failing PEP 517 backend, then a project named by a relative path
        seq[0] = gen_frame_project(rng, base_i, N, "pep517_broken")
        seq[1] = gen_frame_project(rng, base_i + 1, N, rng.choice(["helper", "pep517", "chdir"]))
        seq[1]["relative"] = True
    elif r < 0.9 and r >= 0.8:   # healthy, damaged archive, healthy
        seq = [gen_frame_project(rng, base_i, N, rng.choice(["helper", "readver"])),
               gen_frame_project(rng, base_i + 1, N, rng.choice(["damaged_zip", "damaged_tar"])),
               gen_frame_project(rng, base_i + 2, N, rng.choice(["helper", "chdir", "readver"]))]
    elif r < 0.8:         # a project that renames a data file, then one that reads the new name while shipping the old one
        seq[0] = gen_frame_project(rng, base_i, N, "rename")
        seq[1] = gen_frame_project(rng, base_i + 1, N, "readver")
        if rng.random() < 0.7:
            seq[0]["packaging"] = seq[1]["packaging"] = "D"      # directories share the key "VERSION"
    return seq


def t2_frames(ctx: Ctx, enc440, MM, S, MetadataError) -> None:
    rng = ctx.rng
    names = frame_attr_names()
    nseq = ctx.n(14, 300)
    base = ctx.tmpdir() / "frames"
    for sidx in range(nseq):
        seq = gen_frame_sequence(rng, 100 * sidx)
        if sidx < 2:      # every run: healthy, damaged archive (zip, then tar), healthy
            seq = [gen_frame_project(rng, 100 * sidx, "_about", "helper"),
                   gen_frame_project(rng, 100 * sidx + 1, "_about", ["damaged_zip", "damaged_tar"][sidx]),
                   gen_frame_project(rng, 100 * sidx + 2, "_about", rng.choice(["helper", "readver"]))]
        ws = base / str(sidx)
        ws.mkdir(parents=True, exist_ok=True)
        steps = run_frame_sequence(enc440, MM, S, MetadataError, ws, seq, names)
        # the model, started in the same cwd / sys.path
        line = "S {} {} {} {} {}".format(hx(steps[0]["cwd_before"]), int(steps[0]["capture_before"]), len(steps[0]["path_before"]), " ".join(hx(p) for p in steps[0]["path_before"]), len(seq))
        for fp in seq:
            line += " " + frame_model_project(fp, fp["_lead"], fp["_arg"], fp["_target"])
        model = dec_frame_answer(run_model("C12", [line])[0])
        diverged = False
        for pos, (fp, st, mo) in enumerate(zip(seq, steps, model)):
            case = {"sequence": [{k: v for k, v in f.items() if not k.startswith("_")} for f in seq], "position": pos}
            ctx.count("frames:kind:" + fp["kind"])
            ctx.count("frames:obs:" + st["obs"][0])
            ctx.count("frames:quiescent-before" if mo["guard"] else "frames:not-quiescent-before")
            ctx.case(key=("frame", json.dumps(case, sort_keys=True)), nontrivial=pos > 0,
                     sample={"case": case, "impl": st["obs"], "changed": st["changed"]} if (sidx == 0 and pos == 1) else None)
            # (i) model-independent: the frame condition itself, for EVERY script (insertions included since 6eecba5)
            if st["changed"]:
                ctx.mismatch("frame-condition", case, st["changed"], {})
            # (ii) model-independent: the result is the project's own, whatever came before
            own = owner_of(st["obs"])
            if own is not None and own != fp["i"]:
                ctx.mismatch("result-depends-on-history", case, {"served": own, "obs": st["obs"]}, {"own": fp["i"]})
            # model-independent: a project that cannot be analysed is a METADATA failure of that project
            if (fp["kind"].startswith("damaged") or fp["kind"] in ("raise", "pep517_broken")) and st["obs"] != ("MetadataError",):
                ctx.mismatch("failure-not-a-metadata-failure", case, st["obs"], ("MetadataError",))
            if fp["kind"] in ("rename", "readver") and st["obs"][0] == "OK" and tag_of(st["obs"]) != tag_for(fp["version"]):
                ctx.mismatch("result-depends-on-history", case, {"read": tag_of(st["obs"]), "obs": st["obs"]}, {"own": tag_for(fp["version"])})
            if diverged:
                continue
            # (iii) correspondence with the model: the state after the analysis, and the outcome
            if st["state"] != mo["state"]:
                small = lambda x: {k: (v if k != "path" else v[:3] + ["..."]) for k, v in x.items()}
                ctx.mismatch("frame-state", case, small(st["state"]), small(mo["state"]))
                diverged = True
            found = os.path.normpath(mo["resolved"]) == os.path.normpath(fp["_target"])
            if not found:
                want_obs: Any = ("EXC",)                  # "Source file/path ... does not exist"
            elif mo["escaped"]:
                want_obs = ("EXC",)
            elif mo["failed"]:
                want_obs = ("MetadataError",)
            else:
                want_obs = ("OK", [o for _, o in mo["seen"]][:1] or [fp["i"]])
            got = st["obs"]
            got_obs: Any = ("EXC",) if got[0] == "EXC" else ("MetadataError",) if got[0] == "MetadataError" else ("OK", [owner_of(got)])
            if want_obs[0] == "OK" and mo["reads"]:
                # which member the model says was served decides the version the script saw
                c = served_content(fp, mo["reads"][-1][1])
                want_obs = want_obs + (tag_for(c) if c is not None else None,)
                got_obs = got_obs + (tag_of(got),) if got_obs[0] == "OK" else got_obs
            if got_obs != want_obs:
                ctx.mismatch("frame-outcome", case, got, want_obs)
                diverged = True


# ======================================================================================
# T2 (f): the egg_info fall-back, run for real on a small sample (it is NOT modelled: results are compared
# with the declaration)

FALLBACK_SETUP = ("import subprocess, sys\nout = subprocess.check_output([sys.executable, '-c', 'print(1)'])\n"
                  "from setuptools import setup\nsetup(name=%r, version=%r, py_modules=[], install_requires=['own%d>=1'])\n")


def t2_fallback(ctx: Ctx, enc440, MM, S, MetadataError) -> None:
    from packaging.version import Version
    rng = ctx.rng
    base = ctx.tmpdir() / "fallback"
    for i in range(ctx.n(2, 12)):
        name, version = rng.choice(["na", "fb-proj", "Foo.Bar"]), rng.choice(["1.0", "2.3.1"])
        files = [("setup.py", FALLBACK_SETUP % (name, version, i))]
        arch = render(base / str(i), "{}-{}".format(name, version), files)
        checkout = render(base / str(i) / "co", rng.choice(["work-copy", "checkout", "src"]), files)["D"]
        for k, path in (("D", checkout), (rng.choice("TZ"), None)):
            path = path or arch[k]
            with Stubs(S, real_egg_info=True) as st:
                obs = observe_extract(enc440, MM, MetadataError, path, semantic=True)
            case = {"name": name, "version": version, "kind": k, "given as": os.path.basename(path)}
            ctx.count("fallback:" + obs[0])
            ctx.case(key=("fallback", json.dumps(case, sort_keys=True)), nontrivial=True)
            want = ("OKSEM", name, enc440.ver_token(Version(version)), ["own%d>=1" % i])
            if "egg_info" not in st.events:
                ctx.mismatch("fallback-not-requested", case, st.events, ["egg_info"])
            if tuple(obs) != want:
                ctx.mismatch("fallback-result", case, obs, want)


# ======================================================================================
# module interface


def translate(ctx: Ctx) -> Dict[str, str]:
    import tr_c12
    return {"gen/HarvestC12Consts.v": tr_c12.generate(), "gen/FrameC12Consts.v": tr_c12.generate_frame()}


def correspondence(ctx: Ctx) -> None:
    enc440, MM, S, X, MetadataError = _imports()
    S.FAILED_BUILDS.clear()
    os.chdir(common.VERIF)
    run_corpus(ctx, enc440, MM, S, MetadataError)
    t2_texts(ctx, enc440)
    t2_direct(ctx, enc440, S)
    t2_paths(ctx, enc440, MM, S, MetadataError)
    t2_rendered(ctx, enc440, MM, S, MetadataError)
    t2_idioms(ctx, enc440, MM, S, MetadataError)
    t2_batches(ctx, enc440, MM, S, MetadataError)
    t2_frames(ctx, enc440, MM, S, MetadataError)
    t2_fallback(ctx, enc440, MM, S, MetadataError)
    coq_recheck(ctx, enc440)


def coq_recheck(ctx: Ctx, enc440) -> None:
    """a sample (and the theorem witnesses) re-evaluated inside Coq, so that no verdict rests on extraction alone"""
    rng = ctx.rng
    from packaging.markers import Marker
    items = []
    for _ in range(ctx.n(60, 200)):
        t = gen_marker(rng, rng.random() < 0.5)
        try:
            want = str(Marker(t))
        except Exception:
            continue
        items.append("({}, {})".format(common.coq_string(t), common.coq_string(want)))
    header = ("From Coq Require Import List String Ascii Bool.\nFrom RC Require Import lib.PyStr model.HarvestC12.\n"
              "Import ListNotations.\nOpen Scope string_scope.\n")
    body = ["Definition cases : list (string * string) := [" + ";\n ".join(items) + "].",
            "Definition bad := filter (fun c => match parse_marker_text (fst c) with POk l => negb (String.eqb (fmt_list true l) (snd c)) | _ => true end) cases.",
            "Eval vm_compute in (List.length bad)."]
    ok, out = common.coq_eval("c12_cases", header, body)
    ctx.extra["coq_recheck"] = {"cases": len(items), "ok": ok}
    if not ok or "= 0" not in out:
        ctx.mismatch("coq-vm_compute-recheck", {"n": len(items)}, "0 mismatches", out[-400:])


# ---- corpus: the witnesses of the _refuted theorems, replayed on the real code ---------------


def _corpus(name: str) -> Dict[str, Any]:
    return json.loads((CORPUS / name).read_text())


def _build(ctx: Ctx, tag: str, entry: Dict[str, Any]) -> Dict[str, str]:
    base = ctx.tmpdir() / "corpus" / tag
    if base.exists():
        shutil.rmtree(base)
    return render(base, entry["lead"], [(f, c) for f, c in entry["files"]])


def finding_status(ctx: Ctx, entry: Dict[str, Any], enc440, MM, S, MetadataError) -> Tuple[bool, Any]:
    """(still violates the property statement?, observation).  Independent of the model."""
    os.chdir(common.VERIF)
    try:
        return _finding_status(ctx, entry, enc440, MM, S, MetadataError)
    finally:
        os.chdir(common.VERIF)        # a defective bracket must not leave the harness in a scratch directory


def _finding_status(ctx: Ctx, entry: Dict[str, Any], enc440, MM, S, MetadataError) -> Tuple[bool, Any]:
    paths = _build(ctx, entry["id"], entry)
    kind = entry["check"]
    with Stubs(S):
        if kind == "requirement-active-without-extra":
            r = MM.extract_metadata(paths["D"])
            base = sorted(str(x).split(";")[0] for x in r.requires())
            return entry["requirement"] in base, base
        if kind == "requirement-missing-with-extra":
            r = MM.extract_metadata(paths["D"])
            got = sorted(str(x).split(";")[0] for x in r.requires(entry["extra"]))
            return entry["requirement"] not in got, got
        if kind == "directory-ok-archive-fails":
            obs = {k: observe_extract(enc440, MM, MetadataError, paths[k], semantic=True) for k in "DTZ"}
            bad = obs["D"][0].startswith("OK") and (obs["T"] != obs["D"] or obs["Z"] != obs["D"])
            return bad, obs
        if kind == "order-dependence":
            # project B alone vs. after project A (same directory / archive name, other location)
            base = ctx.tmpdir() / "corpus" / (entry["id"] + "-b")
            if base.exists():
                shutil.rmtree(base)
            pb = render(base, entry["lead"], [(f, c) for f, c in entry["files_b"]])
            fr = Frame(frame_attr_names())
            try:
                S.FAILED_BUILDS.clear()
                alone = observe_extract(enc440, MM, MetadataError, pb["D"], semantic=True)
                S.FAILED_BUILDS.clear()
                first = observe_extract(enc440, MM, MetadataError, paths["D"], semantic=True)
                leaked = [x for x in sys.path if x not in fr.path]
                after = observe_extract(enc440, MM, MetadataError, pb["D"], semantic=True)
            finally:
                fr.restore()
                S.FAILED_BUILDS.clear()
            return (alone != after and bool(leaked)), {"B alone": alone, "A": first[:2], "B after A": after, "left on sys.path": leaked}
        if kind == "in-process-analysis-abandoned":
            # a supported idiom whose in-process analysis fails and is only rescued by the egg_info subprocess
            with Stubs(S) as st2:
                obs = observe_extract(enc440, MM, MetadataError, paths["D"])
            return "egg_info" in st2.events, {"obs": obs, "fall-backs": st2.events}
        if kind == "fallback-name-is-directory-name":
            base = ctx.tmpdir() / "corpus" / (entry["id"] + "-co")
            if base.exists():
                shutil.rmtree(base)
            co = render(base, entry["checkout"], [(f, c) for f, c in entry["files"]])["D"]
            with Stubs(S, real_egg_info=True):
                obs = observe_extract(enc440, MM, MetadataError, co, semantic=True)
            return (obs[0] == "OKSEM" and obs[1] != entry["name"]), obs
        if kind == "failure-not-metadata-error":
            obs = observe_extract(enc440, MM, MetadataError, paths["D"])
            return obs[0] == "EXC", obs
    raise ValueError("unknown check " + kind)


def run_corpus(ctx: Ctx, enc440, MM, S, MetadataError) -> None:
    if not CORPUS.exists():
        return
    for f in sorted(CORPUS.glob("*.json")):
        entry = json.loads(f.read_text())
        if "expect_model" not in entry:
            continue
        # the model must reproduce the defective behaviour (so that correspondence stays clean)
        ans = run_model("C12", entry["expect_model"]["lines"])
        ctx.count("corpus:" + f.stem)
        ctx.case(key=("corpus", f.stem), nontrivial=True)
        if ans != entry["expect_model"]["answers"]:
            ctx.mismatch("corpus-model:" + f.stem, entry["id"], entry["expect_model"]["answers"], ans)
        still, obs = finding_status(ctx, entry, enc440, MM, S, MetadataError)
        if entry.get("status") == "fixed":
            if still:          # a repaired defect must stay repaired
                ctx.mismatch("fixed-witness-fails-again:" + f.stem, entry["id"], obs, "passes")
        elif not still:
            ctx.notes.append(f"corpus witness {f.stem} no longer fails on the implementation: {obs}")


def replay_known(ctx: Ctx, entry: Dict[str, Any]) -> Optional[bool]:
    enc440, MM, S, X, MetadataError = _imports()
    e = json.loads((common.VERIF / entry["replay"]).read_text())
    still, _ = finding_status(ctx, e, enc440, MM, S, MetadataError)
    return still


# ---- independent oracle: the property statement on the implementation only ------------------


def declared_reqs(d: Dict[str, Any]) -> List[str]:
    """the declaration's meaning, written with packaging and explicit parentheses (no model involved)"""
    from packaging.requirements import Requirement
    from packaging.utils import canonicalize_name
    out = []
    for ln in d["install"] or []:
        out.append(str(Requirement(ln)))
    for k, v in d["extras"]:
        e = k.strip()
        if not e:
            continue
        extra, _, env = e.partition(":")
        for ln in v:
            q = Requirement(ln)
            parts = []
            if q.marker is not None:
                parts.append("(" + str(q.marker) + ")")
            if env.strip():
                parts.append("(" + env + ")")
            if extra:
                parts.append('extra == "{}"'.format(canonicalize_name(extra)))
            head = str(q).split(";")[0]
            out.append(head + ("; " + " and ".join(parts) if parts else ""))
    return out


def oracle_program(ctx: Ctx, enc440, MM, S, MetadataError, prog: Dict[str, Any], tag: str) -> Optional[str]:
    files, eff = render_program(prog)
    d = prog["decl"]
    lead = "{}-{}".format(d["name"], _canon_version(d["version"]))
    paths = render_prog(ctx.tmpdir() / "oracle" / tag, prog, lead, files)
    want = sem_reqs(declared_reqs(d))
    seen = {}
    old = os.getcwd()
    try:
        with Stubs(S, real_egg_info=False):
            for k in "DTZ":
                for cw in (os.path.dirname(paths[k]), "/"):
                    os.chdir(cw)
                    try:
                        r = MM.extract_metadata(paths[k])
                    except MetadataError:
                        if prog["pyproject"] and k != "D":
                            continue                      # listed known finding
                        if not prog.get("cfg_only") and not prog["pyproject"]:
                            # with a setup.py the real code still has its egg_info fall-back (stubbed above): only a
                            # failure that survives it is a failure of the property
                            S.FAILED_BUILDS.discard(paths[k])
                            with Stubs(S, real_egg_info=True):
                                o2 = observe_extract(enc440, MM, MetadataError, paths[k], semantic=True)
                            if o2[0] == "OKSEM" and o2[1] == d["name"]:
                                continue
                        return f"{k}: a project of the supported idiom family is reported as a metadata failure"
                    finally:
                        os.chdir(old)
                    got = sem_reqs([str(x) for x in r.reqs])
                    if got != want:
                        return f"{k}: extracted requirements differ from the declaration"
                    from packaging.version import Version
                    if r.name != d["name"] or r.version != Version(d["version"]):
                        return f"{k}: name/version differ from the declaration ({r.name} {r.version})"
                    seen[(k, cw)] = (r.name, str(r.version), got)
    finally:
        os.chdir(old)
    if len({repr(v) for v in seen.values()}) > 1:
        return "results differ across packagings / working directories"
    return None


def oracle_batch(ctx: Ctx, enc440, MM, S, MetadataError, batch: List[Dict[str, Any]], order: List[int],
                 kinds: List[str], tag: str) -> Optional[str]:
    """the statement on the implementation only: every project of the sequence, analysed in this order in
    one process, must give its own declaration"""
    from packaging.version import Version
    rendered = []
    for j, prog in enumerate(batch):
        files, _ = render_program(prog)
        d = prog["decl"]
        lead = "{}-{}".format(d["name"], _canon_version(d["version"]))
        rendered.append(render(ctx.tmpdir() / "oracle-batch" / tag / str(j), lead, files))
    res = run_batch(enc440, MM, S, MetadataError, rendered, order, kinds)
    for pos, idx in enumerate(order):
        obs, leaked = res[pos]
        d = batch[idx]["decl"]
        who = "project #%d (%s, %s) analysed at position %d after %s" % (
            idx, d["name"], batch[idx]["version_idiom"], pos, [batch[i]["version_idiom"] for i in order[:pos]])
        if obs[0] != "OK":
            return who + ": reported as " + obs[0]
        if obs[1] != d["name"] or obs[2] != enc440.ver_token(Version(d["version"])):
            return who + ": name/version differ from ITS declaration (got %s %s, declared %s %s)" % (obs[1], obs[2], d["name"], d["version"])
        if sem_reqs(obs[3]) != sem_reqs(declared_reqs(d)):
            return who + ": requirements differ from ITS declaration"
    return None


OK_KINDS = ("helper", "pop0", "drop", "chdir", "sysexit", "insert", "pep517", "rename", "readver")


def oracle_frame_sequence(ctx: Ctx, enc440, MM, S, MetadataError, seq: List[Dict[str, Any]], tag: str) -> Optional[str]:
    """the statement on the implementation only (real egg_info fall-back, no model): every analysable project of
    the sequence must report ITS OWN declaration and be found where its (relative) path says, whatever was
    analysed - or failed - before it; then, as the mechanism, the process state must be given back"""
    from packaging.version import Version
    seq = [{k: v for k, v in fp.items() if not k.startswith("_")} for fp in seq]
    ws = ctx.tmpdir() / "oracle-frames" / tag
    ws.mkdir(parents=True, exist_ok=True)
    steps = run_frame_sequence(enc440, MM, S, MetadataError, ws, seq, frame_attr_names(), real_egg_info=True)
    hist = []
    for pos, (fp, st) in enumerate(zip(seq, steps)):
        obs = st["obs"]
        who = "project #%d (%s, %s, %s path) analysed after %s" % (
            pos, fp["kind"], {"D": "directory", "T": ".tar.gz", "Z": ".zip"}[fp["packaging"]],
            "relative" if fp["relative"] else "absolute", hist or "nothing")
        hist.append(fp["kind"])
        if fp["kind"].startswith("damaged") and obs != ("MetadataError",):
            return who + ": a damaged archive is reported as " + str(obs[:2]) + " instead of a MetadataError of that project"
        if fp["kind"] in OK_KINDS:
            if obs[0] not in ("OK", "OKSEM"):
                return who + ": reported as " + str(obs[:2]) + " although it is analysable alone"
            own = owner_of(obs)
            if own != fp["i"]:
                return who + ": reports the requirements of project own%s instead of its own (own%d)" % (own, fp["i"])
            if obs[1] != fp["name"] or obs[2] != enc440.ver_token(Version(fp["version"])):
                return who + ": name/version %s %s differ from its declaration %s %s" % (obs[1], obs[2], fp["name"], fp["version"])
            if fp["kind"] in ("rename", "readver") and tag_of(obs) != tag_for(fp["version"]):
                return who + ": its setup.py read %s from VERSION although the project's VERSION says %s" % (tag_of(obs), fp["version"])
    for pos, (fp, st) in enumerate(zip(seq, steps)):
        if st["changed"]:
            return "STATE: after analysing project #%d (%s) the process state is not what it was: %s" % (pos, fp["kind"], json.dumps(st["changed"])[:300])
    return None


def search(ctx: Ctx) -> Optional[Dict[str, Any]]:
    enc440, MM, S, X, MetadataError = _imports()
    rng = ctx.rng
    os.chdir(common.VERIF)
    # sequences first: the frame condition (orders, failures, cwd, per-extractor state); a wrong RESULT is
    # preferred as failing input over a state that was merely not given back
    def strip_(seq):
        return [{k: v for k, v in f.items() if not k.startswith("_")} for f in seq]
    fallback = None
    cands = []
    for mm in ctx.mismatches:
        c = mm.get("case")
        if isinstance(c, dict) and "sequence" in c and c["sequence"] not in [x for x in cands] and len(cands) < 12:
            cands.append(c["sequence"])
    cands.sort(key=lambda q: 0 if any(f["kind"] in ("rename", "pep517_broken", "pop0", "drop", "remove") for f in q[:1]) else 1)
    fresh = [gen_frame_sequence(rng, 100000 + 100 * b) for b in range(ctx.n(30, 200))]
    for n_, seq in enumerate(cands + fresh):
        try:
            why = oracle_frame_sequence(ctx, enc440, MM, S, MetadataError, seq, f"s{n_}")
        except Exception:
            import traceback
            if len(ctx.notes) < 10:
                ctx.notes.append("sequence oracle crashed: " + traceback.format_exc()[-600:])
            why = None
        if why and not why.startswith("STATE:"):
            return {"kind": "sequence", "input": {"sequence": strip_(seq)}, "why": why}
        if why and fallback is None:
            fallback = {"kind": "sequence", "input": {"sequence": strip_(seq)}, "why": why[7:]}
        if fallback is not None and n_ >= len(cands) + 12:
            break
    if fallback is not None:
        return fallback
    # analysis-order suspects first: the disagreeing batches, then fresh ones in all orders
    import itertools
    seen_b = 0
    for mm in ctx.mismatches:
        c = mm.get("case")
        if isinstance(c, dict) and "batch" in c and seen_b < 10:
            seen_b += 1
            try:
                why = oracle_batch(ctx, enc440, MM, S, MetadataError, c["batch"], c["order"], c["kinds"], f"m{seen_b}")
            except Exception:
                why = None
            if why:
                return {"kind": "batch", "input": {"batch": c["batch"], "order": c["order"], "kinds": c["kinds"]}, "why": why}
    for b in range(ctx.n(12, 120)):
        batch = gen_batch(rng, 1000 + b)
        if not all(in_guard(p["decl"]) for p in batch):
            continue
        for order in itertools.permutations(range(len(batch))):
            kinds = [rng.choice("DTZ") for _ in batch]
            try:
                why = oracle_batch(ctx, enc440, MM, S, MetadataError, batch, list(order), kinds, f"f{b}")
            except Exception:
                why = None
            if why:
                return {"kind": "batch", "input": {"batch": batch, "order": list(order), "kinds": kinds}, "why": why}
    suspects: List[Dict[str, Any]] = []
    for mm in ctx.mismatches:
        c = mm.get("case")
        if isinstance(c, dict) and "decl" in c and isinstance(c["decl"], dict) and "batch" not in c:
            d = c["decl"]
            if d.get("name") and d.get("version") and not d.get("framework") and d.get("cfg") is None:
                suspects.append({"decl": d, "version_idiom": c.get("version_idiom", "literal"),
                                 "install_idiom": c.get("install_idiom", "literal"), "here": c.get("here", "rel"),
                                 "pkg": c.get("pkg", "pkg"), "i": 0, "pyproject": bool(c.get("pyproject", False)),
                                 "readme": c.get("readme"), "cfg_only": bool(c.get("cfg_only")), "bare_dir": bool(c.get("bare_dir")),
                                 "text": c.get("text")})
    for i in range(ctx.n(150, 1500)):
        suspects.append(gen_program(rng, i))
    for n, prog in enumerate(suspects):
        try:
            d = prog["decl"]
            d["install"] = d["install"] if isinstance(d["install"], list) else ([] if d["install"] is None else [d["install"]])
            d["extras"] = [[k, v if isinstance(v, list) else [v]] for k, v in d["extras"]]
            if not in_guard(d):
                continue
            why = oracle_program(ctx, enc440, MM, S, MetadataError, prog, str(n))
        except Exception as ex:
            why = None
        if why:
            return {"kind": "program", "input": prog, "why": why}
    return None


def in_guard(d: Dict[str, Any]) -> bool:
    """the decidable guard of C12_harvest_exact_partial, computed with packaging only (quoted key names stay outside)"""
    from packaging.requirements import Requirement
    from packaging.markers import Marker

    def top_or(m) -> bool:
        top = m._markers
        while isinstance(top, list) and len(top) == 1 and isinstance(top[0], list):
            top = top[0]
        return "or" in top
    try:
        for ln in d["install"] or []:
            Requirement(ln)
        for k, v in d["extras"]:
            e = k.strip()
            if not e:
                continue
            name, _, env = e.partition(":")
            if any(ch in name for ch in "\"'\\"):
                return False
            if env.strip():
                Marker(env)
            for ln in v:
                Requirement(ln)
    except Exception:
        return False
    return True


def replay(ctx: Ctx, payload: Dict[str, Any]) -> bool:
    enc440, MM, S, X, MetadataError = _imports()
    os.chdir(common.VERIF)
    fi = payload.get("failing_input")
    if not fi:
        return False
    if fi.get("kind") == "sequence":
        return oracle_frame_sequence(ctx, enc440, MM, S, MetadataError, fi["input"]["sequence"], "replay") is not None
    if fi.get("kind") == "batch":
        b = fi["input"]
        return oracle_batch(ctx, enc440, MM, S, MetadataError, b["batch"], b["order"], b["kinds"], "replay") is not None
    return oracle_program(ctx, enc440, MM, S, MetadataError, fi["input"], "replay") is not None

"""C10 - Graph bookkeeping stays coherent under any history (DESIGN.md section 4)."""
from __future__ import annotations

import json
import logging
import sys
import threading
from typing import Any, Dict, List, Optional

import common
import enc440
import graphenc
import translate as _tr
from common import Ctx, hx, run_model

ID = "C10"
PROPS = ["props/C10.v"]
EXTRACTS = ["C10"]
THEOREMS: List[str] = []
RULE = ("operation histories (add input set / placeholder, solve a placeholder with a distribution the way the "
        "solver does - source = a requirer, reason = its stored edge -, loader-style adds, invalidate, remove) are "
        "generated adaptively against the real DistributionCollection over an alphabet of 4 projects x 2 versions "
        "with extras, extra-markers, self references and diamonds; after every operation the full public state "
        "(nodes, metadata, dependency dict with reasons, reverse deps, complete flag, extras, build_constraints, "
        "exception class) is compared with the extracted Coq model. Non-trivial = history with >= 3 operations that "
        "solved at least one node; distinct = distinct op sequences.")
TRUSTED_BASE = [
    "T1: normalize_project_name chain (gen/NameConsts.v)",
    "T2 harness/c10.py + graphenc.py: adaptive generator, observers; marker evaluation (packaging) and the iteration order of the Python set {None}|extras are measured on the running interpreter and handed to the model as an oracle",
    "modelled, not verified: req_compile/dists.py (DependencyNode, DistributionCollection), containers.req_uses_extra/requires",
]
ASSUMPTIONS = ["PYTHONHASHSEED=0 (set iteration order of the extras alphabet is measured, not modelled)"]
LEVEL_TEXT = ("Invariant theorems over all operation histories of a Gallina state-machine model of DistributionCollection "
              "(heap of node objects + index), with refuted witnesses for the full coherence statement; model tied to "
              "/repo by per-operation state correspondence on generated histories.")
LEVEL_NOTE = "Trusted: Coq kernel, extraction, drivers, T1/T2 harness; third-party packaging semantics validated by sampling (C17 grid)."
TECHNIQUE = "Rocq proof (invariants by induction over op histories) + extraction-based per-step differential correspondence"

PROJECTS = ["a", "b", "c", "d"]
SPELL = {"a": ["a", "A"], "b": ["b", "B"], "c": ["c"], "d": ["d", "D"]}
VERSIONS = ["1.0", "2.0"]
FUEL = 400


def translate(ctx: Ctx) -> Dict[str, str]:
    return {"gen/NameConsts.v": _tr.gen_name_consts()}


def _setup():
    logging.disable(logging.CRITICAL)
    import req_compile.containers as C
    import req_compile.dists as D
    import req_compile.utils as U
    return C, D, U


def gen_req_text(rng, alphabet: List[str], targets: List[str]) -> str:
    t = rng.choice(targets)
    s = rng.choice(SPELL[t])
    if rng.random() < 0.3:
        s += "[" + ",".join(rng.sample(alphabet, rng.choice([1, 1, 2]))) + "]"
    r = rng.random()
    if r < 0.5:
        s += rng.choice([">=1.0", "<2.0", "==1.0", "==2.0", "!=1.0", ">1.0", "<=1.0", ">=1.0,<2.0", "~=1.0", "==1.*"])
    if rng.random() < 0.3:
        s += ' ; extra == "{}"'.format(rng.choice(alphabet))
    elif rng.random() < 0.08:
        s += rng.choice([' ; python_version >= "3"', ' ; sys_platform == "win32"'])
    return s


def markers_of(reqs: List[Any]) -> List[str]:
    return [str(r.marker) for r in reqs if r.marker is not None]


class History:
    def __init__(self, ctx: Ctx, mods, alphabet, xorder) -> None:
        self.C, self.D, self.U = mods
        self.rng = ctx.rng
        self.alphabet = alphabet
        self.xorder = xorder
        self.U.parse_requirement.cache_clear()
        self.dists = self.D.DistributionCollection()
        self.ops: List[List[str]] = []
        self.desc: List[str] = []
        self.obs: List[Any] = []
        self.markers: List[str] = []
        self.solved_any = False

    def mk_dist(self, proj: str, ver: str, meta: bool = False, name: Optional[str] = None, nreq=None):
        rng = self.rng
        n = rng.choice([0, 1, 1, 2, 3]) if nreq is None else nreq
        targets = PROJECTS if rng.random() < 0.15 else [p for p in PROJECTS if p != proj] or PROJECTS
        reqs = [self.U.parse_requirement(gen_req_text(rng, self.alphabet, targets)) for _ in range(n)]
        self.markers += markers_of(reqs)
        return self.C.DistInfo(name or rng.choice(SPELL[proj]), None if meta else self.U.parse_version(ver), reqs, meta=meta)

    def apply(self, desc: str, toks: List[str], fn) -> bool:
        self.ops.append(toks)
        self.desc.append(desc)
        try:
            fn()
            self.obs.append(["OK", graphenc.obs_graph(self.dists, with_bc=False)])
            return True
        except BaseException as ex:  # noqa: BLE001
            if isinstance(ex, (KeyboardInterrupt, SystemExit)):
                raise
            self.obs.append(["ERR", graphenc.exc_class(ex)])
            return False

    def op_add(self, md, name: Optional[str], source, reason) -> bool:
        nm = md.name if md is not None else name
        toks = ["A", hx(nm)] + (["S"] + graphenc.dist_tokens(md) if md is not None else ["N"])
        toks += graphenc.opt_str(source.key if source is not None else None)
        toks += graphenc.opt_req(reason)
        if reason is not None and reason.marker is not None:
            self.markers.append(str(reason.marker))
        arg = md if md is not None else name
        return self.apply(f"add_dist({nm}{'' if md is None else '=='+str(md.version)}, {source.key if source else None}, {reason})",
                          toks, lambda: self.dists.add_dist(arg, source, reason))

    def step(self) -> bool:
        rng = self.rng
        d = self.dists
        live = list(d.nodes.values())
        unsolved = [n for n in live if n.metadata is None]
        solved = [n for n in live if n.metadata is not None]
        r = rng.random()
        if not live or r < 0.08:
            name = rng.choice(["root.txt", "r2.txt", "cons.txt"])
            return self.op_add(self.mk_dist("a", "0", meta=True, name=name, nreq=rng.choice([1, 2, 3])), None, None, None)
        if unsolved and r < 0.6:
            n = rng.choice(unsolved)
            proj = n.key if n.key in PROJECTS else rng.choice(PROJECTS)
            md = self.mk_dist(proj, rng.choice(VERSIONS))
            srcs = [s for s in n.reverse_deps if d.nodes.get(s.key) is s]
            source = rng.choice(srcs) if srcs and rng.random() < 0.85 else None
            reason = source.dependencies.get(n) if source is not None else None
            if source is None and rng.random() < 0.3:
                reason = self.U.parse_requirement(gen_req_text(rng, self.alphabet, [proj]))
            self.solved_any = True
            return self.op_add(md, None, source, reason)
        if solved and r < 0.72:
            n = rng.choice(solved)
            return self.apply(f"invalidate({n.key})", ["I", hx(n.key)], lambda: d.remove_dists(n, remove_upstream=False))
        if r < 0.80:
            n = rng.choice(live)
            return self.apply(f"remove({n.key})", ["R", hx(n.key)], lambda: d.remove_dists(n))
        if r < 0.92:
            # loader style: placeholder by name, then an edge from an existing node
            proj = rng.choice(PROJECTS)
            req = self.U.parse_requirement(gen_req_text(rng, self.alphabet, [proj])) if rng.random() < 0.7 else None
            src = rng.choice(live) if rng.random() < 0.6 else None
            return self.op_add(None, rng.choice(SPELL[proj]), src, req)
        # re-solve an already solved node with another version (what a walk-back does after invalidation)
        if solved:
            n = rng.choice(solved)
            if n.key in PROJECTS:
                md = self.mk_dist(n.key, rng.choice(VERSIONS))
                srcs = [s for s in n.reverse_deps if d.nodes.get(s.key) is s]
                source = rng.choice(srcs) if srcs else None
                reason = source.dependencies.get(n) if source is not None else None
                return self.op_add(md, None, source, reason)
        return self.op_add(self.mk_dist("b", "1.0", meta=True, name="extra.txt", nreq=2), None, None, None)

    def line(self) -> str:
        env = graphenc.env_tokens(self.markers, self.alphabet, self.xorder)
        toks = ["G", str(FUEL)] + env + [str(len(self.ops))]
        for o in self.ops:
            toks += o
        return " ".join(toks)


def parse_answer(ans: str) -> List[Any]:
    out = []
    parts = [p for p in ans.split(" | ") if p.strip()]
    for i, part in enumerate(parts):
        part = part.strip()
        if not part:
            continue
        toks = part.split()
        if toks[0] == "OK":
            out.append(["OK", graphenc.parse_graph(enc440.TokReader(toks[1:]), with_bc=(i == len(parts) - 1))])
        else:
            out.append(["ERR", toks[1]])
    return out


def run_histories(ctx: Ctx, n: int, maxlen: int) -> None:
    mods = _setup()
    alphabet, xorder = graphenc.measure_xorder()
    ctx.extra["extras_alphabet"] = alphabet
    ctx.extra["xorder"] = xorder
    hs: List[History] = []
    # corpus first
    for f in sorted((common.CORPUS / "C10").glob("*.json")) if (common.CORPUS / "C10").exists() else []:
        pass
    for _ in range(n):
        h = History(ctx, mods, alphabet, xorder)
        L = ctx.rng.choice([3, 5, 8, maxlen])
        for _ in range(L):
            if not h.step():
                break
        if h.obs and h.obs[-1][0] == "OK":
            h.obs[-1] = ["OK", graphenc.obs_graph(h.dists, with_bc=True)]
        hs.append(h)
    answers = run_model("C10", [h.line() for h in hs])
    for h, ans in zip(hs, answers):
        impl = graphenc.norm_json(h.obs)
        try:
            model = graphenc.norm_json(parse_answer(ans))
        except Exception as ex:  # noqa: BLE001
            model = ["unparsable", ans[:300]]
        key = tuple(tuple(o) for o in h.ops)
        last = impl[-1][0] if impl else "-"
        ctx.count("len:%d" % len(h.ops))
        ctx.count("end:" + (last if last == "OK" else impl[-1][1]))
        ctx.case(key=key, nontrivial=(len(h.ops) >= 3 and h.solved_any),
                 sample={"ops": h.desc, "final": impl[-1] if impl else None} if ctx.evaluations % 211 == 0 else None)
        if impl != model:
            # first differing step
            k = 0
            while k < min(len(impl), len(model)) and impl[k] == model[k]:
                k += 1
            ctx.mismatch("graph-ops", {"ops": h.desc[: k + 1], "line": h.line()},
                         impl[k] if k < len(impl) else "missing", model[k] if k < len(model) else "missing")


def correspondence(ctx: Ctx) -> None:
    res: List[Any] = []

    def work():
        try:
            run_histories(ctx, ctx.n(1200, 40000), 14)
        except BaseException as ex:  # noqa: BLE001
            res.append(ex)

    sys.setrecursionlimit(12000)
    threading.stack_size(512 * 1024 * 1024)
    t = threading.Thread(target=work)
    t.start()
    t.join()
    if res:
        raise res[0]


# ---- independent oracle: coherence of the real object (I1..I7 of DESIGN section 4) -------

def coherence_violation(dists) -> Optional[str]:
    from req_compile.utils import normalize_project_name
    nodes = dists.nodes
    for key, node in nodes.items():
        for dep in node.dependencies:
            if nodes.get(dep.key) is not dep:
                return f"{key} links to removed project {dep.key}"
            if node not in dep.reverse_deps:
                return f"{key} -> {dep.key} is not mirrored"
        for rd in node.reverse_deps:
            if nodes.get(rd.key) is not rd:
                return f"{key} is required by removed project {rd.key}"
            if node not in rd.dependencies:
                return f"requirer link {rd.key} -> {key} is not mirrored"
            if rd.metadata is None:
                return f"{key} has an unsolved requirer {rd.key}"
        if node.metadata is None and node.dependencies:
            return f"unsolved project {key} has outgoing links"
        if node.metadata is not None:
            try:
                extras = node.extras
            except Exception as ex:  # noqa: BLE001
                return f"extras of {key} raise {type(ex).__name__}"
            want = {}
            for extra in [None] + sorted(extras):
                for req in node.metadata.requires(extra):
                    want.setdefault(normalize_project_name(req.name), []).append(req)
            have = {d.key for d in node.dependencies}
            if have != set(want):
                return f"solved project {key} has links {sorted(have)} but applicable requirements on {sorted(want)}"
            if not node.metadata.meta and node.metadata.version is not None:
                for rd in node.reverse_deps:
                    if rd.metadata is None:
                        continue
                    for extra in [None] + sorted(rd.extras):
                        for req in rd.metadata.requires(extra):
                            if normalize_project_name(req.name) == key and not req.specifier.contains(node.metadata.version, prereleases=True):
                                return f"solved {key}=={node.metadata.version} violates {req} of {rd.key}"
    return None


def search(ctx: Ctx) -> Optional[Dict[str, Any]]:
    """Replays disagreeing histories, then fresh calm-looking ones, on the implementation only
    and reports the first history after which the real object is incoherent although every
    operation succeeded and the model (the unchanged tree's behaviour) stays coherent is not
    consulted here."""
    return None


def replay(ctx: Ctx, payload: Dict[str, Any]) -> bool:
    return False


def replay_known(ctx: Ctx, entry: Dict[str, Any]) -> Optional[bool]:
    return None

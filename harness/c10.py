"""C10 - Graph bookkeeping stays coherent under any history (DESIGN.md section 4)."""
from __future__ import annotations

import json
import logging
import sys
import threading
from typing import Any, Dict, List, Optional

import common
import enc440
import graphenc
import translate as _tr
from common import Ctx, hx, run_model

ID = "C10"
PROPS = ["props/C10.v"]
EXTRACTS = ["C10"]
THEOREMS = ["C10_index_consistent_all_histories", "C10_one_node_per_project_all_histories", "C10_coherence_checker_sound",
            "C10_refuted_incoherent_after_entitled_history", "C10_refuted_internal_errors",
            "C10_links_forward_coherent_all_histories", "C10_forward_coherence_is_not_vacuous", "C10_self_extras_reexpansion_returns"]
RULE = ("operation histories (add input set / placeholder, solve a placeholder with a distribution the way the "
        "solver does - source = a requirer, reason = its stored edge -, loader-style adds, invalidate, remove) are "
        "generated adaptively against the real DistributionCollection over an alphabet of 4 projects x 2 versions "
        "with extras, extra-markers, self references and diamonds; after every operation the full public state "
        "(nodes, metadata, dependency dict with reasons, reverse deps, complete flag, extras, build_constraints, "
        "exception class) is compared with the extracted Coq model. Non-trivial = history with >= 3 operations that "
        "solved at least one node; distinct = distinct op sequences.")
TRUSTED_BASE = [
    "T1: normalize_project_name chain (gen/NameConsts.v)",
    "T2 harness/c10.py + graphenc.py: adaptive generator, observers; marker evaluation (packaging) and the iteration order of the Python set {None}|extras are measured on the running interpreter and handed to the model as an oracle",
    "modelled, not verified: req_compile/dists.py (DependencyNode, DistributionCollection), containers.req_uses_extra/requires",
]
ASSUMPTIONS = ["PYTHONHASHSEED=0 (set iteration order of the extras alphabet is measured, not modelled)"]
LEVEL_TEXT = ("Invariant theorems over all operation histories of a Gallina state-machine model of DistributionCollection "
              "(heap of node objects + index): index/heap consistency, one node per project, and - kept at every intermediate "
              "state of the removal cascade - forward link coherence (no dependency link of a project in the graph points at a "
              "removed project, and each is mirrored by a requirer link); refuted witnesses for the full coherence statement; model tied to "
              "/repo by per-operation state correspondence on generated histories.")
LEVEL_NOTE = "Trusted: Coq kernel, extraction, drivers, T1/T2 harness; third-party packaging semantics validated by sampling (C17 grid)."
TECHNIQUE = "Rocq proof (invariants by induction over op histories) + extraction-based per-step differential correspondence"

PROJECTS = ["a", "b", "c", "d_x"]          # node keys; d_x is a multi-word project spelled with '.', '-', '_' and case
SPELL = {"a": ["a", "A"], "b": ["b", "B"], "c": ["c"], "d_x": ["d_x", "D.x", "d-x", "D.X", "d.x"]}
VERSIONS = ["1.0", "2.0"]
FUEL = 400


def translate(ctx: Ctx) -> Dict[str, str]:
    import tr_solver
    return {"gen/NameConsts.v": _tr.gen_name_consts(), "gen/SolverConsts.v": tr_solver.gen_solver_consts()}


def _setup():
    logging.disable(logging.CRITICAL)
    import req_compile.containers as C
    import req_compile.dists as D
    import req_compile.utils as U
    return C, D, U


def gen_req_text(rng, alphabet: List[str], targets: List[str]) -> str:
    t = rng.choice(targets)
    s = rng.choice(SPELL[t])
    if rng.random() < 0.3:
        s += "[" + ",".join(rng.sample(alphabet, rng.choice([1, 1, 2]))) + "]"
    r = rng.random()
    if r < 0.5:
        s += rng.choice([">=1.0", "<2.0", "==1.0", "==2.0", "!=1.0", ">1.0", "<=1.0", ">=1.0,<2.0", "~=1.0", "==1.*"])
    if rng.random() < 0.3:
        s += ' ; extra == "{}"'.format(rng.choice(alphabet))
    elif rng.random() < 0.08:
        s += rng.choice([' ; python_version >= "3"', ' ; sys_platform == "win32"'])
    return s


def markers_of(reqs: List[Any]) -> List[str]:
    return [str(r.marker) for r in reqs if r.marker is not None]


def install_node_counter(D) -> None:
    """every DependencyNode created from now on is appended to History.current.all_nodes"""
    if not hasattr(D.DependencyNode, "_verif_orig_init"):
        D.DependencyNode._verif_orig_init = D.DependencyNode.__init__
    base_init = D.DependencyNode._verif_orig_init

    def counting_init(node, *args, **kwargs):     # whatever arguments the code constructs its nodes with
        base_init(node, *args, **kwargs)
        if History.current is not None:
            History.current.all_nodes.append(node)
    D.DependencyNode.__init__ = counting_init


class _Recorder:
    def __init__(self) -> None:
        self.all_nodes: List[Any] = []


class History:
    current: Any = None

    def __init__(self, ctx: Ctx, mods, alphabet, xorder) -> None:
        self.C, self.D, self.U = mods
        self.rng = ctx.rng
        self.alphabet = alphabet
        self.xorder = xorder
        self.U.parse_requirement.cache_clear()
        self.dists = self.D.DistributionCollection()
        # node objects in creation order = the model's node identities (heap ids)
        self.all_nodes: List[Any] = []
        install_node_counter(self.D)
        History.current = self
        self.ops: List[List[str]] = []
        self.desc: List[str] = []
        self.obs: List[Any] = []
        self.markers: List[str] = []
        self.solved_any = False
        self.pyops: List[Any] = []
        self.jsonops: List[Any] = []

    def mk_dist(self, proj: str, ver: str, meta: bool = False, name: Optional[str] = None, nreq=None):
        rng = self.rng
        n = rng.choice([0, 1, 1, 2, 3]) if nreq is None else nreq
        targets = PROJECTS if rng.random() < 0.15 else [p for p in PROJECTS if p != proj] or PROJECTS
        reqs = [self.U.parse_requirement(gen_req_text(rng, self.alphabet, targets)) for _ in range(n)]
        self.markers += markers_of(reqs)
        return self.C.DistInfo(name or rng.choice(SPELL[proj]), None if meta else self.U.parse_version(ver), reqs, meta=meta)

    def apply(self, desc: str, toks: List[str], fn) -> bool:
        if toks[0] in ("I", "R"):
            self.pyops.append((toks[0], common.unhx(toks[1])))
            self.jsonops.append({"op": toks[0], "key": common.unhx(toks[1])})
        self.ops.append(toks)
        self.desc.append(desc)
        try:
            fn()
            self.obs.append(["OK", graphenc.obs_graph(self.dists, with_bc=False)])
            return True
        except BaseException as ex:  # noqa: BLE001
            if isinstance(ex, (KeyboardInterrupt, SystemExit)):
                raise
            common.reraise_harness_fault(ex)     # an error of the node-counting __init__ is not the graph's
            self.obs.append(["ERR", graphenc.exc_class(ex)])
            return False

    def op_add(self, md, name: Optional[str], source, reason) -> bool:
        nm = md.name if md is not None else name
        stale = source is not None and self.dists.nodes.get(source.key) is not source
        if stale:
            # a node object that is no longer the one indexed under its key: addressed by its identity
            toks = ["AF", hx(nm)] + (["S"] + graphenc.dist_tokens(md) if md is not None else ["N"])
            toks += [str(self.all_nodes.index(source))]
        else:
            toks = ["A", hx(nm)] + (["S"] + graphenc.dist_tokens(md) if md is not None else ["N"])
            toks += graphenc.opt_str(source.key if source is not None else None)
        toks += graphenc.opt_req(reason)
        if reason is not None and reason.marker is not None:
            self.markers.append(str(reason.marker))
        arg = md if md is not None else name
        self.pyops.append(("AF" if stale else "A", nm, md, (self.all_nodes.index(source) if stale else source.key) if source is not None else None, reason))
        self.jsonops.append({"op": "AF" if stale else "A", "name": nm,
                             "dist": None if md is None else {"name": md.name, "version": None if md.version is None else str(md.version),
                                                               "reqs": [str(r) for r in md.reqs], "meta": bool(md.meta)},
                             "source": (self.all_nodes.index(source) if stale else source.key) if source is not None else None,
                             "reason": None if reason is None else str(reason)})
        return self.apply(f"add_dist({nm}{'' if md is None else '=='+str(md.version)}, {source.key if source else None}, {reason})",
                          toks, lambda: self.dists.add_dist(arg, source, reason))

    def step_entitled(self) -> bool:
        """Only operations the solver is entitled to perform: add an input set, solve an unsolved
        placeholder with a distribution whose version lies in the node's build_constraints (source = a
        live requirer, reason = its stored edge), invalidate a solved node, remove a root."""
        rng = self.rng
        d = self.dists
        live = list(d.nodes.values())
        unsolved = [n for n in live if n.metadata is None and n.key in PROJECTS]
        solved = [n for n in live if n.metadata is not None and not n.metadata.meta]
        roots = [n for n in live if n.metadata is not None and n.metadata.meta]
        r = rng.random()
        def fresh_root() -> str:
            # an input set is added ONCE under its name: adding other requirements under the name of a set that is
            # already in the graph is not something the solver or the loader does
            first = rng.choice(["root.txt", "r2.txt"])
            for nm in [first] + ["r%d.txt" % i for i in range(3, 40)]:
                if nm.replace(".", "_") not in d.nodes:
                    return nm
            return "r%d.txt" % rng.randrange(40, 10 ** 6)
        if not live or r < 0.1:
            return self.op_add(self.mk_dist("a", "0", meta=True, name=fresh_root(), nreq=rng.choice([1, 2])), None, None, None)
        if unsolved and r < 0.75:
            n = rng.choice(unsolved)
            try:
                bc = n.build_constraints()
            except Exception:  # noqa: BLE001
                return self.op_add(self.mk_dist("a", "0", meta=True, name=fresh_root(), nreq=1), None, None, None)
            vers = [v for v in VERSIONS if bc.specifier.contains(v, prereleases=True)]
            if not vers:
                return self.apply(f"invalidate({n.key})", ["I", hx(n.key)], lambda: d.remove_dists(n, remove_upstream=False))
            md = self.mk_dist(n.key, rng.choice(vers), name=n.key)
            srcs = [s for s in n.reverse_deps if d.nodes.get(s.key) is s and n in s.dependencies]
            source = rng.choice(srcs) if srcs else None
            reason = source.dependencies.get(n) if source is not None else None
            self.solved_any = True
            return self.op_add(md, None, source, reason)
        if solved and r < 0.9:
            n = rng.choice(solved)
            return self.apply(f"invalidate({n.key})", ["I", hx(n.key)], lambda: d.remove_dists(n, remove_upstream=False))
        if roots:
            n = rng.choice(roots)
            return self.apply(f"remove({n.key})", ["R", hx(n.key)], lambda: d.remove_dists(n))
        return self.op_add(self.mk_dist("a", "0", meta=True, name=fresh_root(), nreq=1), None, None, None)

    def step(self) -> bool:
        rng = self.rng
        d = self.dists
        live = list(d.nodes.values())
        unsolved = [n for n in live if n.metadata is None]
        solved = [n for n in live if n.metadata is not None]
        r = rng.random()
        if not live or r < 0.08:
            name = rng.choice(["root.txt", "r2.txt", "cons.txt"])
            return self.op_add(self.mk_dist("a", "0", meta=True, name=name, nreq=rng.choice([1, 2, 3])), None, None, None)
        if unsolved and r < 0.6:
            n = rng.choice(unsolved)
            proj = n.key if n.key in PROJECTS else rng.choice(PROJECTS)
            md = self.mk_dist(proj, rng.choice(VERSIONS))
            srcs = [s for s in n.reverse_deps if d.nodes.get(s.key) is s]
            source = rng.choice(srcs) if srcs and rng.random() < 0.85 else None
            stale_nodes = [s for s in self.all_nodes if d.nodes.get(s.key) is not s]
            if stale_nodes and rng.random() < 0.25:
                # the solver passes on node objects it obtained before a removal cascade dropped them
                source = rng.choice(stale_nodes)
            reason = source.dependencies.get(n) if source is not None else None
            if source is None and rng.random() < 0.3:
                reason = self.U.parse_requirement(gen_req_text(rng, self.alphabet, [proj]))
            self.solved_any = True
            return self.op_add(md, None, source, reason)
        if solved and r < 0.72:
            n = rng.choice(solved)
            return self.apply(f"invalidate({n.key})", ["I", hx(n.key)], lambda: d.remove_dists(n, remove_upstream=False))
        if r < 0.80:
            n = rng.choice(live)
            return self.apply(f"remove({n.key})", ["R", hx(n.key)], lambda: d.remove_dists(n))
        if r < 0.92:
            # loader style: placeholder by name, then an edge from an existing node
            proj = rng.choice(PROJECTS)
            req = self.U.parse_requirement(gen_req_text(rng, self.alphabet, [proj])) if rng.random() < 0.7 else None
            src = rng.choice(live) if rng.random() < 0.6 else None
            return self.op_add(None, rng.choice(SPELL[proj]), src, req)
        # re-solve an already solved node with another version (what a walk-back does after invalidation)
        if solved:
            n = rng.choice(solved)
            if n.key in PROJECTS:
                md = self.mk_dist(n.key, rng.choice(VERSIONS))
                srcs = [s for s in n.reverse_deps if d.nodes.get(s.key) is s]
                source = rng.choice(srcs) if srcs else None
                reason = source.dependencies.get(n) if source is not None else None
                return self.op_add(md, None, source, reason)
        return self.op_add(self.mk_dist("b", "1.0", meta=True, name="extra.txt", nreq=2), None, None, None)

    def line(self) -> str:
        env = graphenc.env_tokens(self.markers, self.alphabet, self.xorder)
        toks = ["G", str(FUEL)] + env + [str(len(self.ops))]
        for o in self.ops:
            toks += o
        return " ".join(toks)


def parse_answer(ans: str) -> List[Any]:
    out = []
    parts = [p for p in ans.split(" | ") if p.strip()]
    for i, part in enumerate(parts):
        part = part.strip()
        if not part:
            continue
        toks = part.split()
        if toks[0] == "OK":
            out.append(["OK", graphenc.parse_graph(enc440.TokReader(toks[1:]), with_bc=(i == len(parts) - 1))])
        else:
            out.append(["ERR", toks[1]])
    return out


def run_histories(ctx: Ctx, n: int, maxlen: int) -> None:
    mods = _setup()
    alphabet, xorder = graphenc.measure_xorder()
    ctx.extra["extras_alphabet"] = alphabet
    ctx.extra["xorder"] = xorder
    hs: List[History] = []
    # corpus first
    for f in sorted((common.CORPUS / "C10").glob("*.json")) if (common.CORPUS / "C10").exists() else []:
        pass
    for _ in range(n):
        h = History(ctx, mods, alphabet, xorder)
        L = ctx.rng.choice([3, 5, 8, maxlen])
        entitled = ctx.rng.random() < 0.5
        ctx.count("generator:" + ("entitled-only" if entitled else "any-operation"))
        for _ in range(L):
            if not (h.step_entitled() if entitled else h.step()):
                break
        if h.obs and h.obs[-1][0] == "OK":
            h.obs[-1] = ["OK", graphenc.obs_graph(h.dists, with_bc=True)]
        hs.append(h)
    answers = run_model("C10", [h.line() for h in hs])
    for h, ans in zip(hs, answers):
        impl = graphenc.norm_json(h.obs)
        try:
            model = graphenc.norm_json(parse_answer(ans))
        except Exception as ex:  # noqa: BLE001
            model = ["unparsable", ans[:300]]
        key = tuple(tuple(o) for o in h.ops)
        last = impl[-1][0] if impl else "-"
        ctx.count("len:%d" % len(h.ops))
        ctx.count("end:" + (last if last == "OK" else impl[-1][1]))
        ctx.case(key=key, nontrivial=(len(h.ops) >= 3 and h.solved_any),
                 sample={"ops": h.desc, "final": impl[-1] if impl else None} if ctx.evaluations % 211 == 0 else None)
        if impl != model:
            # first differing step
            k = 0
            while k < min(len(impl), len(model)) and impl[k] == model[k]:
                k += 1
            ctx.mismatch("graph-ops", {"ops": h.desc[: k + 1], "line": h.line()},
                         impl[k] if k < len(impl) else "missing", model[k] if k < len(model) else "missing")


def correspondence(ctx: Ctx) -> None:
    res: List[Any] = []

    def work():
        try:
            run_histories(ctx, ctx.n(1200, 40000), 14)
        except BaseException as ex:  # noqa: BLE001
            res.append(ex)

    sys.setrecursionlimit(12000)
    threading.stack_size(512 * 1024 * 1024)
    t = threading.Thread(target=work)
    t.start()
    t.join()
    if res:
        raise res[0]


# ---- independent oracle: coherence of the real object (I1..I7 of DESIGN section 4) -------

def coherence_violation(dists) -> Optional[str]:
    from req_compile.utils import normalize_project_name
    nodes = dists.nodes
    for key, node in nodes.items():
        for dep in node.dependencies:
            if nodes.get(dep.key) is not dep:
                return f"{key} links to removed project {dep.key}"
            if node not in dep.reverse_deps:
                return f"{key} -> {dep.key} is not mirrored"
        for rd in node.reverse_deps:
            if nodes.get(rd.key) is not rd:
                return f"{key} is required by removed project {rd.key}"
            if node not in rd.dependencies:
                return f"requirer link {rd.key} -> {key} is not mirrored"
            if rd.metadata is None:
                return f"{key} has an unsolved requirer {rd.key}"
        if node.metadata is None and node.dependencies:
            return f"unsolved project {key} has outgoing links"
        if node.metadata is not None:
            try:
                extras = node.extras
            except Exception as ex:  # noqa: BLE001
                return f"extras of {key} raise {type(ex).__name__}"
            want = {}
            for extra in [None] + sorted(extras):
                for req in node.metadata.requires(extra):
                    want.setdefault(normalize_project_name(req.name), []).append(req)
            have = {d.key for d in node.dependencies}
            if have != set(want):
                return f"solved project {key} has links {sorted(have)} but applicable requirements on {sorted(want)}"
            if not node.metadata.meta and node.metadata.version is not None:
                for rd in node.reverse_deps:
                    if rd.metadata is None:
                        continue
                    try:
                        rd_extras = sorted(rd.extras)
                    except Exception as ex:  # noqa: BLE001
                        return f"extras of requirer {rd.key} raise {type(ex).__name__}"
                    for extra in [None] + rd_extras:
                        for req in rd.metadata.requires(extra):
                            if normalize_project_name(req.name) == key and not req.specifier.contains(node.metadata.version, prereleases=True):
                                return f"solved {key}=={node.metadata.version} violates {req} of {rd.key}"
    return None


def run_jsonops(jsonops: List[Any]) -> Dict[str, Any]:
    """Replays a recorded history on a fresh DistributionCollection of /repo."""
    C, D, U = _setup()
    U.parse_requirement.cache_clear()
    install_node_counter(D)
    History.current = _Recorder()
    d = D.DistributionCollection()
    for k, op in enumerate(jsonops):
        try:
            if op["op"] in ("A", "AF"):
                md = None
                if op["dist"] is not None:
                    dd = op["dist"]
                    md = C.DistInfo(dd["name"], None if dd["version"] is None else U.parse_version(dd["version"]),
                                    [U.parse_requirement(r) for r in dd["reqs"]], meta=dd["meta"])
                if op["op"] == "AF":
                    src = History.current.all_nodes[op["source"]]
                else:
                    src = d.nodes[op["source"]] if op["source"] is not None else None
                reason = U.parse_requirement(op["reason"]) if op["reason"] is not None else None
                d.add_dist(md if md is not None else op["name"], src, reason)
            elif op["op"] == "I":
                d.remove_dists(d.nodes[op["key"]], remove_upstream=False)
            else:
                d.remove_dists(d.nodes[op["key"]])
        except BaseException as ex:  # noqa: BLE001
            if isinstance(ex, (KeyboardInterrupt, SystemExit)):
                raise
            common.reraise_harness_fault(ex)
            return {"error": graphenc.exc_class(ex), "at": k}
    return {"error": None, "incoherent": coherence_violation(d)}


def in_thread(fn):
    res: List[Any] = []

    def work():
        try:
            res.append(("ok", fn()))
        except BaseException as ex:  # noqa: BLE001
            res.append(("err", ex))
    sys.setrecursionlimit(12000)
    threading.stack_size(512 * 1024 * 1024)
    t = threading.Thread(target=work)
    t.start()
    t.join()
    if res[0][0] == "err":
        raise res[0][1]
    return res[0][1]


def model_coherent(line: str) -> Optional[bool]:
    """coherence of the MODEL's final state for the same history (checker proved sound in CheckP.v)"""
    ans = run_model("C10", [line.replace("G ", "H ", 1)])[0]
    return {"1": True, "0": False}.get(ans.strip())


def search(ctx: Ctx) -> Optional[Dict[str, Any]]:
    """Entitled histories replayed on the implementation: report one on which the real object raises or ends incoherent
    (independent Python oracle, all clauses of the statement) while its observable trace DIFFERS from the model's on the
    same history.  The model is the unchanged tree's behaviour, listed defects included: a history on which code and
    model agree step by step shows old behaviour (the oracle's verdict on it is the model's too - e.g. links kept for
    requirements that no longer apply, C02-leftover family), one on which they differ AND the oracle fails is new."""
    def work():
        mods = _setup()
        alphabet, xorder = graphenc.measure_xorder()
        for _ in range(ctx.n(6000, 40000)):
            h = History(ctx, mods, alphabet, xorder)
            ok = True
            for _ in range(ctx.rng.choice([3, 4, 5, 6])):
                if not h.step_entitled():
                    ok = False
                    break
            why = ("operation raised " + str(h.obs[-1][1])) if not ok else coherence_violation(h.dists)
            if why is None:
                continue
            if h.obs and h.obs[-1][0] == "OK":
                h.obs[-1] = ["OK", graphenc.obs_graph(h.dists, with_bc=True)]
            impl = graphenc.norm_json(h.obs)
            try:
                model = graphenc.norm_json(parse_answer(run_model("C10", [h.line()])[0]))
            except Exception:  # noqa: BLE001
                model = None
            if model is not None and impl != model:
                return {"input": h.jsonops, "ops": h.desc, "why": why}
        return None
    return in_thread(work)


def replay(ctx: Ctx, payload: Dict[str, Any]) -> bool:
    fi = payload.get("failing_input")
    if not fi:
        return False
    r = in_thread(lambda: run_jsonops(fi["input"]))
    return r.get("error") is not None or r.get("incoherent") is not None


def replay_known(ctx: Ctx, entry: Dict[str, Any]) -> Optional[bool]:
    d = json.loads((common.VERIF / entry["replay"]).read_text())
    r = in_thread(lambda: run_jsonops(d["jsonops"]))
    if d["what"].startswith("error"):
        return graphenc.norm_json(r.get("error")) == graphenc.norm_json(d["why"])
    return r.get("error") is None and r.get("incoherent") is not None

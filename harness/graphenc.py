"""Encoders/observers shared by the graph (C10) and solver (C01, C02, C08, C09, ...) harnesses."""
from __future__ import annotations

import itertools
from typing import Any, Dict, List, Optional, Tuple

import enc440
from common import hx, unhx

EXTRA_ALPHABETS = [["x", "y", "z"], ["y", "z", "e1"], ["foo", "bar", "w"], ["y", "foo", "v"]]


def measure_xorder() -> Tuple[List[str], List[Optional[str]]]:
    """Find an extras alphabet whose `{None} | extras` iteration order (under the current
    hash seed) is one total order for every subset and insertion order; return it."""
    for alpha in EXTRA_ALPHABETS:
        res = {}
        for r in range(1, len(alpha) + 1):
            for sub in itertools.permutations(alpha, r):
                s: set = set()
                for e in sub:
                    s |= set((e,))
                res[sub] = list({None} | s)
                s2 = set(sub)
                if list({None} | s2) != res[sub]:
                    res[sub] = None
        full = [v for k, v in res.items() if len(k) == len(alpha)]
        tot = full[0]
        ok = tot is not None
        for k, v in res.items():
            if v is None or v != [t for t in tot if t is None or t in k]:
                ok = False
        if ok:
            return alpha, tot
    raise RuntimeError("no extras alphabet with a consistent set iteration order under this hash seed")


def opt_str(x: Optional[str]) -> List[str]:
    return ["N"] if x is None else ["S", hx(x)]


def marker_entry(mtext: str, alphabet: List[str]) -> List[str]:
    from packaging.markers import Marker
    m = Marker(mtext)
    toks = [hx(str(m))]
    opts: List[Optional[str]] = [None] + list(alphabet)
    toks.append(str(len(opts)))
    for x in opts:
        toks += opt_str(x) + ["1" if m.evaluate({"extra": x or ""}) else "0"]
    named = set()
    for mk in m._markers:  # same inspection as dists._process_constraint_req
        if isinstance(mk, tuple) and mk[0].value == "extra" and mk[1].value == "==":
            named.add(mk[2].value.strip().lower())
    toks.append(str(len(named)))
    toks += [hx(e) for e in sorted(named)]
    return toks


def env_tokens(markers: List[str], alphabet: List[str], xorder: List[Optional[str]]) -> List[str]:
    from packaging.markers import Marker
    seen = []
    for m in markers:
        s = str(Marker(m))
        if s not in seen:
            seen.append(s)
    toks = [str(len(seen))]
    for m in seen:
        toks += marker_entry(m, alphabet)
    toks.append(str(len(xorder)))
    for x in xorder:
        toks += opt_str(x)
    return toks


def dist_tokens(d: Any) -> List[str]:
    """req_compile.containers.DistInfo (or any RequirementContainer) -> tokens"""
    toks = [hx(d.name)]
    if d.version is None:
        toks += ["N", hx("None")]
    else:
        toks += ["S", enc440.ver_token(d.version), hx(str(d.version))]
    toks.append("1" if d.meta else "0")
    toks.append(str(len(d.reqs)))
    for r in d.reqs:
        toks += enc440.req_tokens(r)
    return toks


def opt_req(r: Any) -> List[str]:
    return ["N"] if r is None else ["S"] + enc440.req_tokens(r)


# ---- observation of the real DistributionCollection ----------------------------------------

def exc_class(ex: BaseException) -> str:
    from req_compile.errors import MetadataError, NoCandidateException
    if isinstance(ex, NoCandidateException):
        return "NoCandidate"
    if isinstance(ex, MetadataError):
        return "MetadataError"
    if isinstance(ex, RecursionError):
        return "RecursionError"
    for cls in (AssertionError, KeyError, ValueError, RuntimeError, AttributeError, TypeError, IndexError):
        if isinstance(ex, cls):
            return cls.__name__
    return type(ex).__name__


def obs_graph(dists: Any, derived: bool = True, with_bc: bool = True) -> List[dict]:
    out = []
    live = lambda n: dists.nodes.get(n.key) is n
    for key, node in dists.nodes.items():
        meta = None
        if node.metadata is not None:
            meta = [node.metadata.name, str(node.metadata.version), bool(node.metadata.meta)]
        deps = [[d.key, live(d), None if r is None else enc440.obs_req(r)] for d, r in node.dependencies.items()]
        rdeps = sorted([r.key, live(r)] for r in node.reverse_deps)
        ent = {"key": key, "meta": meta, "deps": deps, "rdeps": rdeps, "complete": bool(node.complete)}
        if derived:
            try:
                ent["extras"] = ["OK", sorted(node.extras)]
            except Exception as ex:  # noqa: BLE001
                ent["extras"] = ["ERR", exc_class(ex)]
        out.append(ent)
    if derived and with_bc:
        # second pass: build_constraints() mutates an lru_cached Requirement (result.extras = ...), which
        # can change edge reasons that share the cached object; observe it only after everything else
        # and only on a state the caller will not reuse
        for ent, node in zip(out, list(dists.nodes.values())):
            try:
                ent["bc"] = ["OK", _bc_obs(node.build_constraints())]
            except Exception as ex:  # noqa: BLE001
                ent["bc"] = ["ERR", exc_class(ex)]
    return out


def _bc_obs(r: Any) -> dict:
    o = enc440.obs_req(r)
    from req_compile.utils import normalize_project_name
    # the marker of a merged constraint depends on set iteration order and is never used
    # extras of the fall-back requirement live on an lru_cached object that build_constraints mutates
    # (stale across calls); they are compared through the `extras` property instead
    return {"name": normalize_project_name(o["name"]), "spec": o["spec"]}


def parse_graph(toks: enc440.TokReader, derived: bool = True, with_bc: bool = True) -> List[dict]:
    n = int(toks.next())
    out = []
    for _ in range(n):
        assert toks.next() == "K"
        key = unhx(toks.next())
        assert toks.next() == "M"
        meta = None
        if toks.next() == "S":
            meta = [unhx(toks.next()), unhx(toks.next()), toks.next() == "1"]
        assert toks.next() == "D"
        deps = []
        for _ in range(int(toks.next())):
            dk = unhx(toks.next())
            lv = toks.next() == "1"
            r = toks.req() if toks.next() == "S" else None
            deps.append([dk, lv, r])
        assert toks.next() == "R"
        rdeps = []
        for _ in range(int(toks.next())):
            rdeps.append([unhx(toks.next()), toks.next() == "1"])
        assert toks.next() == "C"
        complete = toks.next() == "1"
        assert toks.next() == "X"
        if toks.next() == "OK":
            extras: Any = ["OK", sorted(unhx(toks.next()) for _ in range(int(toks.next())))]
        else:
            extras = ["ERR", toks.next()]
        assert toks.next() == "B"
        if toks.next() == "OK":
            r = toks.req()
            from req_compile.utils import normalize_project_name
            bc: Any = ["OK", {"name": normalize_project_name(r["name"]), "spec": r["spec"]}]
        else:
            bc = ["ERR", toks.next()]
        ent = {"key": key, "meta": meta, "deps": deps, "rdeps": sorted(rdeps), "complete": complete}
        if derived:
            ent["extras"] = extras
            if with_bc:
                ent["bc"] = bc
        out.append(ent)
    return out


INTERNAL = {"AssertionError": "Internal(Assertion|Key)", "KeyError": "Internal(Assertion|Key)"}


def norm_json(o: Any) -> Any:
    """JSON-normal form; AssertionError and KeyError are one class: which of the two a stale
    link raises first depends on the iteration order of a set of node objects."""
    if isinstance(o, str):
        return INTERNAL.get(o, o)
    if isinstance(o, tuple):
        return [norm_json(x) for x in o]
    if isinstance(o, list):
        return [norm_json(x) for x in o]
    if isinstance(o, dict):
        return {k: norm_json(v) for k, v in o.items()}
    return o

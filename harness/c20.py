"""C20 - Installable wheels are never rejected, foreign ones never accepted (DESIGN.md section 4)."""
from __future__ import annotations

import collections
import contextlib
import json
import logging
import os
import subprocess
import sys as _real_sys
import warnings
from typing import Any, Dict, Iterable, List, Optional, Tuple
from unittest import mock

import common
from common import Ctx, hx, unhx, run_model

ID = "C20"
PROPS = ["props/C20.v"]
EXTRACTS = ["C20"]
THEOREMS = [
    "C20_supported_eligible", "C20_compressed_abi_eligible", "C20_legacy_alias_arch_eligible",
    "C20_foreign_python_rejected", "C20_foreign_python_tag_rejected", "C20_foreign_abi_rejected",
    "C20_other_abi_generation_rejected", "C20_foreign_platform_rejected", "C20_other_os_rejected",
    "C20_other_arch_rejected", "C20_newer_manylinux_rejected", "C20_foreign_rejected", "C20_legacy_newer_rejected",
    "C20_wheel_key_above_sdist", "C20_wheel_ranks_before_sdist",
    "C20_rank_keys_order_free", "C20_rank_order_free", "C20_rank_tie_resolved", "C20_sort_is_permutation",
    "C20_py_score_injective_partial", "C20_py_score_minor16_resolved", "C20_legacy_scores_as_pep600",
    "C20_tag_score_set_order_free", "C20_usability_set_order_free",
    "C20_glibc_version_roundtrip",
    "C20_wheel_fields_roundtrip", "C20_supported_file_eligible", "C20_foreign_file_rejected",
]
RULE = ("interpreter configurations (CPython 2.6-3.20, both old ABI flags, glibc None/2.0-2.45/1.x/3.x, six "
        "machines; ~15% incoherent ones such as foreign PLATFORM_TAGS) are installed into "
        "req_compile.repos.repository by patching INTERPRETER_TAG, PY_VERSION_NUM, ABI_TAGS, PLATFORM_TAGS, "
        "get_glibc_version, get_system_arch and sys.version_info; wheel/sdist file names are generated from the "
        "configuration's own supported tags (packaging's generators), from foreign majors/implementations/ABI "
        "generations/platforms/newer manylinux, compressed tag sets (python, ABI and platform fields) and ~15% malformed tags; "
        "filename_to_candidate -> check_usability / tag_score / sort_candidates (and _impl_major_minor, "
        "_py_version_score, manylinux_tag_is_compatible_with_this_system, utils.get_glibc_version with a fake libc "
        "symbol, int()) are compared with the extracted "
        "Coq model; the specification sys_tags is compared, as an ordered list, with packaging.tags.sys_tags() "
        "for the running interpreter and with packaging's cpython_tags/compatible_tags/_manylinux.platform_tags "
        "for generated configurations; all tags of the running interpreter are run as single-tag wheels; PEP 427 file "
        "names with and without build tags (numeric/alphanumeric; python tags that are and are not ABI tags; 4/7 parts, "
        "directory prefix) are read by the model itself (wheel_fields_of) and compared field by field, then through "
        "check_usability and sort_candidates. "
        "Non-trivial = a wheel candidate (U/T), a list with two candidates of equal version (S), a manylinux or "
        "legacy tag (M), a coherent configuration (G/C); distinct = distinct (configuration, file names).")
TRUSTED_BASE = [
    "T1 harness/tr_c20.py: LEGACY_ALIASES / LEGACY_MANYLINUX + the literal body of _normalize_manylinux and where it is applied, "
    "the 'any' step of tag_score, INTERPRETER_TAGS, MANYLINUX_REGEX, DistributionType values, tuple order of "
    "Candidate.sortkey and Candidate.tag_score, sorted(... reverse=True), impl_score_defaults + shifts, order/guards of "
    "check_usability, single-string vs tag-set shape of _check_abi_compatibility and of tag_score's abi_score -> gen/ConstsC20.v "
    "(obligations in proofs/TagsC20P.v section GenOK)",
    "T2 harness/c20.py: generators, configuration patching (as tests/conftest.py mock_py_version, plus the constants it "
    "leaves alone), canonicalisation (exception class names, candidate identity by index)",
    "packaging 26.3 tags.sys_tags / cpython_tags / compatible_tags / _manylinux.platform_tags are the reference for the "
    "specification sys_tags (validated by T2 only); packaging Version order via lib/Pep440 (validated by C17's T2)",
    "CPython int(), str.isalpha, str.lower, re.match on ASCII input, sorted() stability: modelled, validated by T2 only",
    "modelled, not verified: req_compile/repos/repository.py (_impl_major_minor ... sort_candidates), utils.get_glibc_version",
]
ASSUMPTIONS = [
    "ASCII tags only (str.isalpha / int() / lower() on non-ASCII characters are outside the model)",
    "no importable _manylinux override module (checked at run time by the harness)",
    "digit runs in manylinux tags shorter than CPython's 4300-digit int() limit",
    "sys_tags: non-debug, non-free-threaded CPython 2.x/3.x on glibc 2.x Linux, machine name as reported by uname "
    "(a 32-bit interpreter on a 64-bit kernel, musl, macOS, Windows, PyPy are outside the specification)",
    "check_usability is observed with req=None (VERSION_NO_SATISFY belongs to C03)",
    "DistributionType.SOURCE candidates (source-tree repositories) are modelled in the key but not generated from file names",
]

VersionInfo = collections.namedtuple("VersionInfo", "major minor micro releaselevel serial")
ARCHS = ["x86_64", "i686", "aarch64", "armv7l", "ppc64le", "s390x"]


# ------------------------------------------------------------------------------------------
# the implementation under a configuration


class _Proxy:
    def __init__(self, real: Any, **over: Any) -> None:
        self.__dict__["_real"] = real
        self.__dict__["_over"] = over

    def __getattr__(self, name: str) -> Any:
        over = self.__dict__["_over"]
        if name in over:
            return over[name]
        return getattr(self.__dict__["_real"], name)


def _imports():
    logging.disable(logging.CRITICAL)
    warnings.simplefilter("ignore")
    import enc440
    import req_compile.repos.repository as R
    return enc440, R


@contextlib.contextmanager
def configured(R, cfg: Dict[str, Any]):
    """Install a configuration the way tests/conftest.py mock_py_version does (plus the module constants that
    fixture leaves alone)."""
    vi = VersionInfo(cfg["major"], cfg["minor"], 0, "final", 0)
    glibc = tuple(cfg["glibc"]) if cfg["glibc"] is not None else None
    with contextlib.ExitStack() as st:
        st.enter_context(mock.patch.object(R, "sys", _Proxy(_real_sys, version_info=vi)))
        st.enter_context(mock.patch.object(R, "INTERPRETER_TAG", cfg["impl"]))
        st.enter_context(mock.patch.object(R, "PY_VERSION_NUM", str(cfg["major"]) + str(cfg["minor"])))
        st.enter_context(mock.patch.object(R, "ABI_TAGS", tuple(cfg["abi_tags"])))
        st.enter_context(mock.patch.object(R, "PLATFORM_TAGS", tuple(cfg["platform_tags"])))
        st.enter_context(mock.patch.object(R, "get_glibc_version", lambda *a, **k: glibc))
        st.enter_context(mock.patch.object(R, "get_system_arch", lambda *a, **k: cfg["arch"]))
        yield


def impl_cfg_of(R, raw: Dict[str, Any]) -> Dict[str, Any]:
    """The module-level constants repository.py computes for an interpreter `raw` (Linux branch): runs the real
    _get_abi_tag / _get_platform_tags with sys / sysconfig / distutils answers of that interpreter."""
    vi = VersionInfo(raw["major"], raw["minor"], 0, "final", 0)
    impl = R.INTERPRETER_TAGS.get("CPython", "cp")
    fake_sys = _Proxy(_real_sys, version_info=vi, platform="linux", maxunicode=0x10FFFF if raw["ucs4"] else 0xFFFF)

    def get_config_var(name: str, *a: Any, **k: Any) -> Any:
        return {"WITH_PYMALLOC": 1 if raw["pymalloc"] else 0, "Py_UNICODE_SIZE": 4 if raw["ucs4"] else 2}.get(name)

    with contextlib.ExitStack() as st:
        st.enter_context(mock.patch.object(R, "sys", fake_sys))
        st.enter_context(mock.patch.object(R, "sysconfig", _Proxy(R.sysconfig, get_config_var=get_config_var)))
        st.enter_context(mock.patch.object(R, "INTERPRETER_TAG", impl))
        st.enter_context(mock.patch.object(R, "PY_VERSION_NUM", str(vi.major) + str(vi.minor)))
        st.enter_context(mock.patch.object(R.distutils.util, "get_platform", lambda *a, **k: "linux-" + raw["arch"]))
        abi = R._get_abi_tag()
        plats = tuple(R._get_platform_tags())
    return {"impl": impl, "major": vi.major, "minor": vi.minor, "abi_tags": ["abi" + str(vi.major), abi],
            "platform_tags": list(plats), "glibc": raw["glibc"], "arch": raw["arch"]}


def reference_glibc() -> Optional[List[int]]:
    """the C library version from a source the code under test does not use"""
    try:
        name, _, ver = os.confstr("CS_GNU_LIBC_VERSION").partition(" ")
        if name != "glibc":
            return None
        return [int(x) for x in ver.split(".")[:2]]
    except (ValueError, OSError, AttributeError):
        return None


def running_raw(R) -> Dict[str, Any]:
    g = reference_glibc()
    return {"major": _real_sys.version_info.major, "minor": _real_sys.version_info.minor, "pymalloc": True, "ucs4": True,
            "glibc": list(g) if g else None, "arch": R.get_system_arch()}


def packaging_tags(raw: Dict[str, Any]) -> List[Tuple[str, str, str]]:
    """packaging's supported-tag list for interpreter `raw` (its public generators with explicit arguments;
    the glibc version and the config variables are the only things patched)."""
    import packaging._manylinux as ML
    import packaging.tags as PT
    glibc = tuple(raw["glibc"]) if raw["glibc"] is not None else (-1, -1)

    def get_config_var(name: str, warn: bool = False) -> Any:
        return {"Py_DEBUG": 0, "WITH_PYMALLOC": 1 if raw["pymalloc"] else 0,
                "Py_UNICODE_SIZE": 4 if raw["ucs4"] else 2, "Py_GIL_DISABLED": 0}.get(name)

    with contextlib.ExitStack() as st:
        st.enter_context(mock.patch.object(ML, "_get_glibc_version", lambda: glibc))
        st.enter_context(mock.patch.object(ML, "_have_compatible_abi", lambda exe, archs: True))
        st.enter_context(mock.patch.object(PT, "_get_config_var", get_config_var))
        plats = ["linux_" + raw["arch"]] + (list(ML.platform_tags([raw["arch"]])) if raw["glibc"] is not None else [])
        pv = (raw["major"], raw["minor"])
        abis = PT._cpython_abis(pv)
        tags = list(PT.cpython_tags(python_version=pv, abis=abis, platforms=plats))
        tags += list(PT.compatible_tags(python_version=pv, interpreter="cp%d%d" % pv, platforms=plats))
    return [(t.interpreter, t.abi, t.platform) for t in tags]


# ------------------------------------------------------------------------------------------
# token encoders


def glibc_tok(g: Optional[Iterable[int]]) -> str:
    return "N" if g is None else "S {} {}".format(*g)


def cfg_tokens(cfg: Dict[str, Any]) -> str:
    return "{} {} {} {} {} {} {} {} {}".format(
        hx(cfg["impl"]), cfg["major"], cfg["minor"],
        len(cfg["abi_tags"]), " ".join(hx(a) for a in cfg["abi_tags"]),
        len(cfg["platform_tags"]), " ".join(hx(a) for a in cfg["platform_tags"]),
        glibc_tok(cfg["glibc"]), hx(cfg["arch"])).replace("  ", " ")


def raw_tokens(raw: Dict[str, Any]) -> str:
    return "{} {} {} {} {} {}".format(raw["major"], raw["minor"], int(raw["pymalloc"]), int(raw["ucs4"]),
                                      glibc_tok(raw["glibc"]), hx(raw["arch"]))


def cand_obs(cand: Any, idx: int) -> Dict[str, Any]:
    """What the model is told about a Candidate object (sets in their iteration order)."""
    if cand.py_version is None:
        py = None
    else:
        py = list(cand.py_version.py_versions) if cand.py_version.py_versions else []
    return {"id": idx, "version": cand.version, "extra": cand.extra_sort_info, "type": cand.type.name,
            "py": py, "abi": cand.abi, "plats": list(cand.platforms),
            "filename": cand.filename if isinstance(cand.filename, str) else None}


def cand_tokens(enc440, o: Dict[str, Any]) -> str:
    toks = [str(o["id"]), enc440.ver_token(o["version"]), hx(o["extra"]), {"SOURCE": "S", "WHEEL": "W", "SDIST": "D"}[o["type"]]]
    toks += ["N"] if o["py"] is None else ["S", str(len(o["py"]))] + [hx(p) for p in o["py"]]
    toks += ["N"] if o["abi"] is None else ["S", hx(o["abi"])]
    toks += [str(len(o["plats"]))] + [hx(p) for p in o["plats"]]
    toks += ["N"] if o["filename"] is None else ["S", hx(o["filename"])]
    return " ".join(toks)


def coq_cfg(cfg: Dict[str, Any]) -> str:
    cs = common.coq_string
    g = "None" if cfg["glibc"] is None else "(Some ({}%N, {}%N))".format(*cfg["glibc"])
    return "(mkCfg {} ({})%Z ({})%Z [{}] [{}] {} {})".format(
        cs(cfg["impl"]), cfg["major"], cfg["minor"], "; ".join(cs(a) for a in cfg["abi_tags"]),
        "; ".join(cs(a) for a in cfg["platform_tags"]), g, cs(cfg["arch"]))


def coq_cand(enc440, o: Dict[str, Any]) -> str:
    cs = common.coq_string
    py = "None" if o["py"] is None else "(Some [" + "; ".join(cs(p) for p in o["py"]) + "])"
    abi = "None" if o["abi"] is None else "(Some " + cs(o["abi"]) + ")"
    fn = "None" if o["filename"] is None else "(Some " + cs(o["filename"]) + ")"
    return "(mkCand {}%N {} {} {} {} {} [{}] {})".format(
        o["id"], enc440.coq_version_tok(enc440.ver_token(o["version"])), cs(o["extra"]),
        {"SOURCE": "Source", "WHEEL": "Wheel", "SDIST": "Sdist"}[o["type"]], py, abi,
        "; ".join(cs(p) for p in o["plats"]), fn)


# ------------------------------------------------------------------------------------------
# generators (python side only; never call the model)


def gen_raw(rng) -> Dict[str, Any]:
    major = 3 if rng.random() < 0.9 else 2
    minor = rng.choice(list(range(0, 21))) if major == 3 else rng.choice([6, 7])
    r = rng.random()
    if r < 0.08:
        glibc = None
    elif r < 0.90:
        glibc = [2, rng.choice([0, 4, 5, 6, 11, 12, 13, 16, 17, 18, 24, 28, 31, 34, 35, 36, 39, 45])]
    else:
        glibc = [rng.choice([1, 3]), rng.choice([0, 5, 17, 30])]
    return {"major": major, "minor": minor, "pymalloc": rng.random() < 0.8, "ucs4": rng.random() < 0.5,
            "glibc": glibc, "arch": rng.choice(ARCHS + ["x86_64", "x86_64"])}


def gen_cfg(rng, R) -> Tuple[Dict[str, Any], Optional[Dict[str, Any]]]:
    """(configuration, the raw interpreter it is coherent with or None)"""
    raw = gen_raw(rng)
    cfg = impl_cfg_of(R, raw)
    if rng.random() < 0.85:
        return cfg, raw
    k = rng.choice(["plat", "multi", "impl", "abi", "noplat"])
    if k == "plat":
        cfg["platform_tags"] = ["this_platform"]
    elif k == "multi":
        cfg["platform_tags"] = ["macosx_11_0_arm64", "macosx_11_0_universal2", "macosx_10_9_x86_64", "macosx_10_9_universal2"]
        cfg["glibc"] = None
        cfg["arch"] = "arm64"
    elif k == "impl":
        cfg["impl"] = rng.choice(["pp", "ip", "jy"])
    elif k == "abi":
        cfg["abi_tags"] = ["abi%d" % cfg["major"], "cp%d%dd" % (cfg["major"], cfg["minor"])]
    else:
        cfg["platform_tags"] = []
    return cfg, None


def gen_py_tag(rng, cfg) -> str:
    M, m = cfg["major"], cfg["minor"]
    r = rng.random()
    if r < 0.45:   # supported-looking
        return rng.choice(["cp%d%d" % (M, rng.randint(0, m)), "py%d" % M, "py%d%d" % (M, rng.randint(0, m)),
                           "%s%d%d" % (cfg["impl"], M, m), "cp%d%d" % (M, m), "cp%d" % M])
    if r < 0.60:   # newer minor
        return rng.choice(["cp", "py"]) + "%d%d" % (M, m + rng.randint(1, 4))
    if r < 0.72:   # other major
        return rng.choice(["cp", "py"]) + rng.choice(["%d" % (5 - M), "%d7" % (5 - M), "%d%d" % (5 - M, m), "4", "0"])
    if r < 0.84:   # other implementation
        return rng.choice(["pp", "ip", "jy", "PY", "Cp", "xx"]) + "%d%d" % (M, rng.randint(0, m))
    return rng.choice(["", "c", "3", "cp", "py", "c3", "3p", "cp3x", "cp3_1", "cp31_2", "cp3 ", "cp3 9", "cp3+9", "cp3-1",
                       "cp3_", "cp3__1", "cp3\t7", "cp 37", "cp+3", "cp_3", "cpx", "cpython", "c_38", "_p38", "p", "_",
                       "cp30" + "0" * rng.randint(1, 3) + "7", "cp3" + str(rng.randint(0, 40)), "py3" + str(rng.randint(16, 300)),
                       "zz9", "aa312", "~~3", "cp3\n"])


def gen_abi_tag(rng, cfg) -> str:
    M, m = cfg["major"], cfg["minor"]
    r = rng.random()
    if r < 0.50:
        return rng.choice(["none", "none", cfg["abi_tags"][0], cfg["abi_tags"][-1] if cfg["abi_tags"] else "none", "abi3"])
    if r < 0.72:
        return rng.choice(["cp%d%d" % (M, m + 1), "cp%d%d" % (M, max(m - 1, 0)), "cp%d%dm" % (M, m), "cp%d%dmu" % (M, m),
                           "cp%d%d" % (5 - M, m), "abi%d" % (5 - M), "abi4", "pypy39_pp73", "cp%d%dd" % (M, m), "cp%d%dt" % (M, m)])
    if r < 0.92:   # compressed ABI sets (PEP 425): supported + foreign, only foreign, with "none", empty elements
        pool = ["abi3", "none", cfg["abi_tags"][0], cfg["abi_tags"][-1] if cfg["abi_tags"] else "none", "cp%d%d" % (M, m), "cp%d%d" % (M, m + 1),
                "cp%d%d" % (M, max(m - 1, 0)), "cp%d%dm" % (M, m), "abi%d" % (5 - M), "abi4", "pypy39_pp73", "", "NONE", "cp%d%dd" % (M, m)]
        return ".".join(rng.choice(pool) for _ in range(rng.choice([2, 2, 2, 3, 4])))
    return rng.choice(["None", "NONE", "", "ABI3", "abi3 ", "any", "cp", "."])


def gen_plat_tag(rng, cfg) -> str:
    arch = cfg["arch"]
    g = cfg["glibc"] or [2, 17]
    r = rng.random()
    if r < 0.12:
        return "any"
    if r < 0.28:
        return rng.choice(cfg["platform_tags"]) if cfg["platform_tags"] and rng.random() < 0.7 else "linux_" + arch
    if r < 0.52:   # manylinux around the system's glibc
        return "manylinux_%d_%d_%s" % (g[0], max(0, g[1] + rng.choice([-20, -3, -1, 0, 0, 1, 2, 10])), arch)
    if r < 0.66:
        return rng.choice(["manylinux1", "manylinux2010", "manylinux2014"]) + "_" + rng.choice([arch, arch, "x86_64", "i686", "aarch64"])
    if r < 0.76:   # other machine / other glibc major
        return "manylinux_%d_%d_%s" % (rng.choice([1, 2, 2, 3]), rng.choice([0, 5, 17, 28, 40]), rng.choice(ARCHS))
    if r < 0.88:
        return rng.choice(["win_amd64", "win32", "win_arm64", "macosx_10_9_x86_64", "macosx_11_0_arm64", "macosx_10_9_universal2",
                           "musllinux_1_1_" + arch, "musllinux_1_2_x86_64", "linux_" + rng.choice(ARCHS), "linux_armv6l",
                           "this_platform", "unsupported_platform", "and_another"])
    return rng.choice(["ANY", "Any", "Linux_" + arch.upper(), "LINUX_" + arch, "", "manylinux", "manylinux_", "manylinux_2", "manylinux_2_",
                       "manylinux_2_17", "manylinux_2_17_", "manylinux_x_17_" + arch, "manylinux_2_x_" + arch, "manylinux__17_" + arch,
                       "manylinux_02_005_" + arch, "manylinux_2_17_" + arch + "\nx", "manylinux_2_17_" + arch + " ", "xmanylinux_2_17_" + arch,
                       "MANYLINUX_2_17_" + arch, "manylinux_2_17-" + arch, "manylinux1_" + arch.upper(), "manylinux2014", "manylinux_2_17_" + arch + "_x",
                       "manylinux_99999999999999999999_1_" + arch, "manylinux_2_99999999999999999999_" + arch])


def compress(rng, gen, cfg, p_multi: float) -> str:
    n = 1 if rng.random() > p_multi else rng.choice([2, 2, 3, 4])
    return ".".join(gen(rng, cfg) for _ in range(n))


VERSIONS = ["1.0", "1.0", "1.0", "1.0", "1.0.0", "1", "2.0", "0.9", "1.0rc1", "1.0.post1", "1.0.dev3", "1.0a2"]
BUILDS = ["", "", "", "", "1", "2", "10", "1a", "0"]


def gen_filename(rng, cfg, version: Optional[str] = None) -> str:
    v = version or rng.choice(VERSIONS)
    name = rng.choice(["x", "x", "proj", "My_Proj"])
    r = rng.random()
    if r < 0.15:
        return name + ("-" + v if rng.random() < 0.95 else "") + rng.choice([".tar.gz", ".tar.gz", ".zip", ".tgz", ".tar.bz2", " .tar.gz"])
    build = rng.choice(BUILDS)
    return "{}-{}{}-{}-{}-{}.whl".format(name if rng.random() < 0.95 else "x y", v, "-" + build if build else "",
                                         compress(rng, gen_py_tag, cfg, 0.3), gen_abi_tag(rng, cfg), compress(rng, gen_plat_tag, cfg, 0.3))


BUILD_TAGS = ["", "", "1", "7", "2b", "20240101", "1a", "0", "10", "3_x"]


def gen_wheel_name(rng, cfg, version: Optional[str] = None, plain: bool = False) -> str:
    """PEP 427 names name-version[-build]-python-abi-platform.whl: numeric and alphanumeric build tags, python tags
    that are ABI tags of the configuration (cp<major><minor>) and python tags that are not (py3, older cp), plus
    (unless plain) names with 4 / 7 dash-separated parts, a directory prefix, an upper-case extension"""
    M, m = cfg["major"], cfg["minor"]
    v = version or rng.choice(["1.0", "1.0", "1.0.0", "2.0", "0.9", "1.0rc1", "1.0.post1"])
    name = rng.choice(["x", "demo_pkg", "My_Proj", "a.b"])
    build = rng.choice(BUILD_TAGS)
    r = rng.random()
    if r < 0.35:
        py = rng.choice([cfg["abi_tags"][-1] if cfg["abi_tags"] else "cp%d%d" % (M, m), "cp%d%d" % (M, m), "abi%d" % M])   # python tag that is also an ABI tag
    elif r < 0.75:
        py = rng.choice(["py%d" % M, "py%d%d" % (M, m), "cp%d%d" % (M, max(m - 1, 0)), "py2.py3", "cp%d" % M])
    else:
        py = compress(rng, gen_py_tag, cfg, 0.3)
    abi = rng.choice(["none", "none", "abi3", cfg["abi_tags"][-1] if cfg["abi_tags"] else "none", "cp%d%d" % (M, m)]) if rng.random() < 0.7 else gen_abi_tag(rng, cfg)
    plat = rng.choice(["any", "any", "linux_" + cfg["arch"], "manylinux2014_" + cfg["arch"], "manylinux_2_17_" + cfg["arch"],
                       "manylinux_2_17_%s.manylinux2014_%s" % (cfg["arch"], cfg["arch"]), "win_amd64"]) if rng.random() < 0.7 else compress(rng, gen_plat_tag, cfg, 0.3)
    parts = [name, v] + ([build] if build else []) + [py, abi, plat]
    if any("-" in p or "/" in p or "\\" in p for p in parts):
        parts = [name, v] + ([build] if build else []) + ["py%d" % M, "none", "any"]
    fn = "-".join(parts) + ".whl"
    if plain:
        return fn
    k = rng.random()
    if k < 0.05:
        return "-".join(parts[:4]) + ".whl"                       # too few parts
    if k < 0.12:
        return "-".join(parts[:2] + ["9", "8"][: 7 - len(parts)] + parts[2:]) + ".whl"   # 7 parts: nothing is popped
    if k < 0.17:
        return rng.choice(["dir/", "a/b/", "/abs/"]) + fn
    if k < 0.20:
        return fn[:-4] + ".WHL"
    return fn


def direct_candidate(rng, R, cfg) -> Any:
    """Candidates the repositories build without a file name (py_version None / empty tag set / abi None / SOURCE)."""
    from packaging.version import Version
    k = rng.choice(["source", "emptypy", "nonepy", "nofile", "manyplat"])
    v = Version(rng.choice(VERSIONS))
    if k == "source":
        return R.Candidate("x", None, v, None, None, "any", None, candidate_type=R.DistributionType.SOURCE)
    if k == "emptypy":
        return R.Candidate("x", "x.whl", v, R.WheelVersionTags(()), gen_abi_tag(rng, cfg).replace("none", "abi3"),
                           [gen_plat_tag(rng, cfg)], None, candidate_type=R.DistributionType.WHEEL)
    if k == "nonepy":
        return R.Candidate("x", "x.whl", v, None, None, [gen_plat_tag(rng, cfg), gen_plat_tag(rng, cfg)], None,
                           candidate_type=R.DistributionType.WHEEL, extra_sort_info=rng.choice(BUILDS))
    if k == "nofile":
        return R.Candidate("x", None, v, R.WheelVersionTags((gen_py_tag(rng, cfg),)), None, [], None,
                           candidate_type=R.DistributionType.WHEEL)
    return R.Candidate("x", "x 1.whl", v, R.WheelVersionTags((gen_py_tag(rng, cfg), gen_py_tag(rng, cfg))), None,
                       ["any", gen_plat_tag(rng, cfg), gen_plat_tag(rng, cfg)], None, candidate_type=R.DistributionType.WHEEL)


def make_candidate(rng, R, cfg, version: Optional[str] = None) -> Tuple[Any, Any]:
    """(description for the evidence/replay, Candidate or None)"""
    if rng.random() < 0.07:
        c = direct_candidate(rng, R, cfg)
        return ("direct", str(c)), c
    fn = gen_filename(rng, cfg, version)
    return fn, R.filename_to_candidate(None, fn)


def impl_alias(R, tag: str) -> str:
    """the re-spelling check_usability's manylinux test applies before MANYLINUX_REGEX (whichever the code has)"""
    if hasattr(R, "_normalize_manylinux"):
        return R._normalize_manylinux(tag)
    return R.LEGACY_ALIASES.get(tag, tag)


def exc_name(f, *a):
    try:
        return ("OK", f(*a))
    except Exception as ex:  # noqa: BLE001 - the class name is the observation
        common.reraise_harness_fault(ex)     # ... unless the error is one of the harness's own stand-ins
        return ("ERR", type(ex).__name__)


# ------------------------------------------------------------------------------------------
# T1


def translate(ctx: Ctx) -> Dict[str, str]:
    import tr_c20
    return {"gen/ConstsC20.v": tr_c20.gen_consts()}


# ------------------------------------------------------------------------------------------
# T2


def correspondence(ctx: Ctx) -> None:
    enc440, R = _imports()
    rng = ctx.rng
    try:
        import _manylinux  # type: ignore  # noqa: F401
        ctx.obligation_broken("assumption:no-_manylinux-module", "a _manylinux override module is importable")
    except ImportError:
        pass
    lines: List[str] = []
    expect: List[Tuple[str, Any, Any, bool]] = []   # (kind, case, impl observation, nontrivial)
    coq_items: List[Tuple[Dict[str, Any], Dict[str, Any], str]] = []

    def add(line: str, kind: str, case: Any, obs: Any, nontrivial: bool) -> None:
        lines.append(line)
        expect.append((kind, case, obs, nontrivial))

    # (0) corpus first: the witnesses of the _refuted theorems, as U/S cases under their configuration
    for w in load_corpus():
        for kind, cfg, files, he, ap in corpus_cases(w):
            with configured(R, cfg):
                cands = [R.filename_to_candidate(None, f) for f in files]
                obs_list = [cand_obs(c, i) for i, c in enumerate(cands)]
                if kind == "U":
                    r = R.check_usability(None, cands[0], has_equality=he, allow_prereleases=ap)
                    add("U {} {} {} {}".format(cfg_tokens(cfg), cand_tokens(enc440, obs_list[0]), int(he), int(ap)),
                        "U", ("corpus", w["id"], files[0]), "OK" if r is None else r.name, True)
                else:
                    out = exc_name(lambda: [next(i for i, c in enumerate(cands) if c is x) for x in R.sort_candidates(cands)])
                    add("S {} {} {}".format(cfg_tokens(cfg), len(cands), " ".join(cand_tokens(enc440, o) for o in obs_list)),
                        "S", ("corpus", w["id"], tuple(files)), "OK " + " ".join(map(str, out[1])) if out[0] == "OK" else "ERR " + out[1], True)

    # (1) int()
    alphabet = "0123456789 _+-\t\na\x1c"
    for _ in range(ctx.n(500, 20000)):
        if rng.random() < 0.4:
            s = rng.choice(["", " ", "+", "-"]) + rng.choice(["", " "]) + str(rng.randint(0, 10 ** rng.randint(0, 25))) + rng.choice(["", " ", "\n", "_", " x"])
            if rng.random() < 0.3 and len(s) > 2:
                i = rng.randint(1, len(s) - 1)
                s = s[:i] + "_" + s[i:]
        else:
            s = "".join(rng.choice(alphabet) for _ in range(rng.randint(0, 6)))
        try:
            obs = str(int(s))
        except ValueError:
            obs = "N"
        add("I " + hx(s), "I", s, obs, obs != "N")

    # (2) python tags: _impl_major_minor, _is_py_version_compatible, _py_version_score
    for _ in range(ctx.n(700, 30000)):
        cfg, raw = gen_cfg(rng, R)
        s = gen_py_tag(rng, cfg)
        impl, ma, mi = R._impl_major_minor(s)
        add("P " + hx(s), "P", s, "{} {} {}".format(hx(impl), ma, mi), len(s) >= 3)
        with configured(R, cfg):
            comp = R._is_py_version_compatible(s)
            sc = exc_name(R._py_version_score, s)
        add("Y {} {}".format(cfg_tokens(cfg), hx(s)), "Y", (json.dumps(cfg, sort_keys=True), s),
            "{} {}".format(int(comp), sc[1]), len(s) >= 3)

    # (3) manylinux policy
    import re
    for _ in range(ctx.n(900, 40000)):
        cfg, raw = gen_cfg(rng, R)
        t = gen_plat_tag(rng, cfg)
        with configured(R, cfg):
            ok = R.manylinux_tag_is_compatible_with_this_system(t)
        m = re.match(R.MANYLINUX_REGEX, impl_alias(R, t))
        groups = "N" if m is None else "{} {} {}".format(int(m.group(1)), int(m.group(2)), hx(m.group(3)))
        add("M {} {}".format(cfg_tokens(cfg), hx(t)), "M", (json.dumps(cfg, sort_keys=True), t),
            "{} {}".format(int(ok), groups), t.startswith("manylinux"))

    # (4) wheel file name -> tag sets
    for _ in range(ctx.n(300, 10000)):
        cfg, raw = gen_cfg(rng, R)
        pyf, abif, platf = compress(rng, gen_py_tag, cfg, 0.5), gen_abi_tag(rng, cfg), compress(rng, gen_plat_tag, cfg, 0.5)
        if any(ch in f for f in (pyf, abif, platf) for ch in "-/\\"):
            continue
        c = R.filename_to_candidate(None, "x-1.0-{}-{}-{}.whl".format(pyf, abif, platf))
        if c is None:
            continue
        obs = (sorted(c.py_version.py_versions), c.abi, sorted(c.platforms))
        add("W {} {} {}".format(hx(pyf), hx(abif), hx(platf)), "W", (pyf, abif, platf), obs, "." in pyf + platf)

    # (4b) PEP 427 file names end to end: the model reads the file name itself (wheel_fields_of), then
    #      check_usability / sort_candidates on what it read - with and without build tags
    for _ in range(ctx.n(900, 40000)):
        cfg, raw = gen_cfg(rng, R)
        fn = gen_wheel_name(rng, cfg)
        with configured(R, cfg):
            c = R.filename_to_candidate(None, fn)
            he, ap = rng.random() < 0.2, rng.random() < 0.5
            r = None if c is None else R.check_usability(None, c, has_equality=he, allow_prereleases=ap)
        obs = "N" if c is None else (c.name, c.extra_sort_info, sorted(c.py_version.py_versions), c.abi, sorted(c.platforms), c.filename)
        add("F " + hx(fn), "F", fn, obs, c is not None and bool(c.extra_sort_info))
        if c is not None:
            add("UF {} {} {} {} {}".format(cfg_tokens(cfg), enc440.ver_token(c.version), hx(fn), int(he), int(ap)), "UF",
                (json.dumps(cfg, sort_keys=True), fn, he, ap), "OK" if r is None else r.name, bool(c.extra_sort_info))
    for _ in range(ctx.n(500, 20000)):
        cfg, raw = gen_cfg(rng, R)
        version = rng.choice(["1.0", "1.0", "2.0"])
        files = []
        for _i in range(rng.choice([2, 3, 4, 6])):
            if rng.random() < 0.2:
                files.append("x-{}{}".format(version, rng.choice([".tar.gz", ".zip"])))
            else:
                f = gen_wheel_name(rng, cfg, version if rng.random() < 0.8 else None, plain=True)
                files.append(f)
        with configured(R, cfg):
            cands = [R.filename_to_candidate(None, f) for f in files]
            if any(c is None for c in cands) or len(cands) < 2:
                continue
            out = exc_name(lambda: [next(i for i, c in enumerate(cands) if c is x) for x in R.sort_candidates(cands)])
        items = " ".join("{} {} {} {}".format(i, "W" if f.endswith(".whl") else "D", enc440.ver_token(c.version), hx(f))
                         for i, (f, c) in enumerate(zip(files, cands)))
        add("SF {} {} {}".format(cfg_tokens(cfg), len(files), items), "SF", (json.dumps(cfg, sort_keys=True), tuple(files)),
            "OK " + " ".join(map(str, out[1])) if out[0] == "OK" else "ERR " + out[1], any(c.extra_sort_info for c in cands))

    # (5) check_usability / tag_score on candidates; (6) sort_candidates on lists
    n_u = ctx.n(2500, 120000)
    for _ in range(n_u):
        cfg, raw = gen_cfg(rng, R)
        with configured(R, cfg):
            desc, c = make_candidate(rng, R, cfg)
            if c is None:
                ctx.count("filename:not-a-candidate")
                continue
            he, ap = rng.random() < 0.2, rng.random() < 0.5
            r = R.check_usability(None, c, has_equality=he, allow_prereleases=ap)
            ts = exc_name(lambda: c.tag_score)
        o = cand_obs(c, 0)
        ct = cand_tokens(enc440, o)
        key = (json.dumps(cfg, sort_keys=True), desc)
        is_wheel = o["type"] == "WHEEL"
        add("U {} {} {} {}".format(cfg_tokens(cfg), ct, int(he), int(ap)), "U", key + (he, ap), "OK" if r is None else r.name, is_wheel)
        add("T {} {}".format(cfg_tokens(cfg), ct), "T", key, "OK " + " ".join(map(str, ts[1])) if ts[0] == "OK" else "ERR " + ts[1], is_wheel)
        if len(coq_items) < ctx.n(40, 150):
            coq_items.append((cfg, o, "OK" if r is None else r.name))
    for _ in range(ctx.n(900, 40000)):
        cfg, raw = gen_cfg(rng, R)
        version = rng.choice(["1.0", "1.0", "2.0"]) if rng.random() < 0.75 else None
        with configured(R, cfg):
            made = [make_candidate(rng, R, cfg, version) for _ in range(rng.choice([2, 2, 3, 4, 5, 7]))]
            if rng.random() < 0.3 and made:   # exact duplicates and near ties
                if isinstance(made[0][0], str):   # a second object for the same file (never the same object twice)
                    made.append((made[0][0], R.filename_to_candidate(None, made[0][0])))
            made = [(d, c) for d, c in made if c is not None]
            rng.shuffle(made)
            cands = [c for _, c in made]
            out = exc_name(lambda: [next(i for i, c in enumerate(cands) if c is x) for x in R.sort_candidates(cands)])
        obs_list = [cand_obs(c, i) for i, c in enumerate(cands)]
        eqv = len({str(c.version) for c in cands}) < len(cands)
        add("S {} {} {}".format(cfg_tokens(cfg), len(cands), " ".join(cand_tokens(enc440, o) for o in obs_list)).rstrip(),
            "S", (json.dumps(cfg, sort_keys=True), tuple(d for d, _ in made)),
            "OK " + " ".join(map(str, out[1])) if out[0] == "OK" else "ERR " + out[1], eqv)

    # (7) every supported tag of the running interpreter as a single-tag wheel (exhaustive over packaging's list)
    import packaging.tags as PT
    rr = running_raw(R)
    rcfg = {"impl": R.INTERPRETER_TAG, "major": rr["major"], "minor": rr["minor"], "abi_tags": list(R.ABI_TAGS),
            "platform_tags": list(R.PLATFORM_TAGS), "glibc": rr["glibc"], "arch": rr["arch"]}
    sys_tags_now = [(t.interpreter, t.abi, t.platform) for t in PT.sys_tags()]
    for (py, abi, plat) in sys_tags_now:
        fn = "x-1.0-{}-{}-{}.whl".format(py, abi, plat)
        c = R.filename_to_candidate(None, fn)
        r = R.check_usability(None, c)      # unpatched module: the running interpreter
        add("U {} {} 0 0".format(cfg_tokens(rcfg), cand_tokens(enc440, cand_obs(c, 0))), "U", ("running", fn), "OK" if r is None else r.name, True)
        ctx.count("running-tag:" + ("eligible" if r is None else r.name))

    # (7b) utils.get_glibc_version: the real function with a fake libc symbol; and unmocked against os.confstr
    import ctypes
    import types
    import req_compile.utils as U
    glibc_fn = getattr(U.get_glibc_version, "__wrapped__", U.get_glibc_version)
    strs = ["2.36", "2.5", "2.17", "2.4", "3.0", "2", "2.17.1", "2.x", "", ".", "2.", " 2 . 5 ", "+2.5", "2_0.1_7", "02.036", "2.-5",
            "10.200", "a.b", "2..5", "1.2.3.4"]
    for _ in range(ctx.n(60, 3000)):
        s0 = rng.choice(strs) if rng.random() < 0.6 else "".join(rng.choice("0123456789. _+-x") for _ in range(rng.randint(0, 6)))
        mode = rng.choice(["bytes", "str", "str", "missing"]) if rng.random() < 0.3 else "bytes"

        def fake_cdll(*a, _s=s0, _mode=mode, **k):     # CDLL(None) / CDLL(None, use_errno=...) ...
            ns = types.SimpleNamespace()
            if _mode != "missing":
                def gnu_get_libc_version(*a, **k):
                    return _s.encode("ascii") if _mode == "bytes" else _s
                ns.gnu_get_libc_version = gnu_get_libc_version
            return ns

        with mock.patch.object(ctypes, "CDLL", fake_cdll):
            r = exc_name(glibc_fn)
        obs = r[1] if r[0] == "ERR" else ("None" if r[1] is None else "{} {}".format(*r[1]))
        add("L " + ("N" if mode == "missing" else "S " + hx(s0)), "L", (mode, s0), obs, r[0] == "OK" and r[1] is not None)
    ref = reference_glibc()
    got = glibc_fn()
    ctx.case(key=("glibc-unmocked",), nontrivial=True)
    if (list(got) if got else None) != ref:
        ctx.mismatch("glibc-version", "running process", list(got) if got else None, {"os.confstr": ref})

    # (8) the specification sys_tags against packaging; cfg_of against the module-level code
    add("G " + raw_tokens(rr), "G", ("running", json.dumps(rr, sort_keys=True)), ("1", sys_tags_now), True)
    add("C " + raw_tokens(rr), "C", ("running", json.dumps(rr, sort_keys=True)), cfg_tokens(rcfg), True)
    for _ in range(ctx.n(60, 1500)):
        raw = gen_raw(rng)
        if raw["glibc"] is not None and raw["glibc"][0] != 2:
            raw["glibc"] = [2, raw["glibc"][1]]          # the specification covers glibc 2.x (wf_raw)
        add("G " + raw_tokens(raw), "G", json.dumps(raw, sort_keys=True), ("1", packaging_tags(raw)), True)
        add("C " + raw_tokens(raw), "C", json.dumps(raw, sort_keys=True), cfg_tokens(impl_cfg_of(R, raw)), True)

    # ---- run the model and compare
    answers = run_model("C20", lines)
    if len(answers) != len(lines):
        ctx.obligation_broken("model-runner:C20", f"{len(answers)} answers for {len(lines)} cases")
        return
    where = {"I": "py-int", "P": "impl-major-minor", "Y": "py-version-compat-score", "M": "manylinux-policy", "W": "wheel-tag-sets",
             "U": "check-usability", "T": "tag-score", "S": "sort-candidates", "G": "sys-tags-spec", "C": "module-constants",
             "L": "glibc-version", "F": "wheel-file-name", "UF": "file-usability", "SF": "file-sort"}
    for (kind, case, obs, nontriv), ans, line in zip(expect, answers, lines):
        ctx.count("kind:" + kind)
        got: Any = ans
        if kind == "W":
            toks = ans.split()
            n = int(toks[0])
            pys = sorted(unhx(t) for t in toks[1:1 + n])
            i = 1 + n
            abi = None
            if toks[i] == "S":
                abi = unhx(toks[i + 1]); i += 2
            else:
                i += 1
            m = int(toks[i])
            got = (pys, abi, sorted(unhx(t) for t in toks[i + 1:i + 1 + m]))
        elif kind == "F":
            toks = ans.split()
            if toks[0] == "N":
                got = "N"
            else:
                name, build = unhx(toks[1]), unhx(toks[3])
                n = int(toks[4])
                pys = sorted(unhx(t) for t in toks[5:5 + n])
                i = 5 + n
                abi = None
                if toks[i] == "S":
                    abi = unhx(toks[i + 1]); i += 2
                else:
                    i += 1
                m = int(toks[i])
                plats = sorted(unhx(t) for t in toks[i + 1:i + 1 + m])
                got = (name, build, pys, abi, plats, unhx(toks[i + 1 + m]))
        elif kind == "G":
            toks = ans.split()
            got = (toks[0], [tuple(unhx(x) for x in t.split(":")) for t in toks[1:]])
            ctx.count("sys_tags-size", len(got[1]))
        if kind == "UF":
            ctx.count("result:UF:" + obs)
        if kind in ("U", "T", "S"):
            ctx.count("result:" + kind + ":" + (obs if kind == "U" else obs.split()[0] + ("" if obs.startswith("OK") else " " + obs.split()[1])))
        ctx.case(key=(kind, case), nontrivial=nontriv,
                 sample={"kind": kind, "case": case if kind != "G" else "sys_tags", "impl": obs if kind != "G" else len(obs[1]),
                         "model": got if kind != "G" else len(got[1])} if ctx.evaluations % 1499 == 7 else None)
        if got != obs:
            if kind == "G":
                diff = [x for x in obs[1] if x not in got[1]][:5], [x for x in got[1] if x not in obs[1]][:5]
                ctx.mismatch(where[kind], case, {"n": len(obs[1]), "missing-in-model": diff[0]}, {"wf": got[0], "n": len(got[1]), "extra-in-model": diff[1]})
            else:
                ctx.mismatch(where[kind], {"case": case, "line": line}, obs, got)
    ctx.extra["running_interpreter_tags"] = len(sys_tags_now)
    # (9) a sample (and nothing else) re-evaluated inside Coq
    coq_recheck(ctx, enc440, coq_items)


def coq_recheck(ctx: Ctx, enc440, items: List[Tuple[Dict[str, Any], Dict[str, Any], str]]) -> None:
    if not items:
        return
    names = {"OK": "None", "WRONG_PYTHON_VERSION": "(Some WrongPython)", "WRONG_ABI": "(Some WrongAbi)", "WRONG_PLATFORM": "(Some WrongPlatform)",
             "IS_PRERELEASE": "(Some IsPrerelease)", "VERSION_NO_SATISFY": "(Some VersionNoSatisfy)"}
    rows = ["({}, {}, {})".format(coq_cfg(c), coq_cand(enc440, o), names[r]) for c, o, r in items]
    header = ("From Coq Require Import List String Ascii NArith ZArith Bool.\n"
              "From RC Require Import lib.Pep440 model.TypesC20 gen.ConstsC20 model.TagsC20.\nImport ListNotations.\nOpen Scope string_scope.\n")
    body = ["Definition reason_eqb (a b : option reason) : bool := match a, b with None, None => true | Some WrongPython, Some WrongPython => true"
            " | Some WrongAbi, Some WrongAbi => true | Some WrongPlatform, Some WrongPlatform => true | Some IsPrerelease, Some IsPrerelease => true"
            " | Some VersionNoSatisfy, Some VersionNoSatisfy => true | _, _ => false end.",
            "Definition cases : list (cfg * cand * option reason) := [" + ";\n ".join(rows) + "].",
            # the sample is taken with has_equality/allow_prereleases as generated: re-evaluate the tag part only
            "Definition bad := filter (fun x => match x with (c, k, e) => match e with Some IsPrerelease => false | _ => "
            "negb (reason_eqb (check_usability c k true true) e) end end) cases.",
            "Eval vm_compute in (List.length bad)."]
    stem = "c20_cases_%d" % os.getpid()
    try:
        ok, out = common.coq_eval(stem, header, body)
    finally:
        try:
            (common.COQ / "scratch" / (stem + ".v")).unlink()
        except FileNotFoundError:
            pass
    ctx.extra["coq_recheck"] = {"cases": len(rows), "ok": ok}
    if not ok or "= 0" not in out:
        ctx.mismatch("coq-vm_compute-recheck", {"n": len(rows)}, "0 mismatches", out[-600:])


# ------------------------------------------------------------------------------------------
# corpus / known findings


def load_corpus() -> List[Dict[str, Any]]:
    d = common.CORPUS / "C20"
    out = []
    if d.is_dir():
        for p in sorted(d.glob("*.json")):
            w = json.loads(p.read_text())
            w.setdefault("id", p.stem)
            out.append(w)
    return out


def corpus_cases(w: Dict[str, Any]):
    cfg = w["cfg"]
    if w["kind"] == "usability":
        yield ("U", cfg, [w["file"]], False, True)
    elif w["kind"] == "order":
        yield ("S", cfg, list(w["files"]), False, True)
        yield ("S", cfg, list(reversed(w["files"])), False, True)


def replay_known(ctx: Ctx, entry: Dict[str, Any]) -> Optional[bool]:
    enc440, R = _imports()
    w = json.loads((common.VERIF / entry["replay"]).read_text())
    return witness_violates(R, w)


def witness_violates(R, w: Dict[str, Any]) -> bool:
    """Does the stored input still violate the property statement on the real code?"""
    cfg = w["cfg"]
    if w["kind"] == "usability":
        with configured(R, cfg):
            c = R.filename_to_candidate(None, w["file"])
            r = R.check_usability(None, c, allow_prereleases=True)
        return (r is not None) if w["expect"] == "eligible" else (r is None)
    if w["kind"] == "order":
        if "distinct_scores" in w and R._py_version_score(w["distinct_scores"][0]) == R._py_version_score(w["distinct_scores"][1]):
            return True
        with configured(R, cfg):
            a = [c.filename for c in R.sort_candidates([R.filename_to_candidate(None, f) for f in w["files"]])]
            b = [c.filename for c in R.sort_candidates([R.filename_to_candidate(None, f) for f in reversed(w["files"])])]
        return a != b
    if w["kind"] == "set-order":
        seen = set()
        for seed in range(1, 13):
            env = dict(os.environ, PYTHONHASHSEED=str(seed), PYTHONPATH=str(common.REPO))
            p = subprocess.run([common.PY, "-W", "ignore", "-c",
                                "import logging;logging.disable(50)\nimport req_compile.repos.repository as R\n"
                                "print(R.filename_to_candidate(None, %r).tag_score)" % w["file"]],
                               env=env, stdout=subprocess.PIPE, stderr=subprocess.DEVNULL, text=True, cwd=str(common.VERIF))
            seen.add(p.stdout.strip())
        return len(seen) > 1
    return False


# ------------------------------------------------------------------------------------------
# the independent oracle: the property statement on the implementation only (never calls the model)


def pep427(fn: str):
    """PEP 427 reading of a wheel file name: (name, version, build, python field, abi field, platform field) or None.
    The compatibility tags are the last three dash-separated parts; a sixth part is the build tag."""
    if not fn.endswith(".whl"):
        return None
    parts = os.path.basename(fn)[:-4].split("-")
    if len(parts) == 5:
        return (parts[0], parts[1], "", parts[2], parts[3], parts[4])
    if len(parts) == 6:
        return (parts[0], parts[1], parts[2], parts[3], parts[4], parts[5])
    return None


ORACLE_BUILDS = ["", "", "1", "7", "2b", "20240101"]


def _with_build(rng, fn: str) -> str:
    """insert an optional build tag into name-version-py-abi-plat.whl (the tag set is unchanged: PEP 427)"""
    b = rng.choice(ORACLE_BUILDS)
    if not b:
        return fn
    parts = fn[:-4].split("-")
    return "-".join(parts[:2] + [b] + parts[2:]) + ".whl" if len(parts) == 5 else fn


def _known_defect(cfg, pyf: str, abif: str, platf: str) -> bool:
    """inputs listed as `known` in known_findings.d/C20.json - none any more: the compressed ABI field (c54d5f0) and the
    legacy alias names of machines other than x86_64/i686 (C20-1-legacy-alias-any-arch) are part of the domain now"""
    return False


def _spec_score(cfg, pyf: str, abif: str, platf: str, fn: str):
    """what must tell two listed files apart for the ranking to be independent of the listing order: since the file
    name is the last element of the sort key (C20-3-sortkey-file-name) that is the file name itself - wheels that
    differ in their interpreter, ABI or platform tags have different names"""
    return ("file", fn)


def _supported_tags(R, cfg, raw) -> List[Tuple[str, str, str]]:
    if raw is None:
        return []
    return packaging_tags(raw)


def _gen_foreign(rng, cfg) -> Tuple[str, str]:
    """(why it is foreign, file name) - a wheel built ONLY for another major / implementation / ABI generation /
    operating system or machine / newer C library"""
    M, m, arch = cfg["major"], cfg["minor"], cfg["arch"]
    okpy = "py%d" % M
    okplat = "any"
    k = rng.choice(["major", "impl", "abi", "os", "arch", "glibc", "legacy-glibc"])
    if k == "major":
        pys = ".".join(rng.sample(["cp%d%d" % (5 - M, m), "py%d" % (5 - M), "py%d7" % (5 - M), "cp%d" % (5 - M)], rng.choice([1, 2])))
        return k, "x-1.0-{}-none-{}.whl".format(pys, okplat)
    if k == "impl":
        others = [i for i in ("pp", "ip", "jy", "cp") if i != cfg["impl"]]
        return k, "x-1.0-{}{}{}-none-{}.whl".format(rng.choice(others), M, rng.randint(0, m), okplat)
    if k == "abi":
        cand = ["cp%d%d" % (M, m + 1), "cp%d%d" % (M, m + 2), "cp%d%d" % (5 - M, m), "abi%d" % (5 - M), "pypy39_pp73"] + (["cp%d%d" % (M, m - 1)] if m else [])
        cand = [a for a in cand if a not in cfg["abi_tags"]]
        return k, "x-1.0-{}-{}-{}.whl".format(okpy, ".".join(rng.sample(cand, rng.choice([1, 1, 2]))), okplat)
    if k == "os":
        plats = ".".join(rng.sample(["win_amd64", "win32", "macosx_10_9_x86_64", "macosx_11_0_arm64", "musllinux_1_1_" + arch], rng.choice([1, 2])))
        return k, "x-1.0-{}-none-{}.whl".format(okpy, plats)
    if k == "arch":
        other = rng.choice([a for a in ARCHS if a != arch])
        return k, "x-1.0-{}-none-{}.whl".format(okpy, rng.choice(["linux_" + other, "manylinux_2_5_" + other, "manylinux_2_17_" + other]))
    g = cfg["glibc"] or [2, 0]
    if k == "glibc":
        newer = rng.choice([(g[0], g[1] + 1), (g[0], g[1] + 7), (g[0] + 1, 0)])
        return k, "x-1.0-{}-none-manylinux_{}_{}_{}.whl".format(okpy, newer[0], newer[1], arch)
    for name, ver in (("manylinux2014", (2, 17)), ("manylinux2010", (2, 12)), ("manylinux1", (2, 5))):
        if tuple(g) < ver and arch in ("x86_64", "i686"):
            return k, "x-1.0-{}-none-{}_{}.whl".format(okpy, name, arch)
    return "glibc", "x-1.0-{}-none-manylinux_{}_{}_{}.whl".format(okpy, g[0], g[1] + 1, arch)


def oracle_case(R, case: Dict[str, Any]) -> Optional[str]:
    """None if the property statement holds on this input; otherwise why it fails."""
    cfg = case["cfg"]
    kind = case["kind"]
    # "unpatched": the module as imported (the running interpreter, the real get_glibc_version)
    with (contextlib.nullcontext() if case.get("unpatched") else configured(R, cfg)):
        if kind == "supported":
            c = R.filename_to_candidate(None, case["file"])
            r = R.check_usability(None, c, allow_prereleases=True)
            return None if r is None else "wheel {} carries the supported tag {} but is rejected: {}".format(case["file"], case["tag"], r.name)
        if kind == "foreign":
            c = R.filename_to_candidate(None, case["file"])
            r = R.check_usability(None, c, allow_prereleases=True)
            return None if r is not None else "wheel {} is built only for a foreign target ({}) but is eligible".format(case["file"], case["why"])
        if kind == "setorder":
            # the platforms of a Candidate are a set: its score must not depend on the iteration order
            scores = []
            for order in (case["plats"], list(reversed(case["plats"]))):
                c = R.filename_to_candidate(None, case["file"])
                assert sorted(c.platforms) == sorted(case["plats"])
                c.platforms = list(order)       # same elements, explicit iteration order
                scores.append(c.tag_score)
            return None if scores[0] == scores[1] else ("tag_score of {} depends on the iteration order of its platform set: "
                                                        "{} for {} vs {} reversed".format(case["file"], scores[0], case["plats"], scores[1]))
        if kind == "pyscore":
            a, b = case["tags"]
            return None if R._py_version_score(a) != R._py_version_score(b) else (
                "the python tags {} and {} get the same score {}, so wheels differing only in them tie".format(a, b, R._py_version_score(a)))
        if kind == "twin":
            a = R.filename_to_candidate(None, case["files"][0]).tag_score
            b = R.filename_to_candidate(None, case["files"][1]).tag_score
            return None if a == b else ("the legacy alias wheel {} and its PEP 600 spelling {} are ranked differently: "
                                        "tag_score {} vs {}".format(case["files"][0], case["files"][1], a, b))
        if kind == "rank":
            files = case["files"]
            outs = []
            orders = [files, list(reversed(files)), case.get("shuffled", files)]
            if case.get("perms"):
                # every listing order of small sets, a fixed sample of larger ones (seeded by the input: replays exactly)
                import itertools
                import random as _random
                if len(files) <= 4:
                    orders += [list(p) for p in itertools.permutations(files)]
                else:
                    prng = _random.Random(repr(files))
                    orders += [sorted(files), sorted(files, reverse=True)]
                    for _ in range(int(case["perms"])):
                        o = list(files)
                        prng.shuffle(o)
                        orders.append(o)
            chosen = []
            for order in orders:
                cands = [R.filename_to_candidate(None, f) for f in order]
                ok = [c for c in cands if R.check_usability(None, c, allow_prereleases=True) is None]
                outs.append([c.filename for c in R.sort_candidates(ok)])
                if case.get("through_repo") and ok:
                    chosen.append((_repo_choice(R, order), order))
            if chosen and any(c[0] != chosen[0][0] for c in chosen):
                other = [c for c in chosen if c[0] != chosen[0][0]][0]
                return ("get_dist of a repository listing the same files hands out {} (listing {}) or {} (listing {})"
                        .format(chosen[0][0], chosen[0][1], other[0], other[1]))
            for out in outs:
                seen_sdist = False
                for f in out:
                    if not f.endswith(".whl"):
                        seen_sdist = True
                    elif seen_sdist:
                        return "the source distribution is ranked before the eligible wheel {} (listing {})".format(f, out)
            if any(o != outs[0] for o in outs[1:]):
                return "ranking depends on the listing order: {} vs {}".format(outs[0], [o for o in outs if o != outs[0]][0])
            return None
    return None


def _repo_choice(R, listing: List[str]) -> Optional[str]:
    """the file an in-memory repository that lists `listing` in this order hands out for the bare requirement
    (Repository.get_dist -> do_get_candidate: filter, sort, first resolvable candidate)"""
    import pkg_resources
    from req_compile.containers import DistInfo

    class ListedRepo(R.Repository):
        def __init__(self) -> None:
            super().__init__("c20-oracle")

        def get_candidates(self, req):
            return [c for c in (R.filename_to_candidate(("memory://", f), f) for f in listing) if c is not None]

        def resolve_candidate(self, candidate):
            return DistInfo(candidate.name, candidate.version, []), False

    name = R.filename_to_candidate(None, listing[0]).name
    try:
        dist, _ = ListedRepo().get_dist(pkg_resources.Requirement.parse(name))
    except Exception as ex:  # noqa: BLE001 - e.g. NoCandidateException when nothing is eligible
        return "!" + type(ex).__name__
    cand = getattr(dist, "candidate", None)
    return getattr(cand, "filename", None) if cand is not None else None


def equal_score_case(rng, cfg) -> Optional[Dict[str, Any]]:
    """same-version wheels that differ in their interpreter, ABI or platform tags but are EQUALLY specific (equal tag
    score): py3 vs py2.py3, cp<Mm>-abi3-P vs cp<Mm>-none-P, manylinux1 vs manylinux_2_5, manylinux2014 vs
    manylinux_2_17 - together with differently scored wheels and the sdists.  Only the file name can order them."""
    M, m, arch = cfg["major"], cfg["minor"], cfg["arch"]
    cp = "%s%d%d" % (cfg["impl"], M, m)
    plat = cfg["platform_tags"][0] if cfg["platform_tags"] else "linux_" + arch
    pairs = [["demo_pkg-1.0-py%d-none-any.whl" % M, "demo_pkg-1.0-py2.py3-none-any.whl"],
             ["demo_pkg-1.0-%s-%s-%s.whl" % (cp, cfg["abi_tags"][0], plat), "demo_pkg-1.0-%s-none-%s.whl" % (cp, plat)],
             ["demo_pkg-1.0-py%d-none-%s.whl" % (M, plat), "demo_pkg-1.0-py2.py3-none-%s.whl" % plat]]
    g = cfg["glibc"]
    if g is not None and tuple(g) >= (2, 5) and arch in ("x86_64", "i686"):
        pairs.append(["demo_pkg-1.0-py%d-none-manylinux1_%s.whl" % (M, arch), "demo_pkg-1.0-py%d-none-manylinux_2_5_%s.whl" % (M, arch)])
        if tuple(g) >= (2, 12):
            pairs.append(["demo_pkg-1.0-%s-none-manylinux2010_%s.whl" % (cp, arch), "demo_pkg-1.0-%s-none-manylinux_2_12_%s.whl" % (cp, arch)])
    if g is not None and tuple(g) >= (2, 17):
        pairs.append(["demo_pkg-1.0-py%d-none-manylinux2014_%s.whl" % (M, arch), "demo_pkg-1.0-py%d-none-manylinux_2_17_%s.whl" % (M, arch)])
    others = ["demo_pkg-1.0-%s-%s-%s.whl" % (cp, cfg["abi_tags"][-1], plat), "demo_pkg-1.0.tar.gz", "demo_pkg-1.0.zip",
              "demo_pkg-1.0-1-py%d-none-any.whl" % M, "demo_pkg-1.0-py%d-none-any.%s.whl" % (M, plat)]
    files: List[str] = []
    for pr in rng.sample(pairs, rng.choice([1, 1, 2, len(pairs)])):
        files += pr
    files += rng.sample(others, rng.choice([0, 1, 2, len(others)]))
    files = list(dict.fromkeys(files))
    rng.shuffle(files)
    sh = files[:]
    rng.shuffle(sh)
    return {"kind": "rank", "cfg": cfg, "files": files, "shuffled": sh, "perms": 40, "through_repo": True}


def platform_rank_case(rng, cfg, tags, legacy_only: bool) -> Optional[Dict[str, Any]]:
    """wheels of one version that differ ONLY in their platform tag, each tag taken from packaging's supported list
    for the configuration (legacy_only: the manylinux1/2010/2014 alias names), plus the sdist: the ranking must not
    depend on the listing order.  Tags of equal specificity (manylinux2014 == manylinux_2_17) are not mixed."""
    plats = sorted({p for (_, _, p) in tags if p != "any"})
    if legacy_only:
        plats = [p for p in plats if p.startswith(("manylinux1_", "manylinux2010_", "manylinux2014_"))]
    pyabi = [(py, abi) for (py, abi, p) in tags if p != "any"]
    if len(plats) < 2 or not pyabi:
        return None
    py, abi = rng.choice(pyabi)
    files, sigs = [], set()
    for p in rng.sample(plats, min(len(plats), rng.choice([2, 3, 3, 4]))):
        if _known_defect(cfg, py, abi, p):
            continue
        fn = "demo_pkg-1.0-{}-{}-{}.whl".format(py, abi, p)
        sig = _spec_score(cfg, py, abi, p, fn)
        if sig is None or sig in sigs:
            continue
        sigs.add(sig)
        files.append(fn)
    if len(files) < 2:
        return None
    if rng.random() < 0.7:
        files.insert(rng.randrange(len(files) + 1), "demo_pkg-1.0.tar.gz")
    sh = files[:]
    rng.shuffle(sh)
    return {"kind": "rank", "cfg": cfg, "files": files, "shuffled": sh}


def oracle_cases(rng, R, n: int):
    """fresh inputs inside the guard of the _partial theorems (known defects are not generated)"""
    for _ in range(n):
        raw = gen_raw(rng)
        if raw["glibc"] is not None and raw["glibc"][0] != 2:
            raw["glibc"] = [2, raw["glibc"][1]]
        cfg = impl_cfg_of(R, raw)
        r = rng.random()
        if r > 0.96:
            yield equal_score_case(rng, cfg)
            continue
        if r < 0.02:
            plats = rng.sample(["any", "linux_" + cfg["arch"], "manylinux_2_17_" + cfg["arch"], "manylinux2014_" + cfg["arch"], "win_amd64"], rng.choice([2, 3]))
            if "any" not in plats:
                plats[0] = "any"
            rng.shuffle(plats)
            yield {"kind": "setorder", "cfg": cfg, "plats": plats, "file": "demo_pkg-1.0-py{}-none-{}.whl".format(cfg["major"], ".".join(plats))}
            continue
        if r < 0.03:
            M = cfg["major"]
            mk = lambda: "{}{}{}".format(rng.choice(["cp", "py"]), M, rng.choice([0, 1, 9, 10, 15, 16, 17, 20, 31, 32, 100, 255, 256, 4095, rng.randint(0, 40)]))
            a, b = mk(), mk()
            if a != b:
                yield {"kind": "pyscore", "cfg": cfg, "tags": [a, b]}
            continue
        if r < 0.04:
            legacy, modern = rng.choice([("manylinux2014", "2_17")] + ([("manylinux1", "2_5"), ("manylinux2010", "2_12")] if cfg["arch"] in ("x86_64", "i686") else []))
            py = rng.choice(["py%d" % cfg["major"], "cp%d%d" % (cfg["major"], cfg["minor"])])
            yield {"kind": "twin", "cfg": cfg, "files": ["demo_pkg-1.0-{}-none-{}_{}.whl".format(py, legacy, cfg["arch"]),
                                                        "demo_pkg-1.0-{}-none-manylinux_{}_{}.whl".format(py, modern, cfg["arch"])]}
            continue
        if r < 0.12:
            c = platform_rank_case(rng, cfg, packaging_tags(raw), legacy_only=rng.random() < 0.5)
            if c is not None:
                yield c
            continue
        if r < 0.4:
            tags = packaging_tags(raw)
            py, abi, plat = rng.choice(tags)
            pyf = ".".join(rng.sample([py, gen_py_tag(rng, cfg)], 2)) if rng.random() < 0.4 else py
            platf = ".".join(rng.sample([plat, gen_plat_tag(rng, cfg)], 2)) if rng.random() < 0.4 else plat
            abif = abi
            if rng.random() < 0.35:   # PEP 425 compressed ABI set containing the supported ABI tag
                other = rng.choice(["abi3", "none", "cp%d%d" % (cfg["major"], cfg["minor"] + 1), "cp%d%d" % (cfg["major"], cfg["minor"]),
                                    "cp%d%dm" % (cfg["major"], cfg["minor"]), "abi4", "pypy39_pp73"])
                if other != abi:
                    abif = ".".join(rng.sample([abi, other], 2))
            if any(ch in pyf + platf for ch in "-/\\\n ") or _known_defect(cfg, pyf, abif, platf):
                continue
            yield {"kind": "supported", "cfg": cfg, "tag": [py, abi, plat],
                   "file": _with_build(rng, "x-1.0-{}-{}-{}.whl".format(pyf, abif, platf))}
        elif r < 0.75:
            why, fn = _gen_foreign(rng, cfg)
            yield {"kind": "foreign", "cfg": cfg, "why": why, "file": _with_build(rng, fn)}
        else:
            tags = packaging_tags(raw)
            files, sigs = [], set()
            for (py, abi, plat) in rng.sample(tags, min(len(tags), rng.choice([2, 3, 4, 5]))):
                if _known_defect(cfg, py, abi, plat):
                    continue
                build = rng.choice(["", "", "1", "2b"])
                fn = "x-1.0{}-{}-{}-{}.whl".format("-" + build if build else "", py, abi, plat)
                sig = (build, _spec_score(cfg, py, abi, plat, fn))
                if sig[1] is None or sig in sigs:
                    continue    # wheels of equal specificity may tie (rank_tie finding): not part of the statement's guard
                sigs.add(sig)
                files.append(fn)
            if rng.random() < 0.8:
                files.insert(rng.randrange(len(files) + 1), "x-1.0" + rng.choice([".tar.gz", ".zip"]))
            if len(files) < 2:
                continue
            sh = files[:]
            rng.shuffle(sh)
            yield {"kind": "rank", "cfg": cfg, "files": files, "shuffled": sh}


def _shrink(R, s: Dict[str, Any]) -> Dict[str, Any]:
    """drop files of a failing ranking input while it keeps failing"""
    if s.get("kind") != "rank":
        return s
    files = list(s["files"])
    changed = True
    while changed and len(files) > 2:
        changed = False
        for i in range(len(files)):
            t = files[:i] + files[i + 1:]
            cand = dict(s, files=t, shuffled=list(reversed(t)))
            try:
                if len(t) >= 2 and oracle_case(R, cand):
                    files, changed = t, True
                    break
            except Exception:
                pass
    out = dict(s, files=files, shuffled=list(reversed(files)))
    return out if oracle_case(R, out) else s


def search(ctx: Ctx) -> Optional[Dict[str, Any]]:
    found = _search(ctx)
    if found is not None:
        enc440, R = _imports()
        found["input"] = _shrink(R, found["input"])
        found["why"] = oracle_case(R, found["input"]) or found["why"]
    return found


def _search(ctx: Ctx) -> Optional[Dict[str, Any]]:
    enc440, R = _imports()
    rng = ctx.rng
    # 1. the disagreeing cases, re-read as property inputs where they have that shape
    suspects: List[Dict[str, Any]] = []
    for mm in ctx.mismatches:
        case = mm.get("case")
        c = case.get("case") if isinstance(case, dict) else None
        if mm["where"] in ("check-usability", "tag-score", "file-usability") and c and isinstance(c[1], str) and c[0] not in ("running", "corpus"):
            cfg = json.loads(c[0])
            fn = c[1]
            rd = pep427(fn)
            if rd is not None and "/" not in fn:
                suspects += _suspects_from_wheel(R, cfg, fn, rd[3], rd[4], rd[5])
        if mm["where"] in ("sort-candidates", "file-sort") and c:
            if c[0] == "corpus":         # ("corpus", witness id, files): the witness file carries the configuration
                w = [x for x in load_corpus() if x.get("id") == c[1]]
                cfg = w[0]["cfg"] if w else None
                files = list(c[2])
            else:
                try:
                    cfg = json.loads(c[0])
                except (TypeError, ValueError):
                    cfg = None
                files = [f for f in c[1] if isinstance(f, str)]
            if cfg is not None and len(files) >= 2:
                suspects.append({"kind": "rank", "cfg": cfg, "files": files, "shuffled": list(reversed(files)), "guarded": True,
                                 "perms": 24, "through_repo": True})
    for s in suspects:
        why = _guarded_oracle(R, s)
        if why:
            return {"input": s, "why": why}
    # 2. running interpreter: every supported tag
    import packaging.tags as PT
    rr = running_raw(R)
    rcfg = impl_cfg_of(R, rr)
    for t in PT.sys_tags():
        for build in ("", "-1", "-2b"):
            s = {"kind": "supported", "cfg": rcfg, "tag": [t.interpreter, t.abi, t.platform], "unpatched": True,
                 "file": "demo_pkg-1.0{}-{}-{}-{}.whl".format(build, t.interpreter, t.abi, t.platform)}
            why = oracle_case(R, s)
            if why:
                return {"input": s, "why": why}
    g = reference_glibc()
    if g is not None:
        for newer in ((g[0], g[1] + 1), (g[0], g[1] + 9), (g[0] + 1, 0)):
            s = {"kind": "foreign", "cfg": rcfg, "why": "glibc (system has {}.{})".format(*g), "unpatched": True,
                 "file": "x-1.0-py{}-none-manylinux_{}_{}_{}.whl".format(rr["major"], newer[0], newer[1], rr["arch"])}
            why = oracle_case(R, s)
            if why:
                return {"input": s, "why": why}
    # 2b. running interpreter: wheels differing only in the platform tag (legacy alias names first)
    run_tags = [(t.interpreter, t.abi, t.platform) for t in PT.sys_tags()]
    for legacy_only in (True, True, True, False, False, False, False, False):
        s = platform_rank_case(rng, rcfg, run_tags, legacy_only)
        if s is not None:
            s["unpatched"] = True
            why = oracle_case(R, s)
            if why:
                return {"input": s, "why": why}
    # 2c. running interpreter: equally specific wheels, every listing order, through sort_candidates and get_dist
    for _ in range(6):
        s = equal_score_case(rng, rcfg)
        s["unpatched"] = True
        why = oracle_case(R, s)
        if why:
            return {"input": s, "why": why}
    # 3. fresh inputs
    for s in oracle_cases(rng, R, ctx.n(6000, 60000)):
        why = oracle_case(R, s)
        if why:
            return {"input": s, "why": why}
    return None


def _suspects_from_wheel(R, cfg, fn, pyf, abif, platf) -> List[Dict[str, Any]]:
    """a disagreeing wheel is a property input if (a) it carries a supported tag of a coherent configuration, or
    (b) it is built only for a foreign target"""
    out: List[Dict[str, Any]] = []
    if _known_defect(cfg, pyf, abif, platf):
        return out
    for raw in _coherent_raws(R, cfg):
        sup = set(packaging_tags(raw))
        hit = [(p, a, q) for p in pyf.split(".") for a in abif.split(".") for q in platf.split(".") if (p, a, q) in sup]
        if hit:
            out.append({"kind": "supported", "cfg": cfg, "tag": list(hit[0]), "file": fn})
        else:
            M = cfg["major"]
            pys = pyf.split(".")
            simple = all(len(p) >= 3 and p[:2].isalpha() and p[2:].isdigit() and p.isascii() for p in pys)
            if simple and all(int(p[2]) != M for p in pys):
                out.append({"kind": "foreign", "cfg": cfg, "why": "major", "file": fn})
            if simple and all(p[:2] not in ("py", cfg["impl"]) for p in pys):
                out.append({"kind": "foreign", "cfg": cfg, "why": "impl", "file": fn})
            if all(a != "none" and a not in ("abi%d" % M, cfg["abi_tags"][-1]) and a[:2] in ("cp", "ab", "py", "pp") for a in abif.split(".")):
                out.append({"kind": "foreign", "cfg": cfg, "why": "abi", "file": fn})
            plats = platf.split(".")
            if all(p.startswith(("win", "macosx_", "musllinux_")) for p in plats):
                out.append({"kind": "foreign", "cfg": cfg, "why": "os", "file": fn})
    return out


def _coherent_raws(R, cfg) -> List[Dict[str, Any]]:
    out = []
    if cfg["glibc"] is not None and cfg["glibc"][0] != 2:
        return out
    for pm in (True, False):
        for u4 in (True, False):
            raw = {"major": cfg["major"], "minor": cfg["minor"], "pymalloc": pm, "ucs4": u4, "glibc": cfg["glibc"], "arch": cfg["arch"]}
            try:
                if impl_cfg_of(R, raw) == cfg:
                    out.append(raw)
                    return out
            except Exception:
                pass
    return out


def _guarded_oracle(R, s: Dict[str, Any]) -> Optional[str]:
    if s["kind"] == "rank" and s.get("guarded"):
        # order dependence only counts among wheels of pairwise different specificity
        cfg = s["cfg"]
        sigs = []
        for f in s["files"]:
            if f.endswith(".whl") and f.count("-") in (4, 5):
                parts = f[:-4].split("-")
                if _known_defect(cfg, parts[-3], parts[-2], parts[-1]):
                    return None
                sig = (parts[1], parts[2] if len(parts) == 6 else "", _spec_score(cfg, parts[-3], parts[-2], parts[-1], f))
                if sig[2] is None:
                    return None
                sigs.append(sig)
            elif f.endswith(".whl"):
                return None
            else:
                sigs.append(("sdist", f.rsplit("-", 1)[-1]))
        if len(set(sigs)) != len(sigs):
            return None
        if len({g[0] for g in sigs if g[0] != "sdist"}) > 1:
            return None     # more than one version: outside the statement
    try:
        return oracle_case(R, s)
    except Exception:
        return None


def replay(ctx: Ctx, payload: Dict[str, Any]) -> bool:
    enc440, R = _imports()
    fi = payload.get("failing_input")
    if not fi:
        return False
    return oracle_case(R, fi["input"]) is not None


LEVEL_TEXT = ("Theorems proved in Coq over a Gallina model of repository.py's tag predicates, manylinux policy, tag_score, "
              "sort key, sort_candidates, check_usability and wheel-file-name reading: every tag of the PEP 425/600 supported-tag "
              "list of every CPython 2.x/3.x minor, glibc 2.x version and machine is eligible whenever the wheel's compressed tag "
              "sets contain it (full statement; the former exclusions - compressed ABI field, legacy alias names off x86 - were "
              "repaired in /repo and are positive theorems now); wheels built only for another major, implementation, ABI "
              "generation, operating system, machine or a newer manylinux are rejected for every configuration; a wheel's key is "
              "above the same version's sdist and it is sorted before it; for every listing order the ranking shows the same "
              "sequence of keys and file names, and the same candidates when file names differ (full statement; the former "
              "tie / set-order / minor-16 witnesses are positive examples now).  The model is tied to /repo by generated "
              "constants (T1) and differential execution under patched interpreter configurations (T2); sys_tags is validated "
              "against packaging.")
LEVEL_NOTE = ("Trusted: Coq kernel, extraction, OCaml driver, T1 translator, T2 harness; packaging's tag generators are the "
              "reference for the specification; CPython int()/re/sorted are modelled and sampled; ASCII tags only; no "
              "_manylinux override; non-debug non-free-threaded CPython on glibc Linux.")
TECHNIQUE = ("Rocq proof over Gallina model (decimal round trips, regex-as-parser lemmas, lexicographic order algebra, "
             "uniqueness of strictly sorted permutations) + extraction-based differential correspondence under patched configurations")

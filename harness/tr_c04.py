"""T1 readers for C04 (fail-closed): the order in which cmdline.build_repo assembles the
repository stack, the shape of MultiRepository.get_dist, what PooledCandidateMultiRepository
overrides and how it tags candidates, and the allow_prerelease the solution / source
repositories are constructed with.  Output: coq/gen/C04Consts.v."""
from __future__ import annotations

import ast
from typing import List, Tuple

import translate as T
from translate import TranslateError

CMDLINE = "req_compile/cmdline.py"
MULTI = "req_compile/repos/multi.py"
SOLUTION = "req_compile/repos/solution.py"
SOURCE = "req_compile/repos/source.py"


def _src(n: ast.AST) -> str:
    return ast.unparse(n)


def _calls_on(fn: ast.FunctionDef, var: str) -> List[Tuple[str, ast.Call, List[str]]]:
    """(method, call, guards) for every `var.extend(...)` / `var.append(...)` statement of fn in
    source order; guards = the tests of the enclosing ifs ('not(' + test + ')' for else branches)."""
    out: List[Tuple[str, ast.Call, List[str]]] = []

    def walk(stmts: List[ast.stmt], guards: List[str]) -> None:
        for st in stmts:
            if isinstance(st, ast.If):
                walk(st.body, guards + [_src(st.test)])
                walk(st.orelse, guards + ["not(" + _src(st.test) + ")"])
            elif isinstance(st, ast.Expr) and isinstance(st.value, ast.Call) and isinstance(st.value.func, ast.Attribute) \
                    and isinstance(st.value.func.value, ast.Name) and st.value.func.value.id == var:
                if st.value.func.attr not in ("extend", "append"):
                    raise TranslateError(f"build_repo: {var}.{st.value.func.attr} not understood")
                out.append((st.value.func.attr, st.value, guards))
            elif isinstance(st, (ast.For, ast.While, ast.With, ast.Try)):
                for n in ast.walk(st):
                    if isinstance(n, ast.Name) and n.id == var:
                        raise TranslateError(f"build_repo: {var} used inside a loop/with/try")
    walk(fn.body, [])
    return out


def _ctor(call: ast.Call, method: str) -> Tuple[str, ast.Call]:
    """class name constructed by the argument of extend (generator) / append (call)"""
    if len(call.args) != 1 or call.keywords:
        raise TranslateError("build_repo: unexpected extend/append arguments")
    a = call.args[0]
    if method == "extend":
        if not (isinstance(a, ast.GeneratorExp) and len(a.generators) == 1 and not a.generators[0].ifs
                and isinstance(a.elt, ast.Call) and isinstance(a.elt.func, ast.Name)):
            raise TranslateError("build_repo: extend argument is not a plain generator of constructor calls")
        return a.elt.func.id + " for " + _src(a.generators[0].target) + " in " + _src(a.generators[0].iter), a.elt
    if isinstance(a, ast.Call) and isinstance(a.func, ast.Name):
        return a.func.id, a
    if _src(a) == "pooled_repos[0]":
        return "pooled_repos[0]", None  # type: ignore
    raise TranslateError("build_repo: append argument not understood: " + _src(a))



def _norm_text(src: str) -> str:
    """an expected shape, normalised like the source it is compared with (no annotations / docstrings / log lines)"""
    return "\n".join(_src(st) for st in T.parse_src(src).body)


def _is_getlogger_log(st: ast.AST) -> bool:
    """`logging.getLogger("name").debug(...)` with effect-free arguments (translate.normalize only knows named loggers)"""
    if not (isinstance(st, ast.Expr) and isinstance(st.value, ast.Call) and isinstance(st.value.func, ast.Attribute)):
        return False
    f = st.value.func
    if f.attr not in T.LOG_METHODS or not (isinstance(f.value, ast.Call) and _src(f.value.func) == "logging.getLogger"):
        return False
    if not all(isinstance(a, ast.Constant) for a in f.value.args) or f.value.keywords:
        return False
    return all(T._pure(a) for a in st.value.args) and all(T._pure(k.value) for k in st.value.keywords)


def _extra_optional_params(fn: ast.FunctionDef, known: List[str]) -> List[str]:
    """parameters are read by name: the modelled ones must come first and unchanged; further parameters are tolerated
    if they have a default and the function only hands them on (`f(..., p=p)`)"""
    pos = [a.arg for a in fn.args.args]
    if pos[:len(known)] != known or fn.args.vararg or fn.args.kwarg or fn.args.posonlyargs:
        raise TranslateError(f"{fn.name}: parameters changed: {pos}")
    extra = pos[len(known):]
    with_default = set(pos[len(pos) - len(fn.args.defaults):]) if fn.args.defaults else set()
    for a, d in zip(fn.args.kwonlyargs, fn.args.kw_defaults):
        extra.append(a.arg)
        if d is not None:
            with_default.add(a.arg)
    if any(e not in with_default for e in extra):
        raise TranslateError(f"{fn.name}: new parameter without a default: {extra}")
    if extra:
        for n in ast.walk(fn):
            if isinstance(n, ast.Call):
                n.keywords = [k for k in n.keywords if not (k.arg in extra and isinstance(k.value, ast.Name) and k.value.id == k.arg)]
        for st in fn.body:
            for n in ast.walk(st):
                if isinstance(n, ast.Name) and n.id in extra:
                    raise TranslateError(f"{fn.name}: new parameter {n.id} is used by the modelled statements")
    return extra


BUILD_REPO_PARAMS = ["solutions", "upgrade_packages", "sources", "excluded_sources", "find_links", "index_urls", "wheeldir",
                     "extra_index_urls", "no_index", "allow_prerelease"]
# the repositories are wrapped in a MultiRepository only when there is more than one
BUILD_REPO_TAILS = [
    "if len(repos) > 1:\n    repo = MultiRepository(*repos)\nelse:\n    repo = repos[0]\nreturn repo",
    "if len(repos) == 1:\n    return repos[0]\nreturn MultiRepository(*repos)",
    "if len(repos) > 1:\n    return MultiRepository(*repos)\nreturn repos[0]",
]

def read_build_repo() -> Tuple[List[str], List[str]]:
    fn = T.func(T.parse(CMDLINE), "build_repo")
    _extra_optional_params(fn, BUILD_REPO_PARAMS)
    pooled: List[str] = []
    for method, call, guards in _calls_on(fn, "pooled_repos"):
        what, c = _ctor(call, method)
        kw = {k.arg: _src(k.value) for k in c.keywords} if c is not None else {}
        if what == "FindLinksRepository for find_link in find_links" and guards == ["find_links"]:
            if kw.get("allow_prerelease") != "allow_prerelease":
                raise TranslateError("build_repo: FindLinksRepository allow_prerelease changed")
            pooled.append("PFindLinks")
        elif what == "PyPIRepository" and guards == ["not no_index", "not index_urls"] and method == "append":
            if kw.get("index_type") != "IndexType.DEFAULT" or kw.get("allow_prerelease") != "allow_prerelease":
                raise TranslateError("build_repo: default index construction changed")
            pooled.append("PIndexDefault")
        elif what == "PyPIRepository for index_url in index_urls" and guards == ["not no_index", "not(not index_urls)"]:
            if kw.get("index_type") != "IndexType.INDEX_URL" or kw.get("allow_prerelease") != "allow_prerelease":
                raise TranslateError("build_repo: index-url construction changed")
            pooled.append("PIndexUrls")
        elif what == "PyPIRepository for index_url in extra_index_urls" and guards == ["not no_index", "extra_index_urls is not None"]:
            if kw.get("index_type") != "IndexType.EXTRA_INDEX_URL" or kw.get("allow_prerelease") != "allow_prerelease":
                raise TranslateError("build_repo: extra-index construction changed")
            pooled.append("PExtra")
        else:
            raise TranslateError(f"build_repo: unrecognised pooled_repos statement {what} under {guards}")
    if sorted(pooled) != sorted(["PFindLinks", "PIndexDefault", "PIndexUrls", "PExtra"]):
        raise TranslateError(f"build_repo: pooled parts changed: {pooled}")
    stack: List[str] = []
    calls = _calls_on(fn, "repos")
    i = 0
    while i < len(calls):
        method, call, guards = calls[i]
        what, c = _ctor(call, method)
        if what == "SolutionRepository for solution in solutions" and guards == ["solutions"]:
            kw = {k.arg: _src(k.value) for k in c.keywords}
            if [_src(a) for a in c.args] != ["solution"] or kw != {"excluded_packages": "upgrade_packages"}:
                raise TranslateError("build_repo: SolutionRepository construction changed")
            stack.append("SSolutions")
        elif what == "SourceRepository for source in sources" and guards == ["sources"]:
            kw = {k.arg: _src(k.value) for k in c.keywords}
            if [_src(a) for a in c.args] != ["source"] or kw != {"excluded_paths": "excluded_sources"}:
                raise TranslateError("build_repo: SourceRepository construction changed")
            stack.append("SSources")
        elif what == "PooledCandidateMultiRepository" and guards == ["len(pooled_repos) > 1"]:
            if [_src(a) for a in c.args] != ["*pooled_repos"] or c.keywords:
                raise TranslateError("build_repo: pooled group construction changed")
            if i + 1 >= len(calls):
                raise TranslateError("build_repo: single pooled repository case missing")
            m2, call2, g2 = calls[i + 1]
            w2, _ = _ctor(call2, m2)
            if not (w2 == "pooled_repos[0]" and g2 == ["not(len(pooled_repos) > 1)", "len(pooled_repos) == 1"]):
                raise TranslateError("build_repo: single pooled repository case changed")
            i += 1
            stack.append("SPooled")
        else:
            raise TranslateError(f"build_repo: unrecognised repos statement {what} under {guards}")
        i += 1
    if sorted(stack) != sorted(["SSolutions", "SSources", "SPooled"]):
        raise TranslateError(f"build_repo: stack parts changed: {stack}")
    # pooled_repos must be complete before it is appended: all its statements precede the repos ones
    last_pooled = max(c.lineno for _, c, _ in _calls_on(fn, "pooled_repos"))
    first_repos = min(c.lineno for _, c, _ in calls)
    if last_pooled > first_repos:
        raise TranslateError("build_repo: pooled_repos modified after repos is being assembled")
    # what follows `if not repos: raise ValueError(...)` (found by content, not by position; log lines ignored)
    guard = [i for i, st in enumerate(fn.body) if isinstance(st, ast.If) and _src(st.test) == "not repos"
             and len(st.body) == 1 and isinstance(st.body[0], ast.Raise) and _src(st.body[0].exc).startswith("ValueError(") and not st.orelse]
    if len(guard) != 1:
        raise TranslateError("build_repo: `if not repos: raise ValueError` not found")
    tail = "\n".join(_src(st) for st in fn.body[guard[0] + 1:] if not _is_getlogger_log(st))
    if tail not in [_norm_text(t) for t in BUILD_REPO_TAILS]:
        raise TranslateError("build_repo: final MultiRepository construction changed")
    return pooled, stack


MULTI_GET_DIST = """last_ex = NoCandidateException(req)
for repo in self.repositories:
    try:
        return repo.get_dist(req, allow_source_dist=allow_source_dist, max_downgrade=max_downgrade)
    except NoCandidateException as ex:
        last_ex = ex
raise last_ex"""

POOLED_GET_CANDIDATES = """candidates: List[Candidate] = []
for idx, repo in enumerate(self.repositories):
    try:
        repo_candidates = repo.get_candidates(req)
        for candidate in repo_candidates:
            candidate.source = repo
            candidate.extra_sort_info = (idx, candidate.extra_sort_info)
        candidates.extend(repo_candidates)
    except NoCandidateException:
        pass
return candidates"""


def _body_text(fn: ast.FunctionDef) -> str:
    body = [s for s in fn.body if not (isinstance(s, ast.Expr) and isinstance(s.value, ast.Constant))]
    return "\n".join(_src(s) for s in body)


def read_multi() -> None:
    mod = T.parse(MULTI)
    multi = T.klass(mod, "MultiRepository")
    gd = [n for n in multi.body if isinstance(n, ast.FunctionDef) and n.name == "get_dist"]
    if len(gd) != 1:
        raise TranslateError("MultiRepository.get_dist not found")
    _extra_optional_params(gd[0], ["self", "req", "allow_source_dist", "max_downgrade"])
    if _body_text(gd[0]) != _norm_text(MULTI_GET_DIST):
        raise TranslateError("MultiRepository.get_dist changed")
    pooled = T.klass(mod, "PooledCandidateMultiRepository")
    if [_src(b) for b in pooled.bases] != ["MultiRepository"]:
        raise TranslateError("PooledCandidateMultiRepository bases changed")
    for n in pooled.body:
        if not (isinstance(n, ast.FunctionDef) or (isinstance(n, ast.Expr) and isinstance(n.value, ast.Constant))):
            raise TranslateError("PooledCandidateMultiRepository: unexpected class-level statement " + _src(n)[:60])
    methods = sorted(n.name for n in pooled.body if isinstance(n, ast.FunctionDef))
    if methods != ["get_candidates", "resolve_candidate"]:
        raise TranslateError(f"PooledCandidateMultiRepository methods changed: {methods}")
    gc = [n for n in pooled.body if isinstance(n, ast.FunctionDef) and n.name == "get_candidates"][0]
    if _body_text(gc) != _norm_text(POOLED_GET_CANDIDATES):
        raise TranslateError("PooledCandidateMultiRepository.get_candidates changed")


def ctor_allow_pre(rel: str, cls: str, logger: str) -> bool:
    c = T.klass(T.parse(rel), cls)
    init = [n for n in c.body if isinstance(n, ast.FunctionDef) and n.name == "__init__"]
    if len(init) != 1:
        raise TranslateError(f"{cls}.__init__ not found")
    found = []
    for n in ast.walk(init[0]):
        if isinstance(n, ast.Call) and isinstance(n.func, ast.Attribute) and n.func.attr == "__init__" \
                and _src(n.func.value).startswith("super("):
            found.append(n)
    if len(found) != 1:
        raise TranslateError(f"{cls}.__init__: expected one super().__init__ call")
    call = found[0]
    if [T.literal(a) for a in call.args] != [logger]:
        raise TranslateError(f"{cls}.__init__: logger name changed")
    kw = {k.arg: k.value for k in call.keywords}
    if set(kw) != {"allow_prerelease"}:
        raise TranslateError(f"{cls}.__init__: keywords changed")
    v = T.literal(kw["allow_prerelease"])
    if not isinstance(v, bool):
        raise TranslateError(f"{cls}.__init__: allow_prerelease is not a bool literal")
    return v


MERGE_BLOCK = """all_{0} = OrderedDict(zip(args.{0}, repeat(None)))
for url in req_args.{0}:
    all_{0}[url] = None
args.{0} = list(all_{0})"""

BUILD_REPO_CALL = ("build_repo(args.solutions, args.upgrade_packages, args.sources, args.excluded_sources, args.find_links, "
                   "args.index_urls, wheeldir, extra_index_urls=args.extra_index_urls, no_index=args.no_index, "
                   "allow_prerelease=args.allow_prerelease)")


def read_compile_main_merge() -> None:
    """compile_main: under `if extra_parameters:` the index / extra-index URLs of the requirements files are
    merged behind the command-line ones with an OrderedDict (first occurrence wins), nothing else assigns
    args.index_urls / args.extra_index_urls, and build_repo receives exactly those attributes."""
    fn = T.func(T.parse(CMDLINE), "compile_main")
    guards = [n for n in ast.walk(fn) if isinstance(n, ast.If) and _src(n.test) == "extra_parameters"]
    if len(guards) != 1:
        raise TranslateError("compile_main: `if extra_parameters:` block not found")
    body = guards[0].body
    texts = [_src(st) for st in body]
    for attr in ("index_urls", "extra_index_urls"):
        want = MERGE_BLOCK.format(attr).split("\n")
        want_stmts = [want[0], want[1] + "\n" + want[2], want[3]]
        idx = [i for i, t in enumerate(texts) if t == want_stmts[0]]
        if len(idx) != 1 or texts[idx[0]:idx[0] + 3] != want_stmts:
            raise TranslateError(f"compile_main: order-preserving merge of {attr} not found")
    # no other assignment to the two attributes anywhere in compile_main
    assigned = []
    for n in ast.walk(fn):
        targets = []
        if isinstance(n, ast.Assign):
            targets = n.targets
        elif isinstance(n, (ast.AugAssign, ast.AnnAssign)):
            targets = [n.target]
        for t in targets:
            if _src(t) in ("args.index_urls", "args.extra_index_urls"):
                assigned.append(_src(n))
    if sorted(assigned) != sorted(["args.index_urls = list(all_index_urls)", "args.extra_index_urls = list(all_extra_index_urls)"]):
        raise TranslateError(f"compile_main: args.index_urls / args.extra_index_urls assigned elsewhere: {assigned}")
    for n in ast.walk(fn):
        if isinstance(n, ast.Call) and isinstance(n.func, ast.Attribute) and _src(n.func.value) in ("args.index_urls", "args.extra_index_urls"):
            raise TranslateError("compile_main: in-place mutation of the index URL lists: " + _src(n))
    calls = [n for n in ast.walk(fn) if isinstance(n, ast.Call) and _src(n.func) == "build_repo"]
    if len(calls) != 1:
        raise TranslateError("compile_main: build_repo call not found")
    want_call = T.parse_src(BUILD_REPO_CALL).body[0].value
    extra = _extra_optional_params(T.func(T.parse(CMDLINE), "build_repo"), BUILD_REPO_PARAMS)
    got_kw = {k.arg: _src(k.value) for k in calls[0].keywords if k.arg not in extra}
    if ([_src(a) for a in calls[0].args] != [_src(a) for a in want_call.args]
            or got_kw != {k.arg: _src(k.value) for k in want_call.keywords} or any(k.arg is None for k in calls[0].keywords)):
        raise TranslateError("compile_main: build_repo call changed")
    if calls[0].lineno < guards[0].lineno:
        raise TranslateError("compile_main: build_repo is called before the merge")


def gen_c04_consts() -> str:
    read_compile_main_merge()
    pooled, stack = read_build_repo()
    read_multi()
    sol = ctor_allow_pre(SOLUTION, "SolutionRepository", "solution")
    src = ctor_allow_pre(SOURCE, "SourceRepository", "source")
    b = T.HEADER
    b += "(* C04: read from req_compile/cmdline.py build_repo, repos/multi.py, repos/solution.py, repos/source.py *)\n"
    b += "Inductive pooled_part := PFindLinks | PIndexDefault | PIndexUrls | PExtra.\n"
    b += "Inductive stack_part := SSolutions | SSources | SPooled.\n"
    b += "Definition pooled_order : list pooled_part := " + T.coq_list(pooled) + ".\n"
    b += "Definition stack_order : list stack_part := " + T.coq_list(stack) + ".\n"
    b += "Definition solution_allow_pre : bool := " + ("true" if sol else "false") + ".\n"
    b += "Definition source_allow_pre : bool := " + ("true" if src else "false") + ".\n"
    b += "(* MultiRepository.get_dist and PooledCandidateMultiRepository (no get_dist override; tag = (idx, extra_sort_info))\n   matched the transcribed text exactly *)\n"
    b += "Definition multi_first_answer_wins : bool := true.\n"
    b += "Definition pooled_overrides_get_dist : bool := false.\n"
    b += "(* compile_main: OrderedDict merge (command line first, then file order, first occurrence wins) under\n   `if extra_parameters:`; build_repo receives args.index_urls / args.extra_index_urls *)\n"
    b += "Definition index_merge_ordered : bool := true.\n"
    b += "Definition extra_merge_ordered : bool := true.\n"
    b += "Definition merge_guarded_by_file_options : bool := true.\n"
    b += "Definition build_repo_gets_merged_urls : bool := true.\n"
    return b

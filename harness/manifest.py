"""Generate /verif/MANIFEST.json from the property modules (./check --gen-manifest)."""
from __future__ import annotations

import json

import common


def generate() -> None:
    props = [json.loads(l) for l in (common.VERIF / "properties.jsonl").read_text().splitlines() if l.strip()]
    built = {p.stem.upper() for p in (common.VERIF / "harness").glob("c[0-9][0-9].py")}
    checks = []
    not_applicable = []
    pending_file = common.VERIF / "harness" / "not_claimed.json"
    pending = json.loads(pending_file.read_text()) if pending_file.exists() else {}
    for p in props:
        pid = p["id"]
        if pid in built and pid not in pending:
            mod = common.load_module(pid)
            checks.append({
                "property_id": pid,
                "quick_cmd": f"./check {pid} --tier quick",
                "thorough_cmd": f"./check {pid} --tier thorough",
                "evidence_file": f"/verif/evidence/{pid}.json",
                "replay_cmd_template": f"./check {pid} --replay {{path}}",
                "engine": "rocq-model+correspondence",
                "level_claimed": {
                    "category": "proof",
                    "text": getattr(mod, "LEVEL_TEXT", ""),
                    "design_ref": getattr(mod, "DESIGN_REF", "DESIGN.md section 4 " + pid),
                },
                "level_note": getattr(mod, "LEVEL_NOTE", "; ".join(getattr(mod, "TRUSTED_BASE", []))),
                "technique": getattr(mod, "TECHNIQUE", "Rocq (Coq 8.16) theorems on a Gallina model + differential correspondence of the extracted model against /repo"),
            })
        else:
            not_applicable.append({"property_id": pid, "reason": pending.get(pid, "check not built yet in this round (model and correspondence pending); not claimed")})
    manifest = {
        "version": 1,
        "setup_cmd": "./check --setup",
        "hooks": {
            "guard": "REQ_COMPILE_VERIF",
            "enable": "no in-source hooks: the harness observes /repo through its public API in-process (PYTHONPATH=/repo)",
            "baseline_off_cmd": "cd /repo && /venv/bin/python -m pytest -ra -q -p no:cacheprovider --timeout=900 --continue-on-collection-errors",
            "source_commits": [],
            "add_only": True,
        },
        "engines": [{
            "name": "rocq-model+correspondence",
            "path": "/verif/check",
            "serves_properties": [c["property_id"] for c in checks],
            "kind_free_text": "Coq 8.16.1 development under /verif/coq (models, proofs, property theorems with Print Assumptions), T1 translator of constants from /repo, extraction to OCaml and differential execution against /repo (T2), violation search with independent Python oracles",
        }],
        "checks": checks,
        "not_applicable": not_applicable,
        "notes": "See DESIGN.md. Every check is level 'proof': theorems about a Gallina model, tied to /repo by a translator and a correspondence check that run on every invocation.",
    }
    (common.VERIF / "MANIFEST.json").write_text(json.dumps(manifest, indent=1) + "\n")
    print(f"MANIFEST.json: {len(checks)} checks, {len(not_applicable)} not claimed")

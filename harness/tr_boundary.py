"""T1 for C09's error boundary: which exception classes the solution loader and the command line catch, and what
they turn them into.  Reads the try/except structure of
  req_compile/repos/solution.py  SolutionRepository._parse_single_line  (the try around self._add_sources)
  req_compile/cmdline.py         compile_main  (the try around build_repo, and the try enclosing it)
and emits gen/BoundaryConsts.v.  Fail-closed: any shape it does not recognise raises TranslateError."""
from __future__ import annotations

import ast
from typing import List, Optional, Tuple

import translate as T

HCLS = {"Exception": "HException", "BaseException": "HBaseException", "ValueError": "HValueError", "TypeError": "HTypeError",
        "IndexError": "HIndexError", "KeyError": "HKeyError", "LookupError": "HLookupError", "OSError": "HOSError",
        "IOError": "HOSError", "AttributeError": "HAttributeError", "AssertionError": "HAssertionError",
        "RepositoryInitializationError": "HRepoInit", "NoCandidateException": "HNoCandidate", "MetadataError": "HMetadata"}
ECLS = {"ValueError": "EValueError", "RepositoryInitializationError": "ERepoInit", "TypeError": "ETypeError",
        "IndexError": "EIndexError", "KeyError": "EKeyError", "OSError": "EOSError", "AssertionError": "EAssertionError"}


def _name(e: ast.expr) -> str:
    if isinstance(e, ast.Name):
        return e.id
    if isinstance(e, ast.Attribute):
        return e.attr
    raise T.TranslateError("unrecognised exception class expression: " + ast.dump(e)[:80])


def _handler_classes(h: ast.ExceptHandler) -> List[str]:
    if h.type is None:
        return ["HBaseException"]
    elts = h.type.elts if isinstance(h.type, ast.Tuple) else [h.type]
    out = []
    for e in elts:
        n = _name(e)
        if n not in HCLS:
            raise T.TranslateError(f"handler for unknown exception class {n}")
        out.append(HCLS[n])
    return out


def _calls(node: ast.AST, fname: str) -> bool:
    for n in ast.walk(node):
        if isinstance(n, ast.Call):
            f = n.func
            if (isinstance(f, ast.Name) and f.id == fname) or (isinstance(f, ast.Attribute) and f.attr == fname):
                return True
    return False


def _action(h: ast.ExceptHandler) -> str:
    """Reraise | (RaiseAs E) | (ExitWith n): decided by the LAST statement of the handler; earlier statements may only be
    expression statements (print / logger calls / the no-candidate display) or asserts about ex.results"""
    body = list(h.body)
    last = body[-1]
    for st in body[:-1]:
        if not isinstance(st, (ast.Expr, ast.Assert)):
            raise T.TranslateError("handler does more than report before leaving: " + ast.dump(st)[:80])
    if isinstance(last, ast.Raise):
        if last.exc is None:
            return "Reraise"
        exc = last.exc
        cls = _name(exc.func) if isinstance(exc, ast.Call) else _name(exc)
        if cls not in ECLS:
            raise T.TranslateError(f"handler raises unknown class {cls}")
        return f"(RaiseAs {ECLS[cls]})"
    if isinstance(last, ast.Expr) and isinstance(last.value, ast.Call):
        c = last.value
        if isinstance(c.func, ast.Attribute) and c.func.attr == "exit" and _name(c.func.value) == "sys" and len(c.args) == 1 \
                and isinstance(c.args[0], ast.Constant) and isinstance(c.args[0].value, int) and 0 <= c.args[0].value < 256:
            return f"(ExitWith {c.args[0].value})"
    raise T.TranslateError("handler neither re-raises nor exits: " + ast.dump(last)[:80])


def _handlers(t: ast.Try) -> str:
    rows = []
    for h in t.handlers:
        rows.append("([" + "; ".join(_handler_classes(h)) + "], " + _action(h) + ")")
    return "[" + "; ".join(rows) + "]"


def _find_try(fn: ast.AST, callee: str, innermost: bool) -> Tuple[ast.Try, Optional[ast.Try]]:
    """the innermost try whose BODY (not handlers) calls `callee`, and the try enclosing it (if any)"""
    found: List[Tuple[ast.Try, Optional[ast.Try]]] = []

    def visit(node: ast.AST, enclosing: Optional[ast.Try]) -> None:
        if isinstance(node, ast.Try):
            if any(_calls(st, callee) for st in node.body):
                inner_has = any(isinstance(x, ast.Try) and any(_calls(s2, callee) for s2 in x.body)
                                for st in node.body for x in ast.walk(st))
                if not inner_has:
                    found.append((node, enclosing))
            for st in node.body:
                visit(st, node)
            for h in node.handlers:
                visit(h, enclosing)
            for st in node.orelse + node.finalbody:
                visit(st, enclosing)
        else:
            for ch in ast.iter_child_nodes(node):
                visit(ch, enclosing)

    def walk(node: ast.AST, enclosing: Optional[ast.Try]) -> None:
        visit(node, enclosing)
    walk(fn, None)
    if len(found) != 1:
        raise T.TranslateError(f"expected exactly one try around {callee}, found {len(found)}")
    return found[0]


def gen_boundary_consts() -> str:
    sol = T.parse("req_compile/repos/solution.py")
    psl = None
    for n in ast.walk(T.klass(sol, "SolutionRepository")):
        if isinstance(n, ast.FunctionDef) and n.name == "_parse_single_line":
            psl = n
    if psl is None:
        raise T.TranslateError("SolutionRepository._parse_single_line not found")
    t_add, _ = _find_try(psl, "_add_sources", True)
    if t_add.orelse or t_add.finalbody:
        raise T.TranslateError("try around _add_sources has else/finally")
    cm = T.func(T.parse("req_compile/cmdline.py"), "compile_main")
    t_inner, t_outer = _find_try(cm, "build_repo", True)
    if t_outer is None:
        raise T.TranslateError("the try around build_repo is not enclosed by another try")
    if t_inner.orelse or t_inner.finalbody or t_outer.orelse:
        raise T.TranslateError("unexpected else/finally around build_repo")
    # the finally of the outer try may only clean the wheel directory (no return / raise / exit)
    for st in t_outer.finalbody:
        for n in ast.walk(st):
            if isinstance(n, (ast.Return, ast.Raise)) or (isinstance(n, ast.Attribute) and n.attr == "exit"):
                raise T.TranslateError("outer finally leaves the function")
    # perform_compile must be called in the body of the same outer try (its failures meet the same handlers)
    if not any(_calls(st, "perform_compile") for st in t_outer.body):
        raise T.TranslateError("perform_compile is not inside the outer try of compile_main")
    # what the repository constructors raise for an unusable argument (class of every `raise` in these functions)
    RAISED = {"ValueError": "EValueError", "RepositoryInitializationError": "ERepoInit", "TypeError": "ETypeError", "KeyError": "EKeyError",
              "IndexError": "EIndexError", "OSError": "EOSError", "IOError": "EOSError", "FileNotFoundError": "EOSError",
              "NotADirectoryError": "EOSError", "AssertionError": "EAssertionError", "NoCandidateException": "ENoCandidate",
              "MetadataError": "EMetadata"}

    def raised_in(fn: ast.AST, what: str) -> List[str]:
        out = []
        for n in ast.walk(fn):
            if isinstance(n, ast.Raise) and n.exc is not None:
                exc = n.exc
                cls = _name(exc.func) if isinstance(exc, ast.Call) else _name(exc)
                if cls not in RAISED:
                    raise T.TranslateError(f"{what} raises unknown class {cls}")
                out.append(RAISED[cls])
        if not out:
            raise T.TranslateError(f"{what}: no raise found (the unusable-argument test moved?)")
        return out

    def method(mod: ast.AST, cls: str, name: str) -> ast.AST:
        for n in ast.walk(T.klass(mod, cls)):
            if isinstance(n, ast.FunctionDef) and n.name == name:
                return n
        raise T.TranslateError(f"{cls}.{name} not found")

    src_init = raised_in(method(T.parse("req_compile/repos/source.py"), "SourceRepository", "__init__"), "SourceRepository.__init__")
    fl_links = raised_in(method(T.parse("req_compile/repos/findlinks.py"), "FindLinksRepository", "_find_all_links"), "FindLinksRepository._find_all_links")
    br = raised_in(T.func(T.parse("req_compile/cmdline.py"), "build_repo"), "build_repo")
    body = T.HEADER.replace("harness/translate.py", "harness/tr_boundary.py")
    body += "From RC Require Import model.BoundaryTypes.\n"
    body += f"Definition loader_add_sources_handlers : list (list hcls * action) := {_handlers(t_add)}.\n"
    body += f"Definition cmdline_build_repo_handlers : list (list hcls * action) := {_handlers(t_inner)}.\n"
    body += f"Definition cmdline_outer_handlers : list (list hcls * action) := {_handlers(t_outer)}.\n"
    body += "(* classes raised for an unusable argument by SourceRepository.__init__, FindLinksRepository._find_all_links, build_repo *)\n"
    body += "Definition repo_argument_failures : list exc := [" + "; ".join(src_init + fl_links + br) + "].\n"
    return body


if __name__ == "__main__":
    print(gen_boundary_consts())

"""Encoders between packaging / pkg_resources objects and the model's token protocol."""
from __future__ import annotations

import random
from typing import Any, List, Optional, Tuple

from packaging.specifiers import Specifier, SpecifierSet
from packaging.version import Version

from common import hx, unhx

OPS = {"==": "eq", "!=": "ne", "<": "lt", "<=": "le", ">": "gt", ">=": "ge", "~=": "cp"}
ROPS = {v: k for k, v in OPS.items()}


def ver_token(v: Version) -> str:
    pre = "-"
    if v.pre is not None:
        pre = {"a": "a", "b": "b", "rc": "c"}[v.pre[0]] + str(v.pre[1])
    loc = "-"
    if v.local is not None:
        segs = []
        for s in v.local.split("."):
            segs.append("n" + str(int(s)) if s.isdigit() else "s" + hx(s))
        loc = ".".join(segs)
    return "{}:{}:{}:{}:{}:{}".format(
        v.epoch, ".".join(str(x) for x in v.release), pre,
        "-" if v.post is None else v.post, "-" if v.dev is None else v.dev, loc)


def token_ver_str(t: str) -> str:
    """back to a PEP 440 string"""
    e, r, p, po, d, l = t.split(":")
    s = (e + "!" if e != "0" else "") + r
    if p != "-":
        s += {"a": "a", "b": "b", "c": "rc"}[p[0]] + p[1:]
    if po != "-":
        s += ".post" + po
    if d != "-":
        s += ".dev" + d
    if l != "-":
        s += "+" + ".".join(x[1:] if x[0] == "n" else unhx(x[1:]) for x in l.split("."))
    return s


def clause_tokens(sp: Specifier) -> Optional[List[str]]:
    if sp.operator not in OPS:
        return None
    vs = sp.version
    wild = vs.endswith(".*")
    if wild:
        vs = vs[:-2]
    return [OPS[sp.operator], "1" if wild else "0", ver_token(Version(vs))]


def canon_clause(toks: List[str]) -> Tuple[str, str, str]:
    """canonical identity of a clause the way Specifier.__eq__ sees it"""
    op, wild, vt = toks
    e, r, p, po, d, l = vt.split(":")
    if op != "cp" and wild == "0":
        parts = r.split(".")
        while len(parts) > 1 and parts[-1] == "0":
            parts.pop()
        r = ".".join(parts)
    return (op, wild, ":".join([e, r, p, po, d, l]))


def spec_tokens(spec: SpecifierSet) -> Optional[List[str]]:
    out: List[str] = []
    cls = sorted(spec, key=str)
    for sp in cls:
        t = clause_tokens(sp)
        if t is None:
            return None
        out += t
    return [str(len(cls))] + out


def req_tokens(req: Any) -> Optional[List[str]]:
    """pkg_resources.Requirement -> tokens of the model's req"""
    st = spec_tokens(req.specifier)
    if st is None:
        return None
    extras = list(req.extras)
    toks = [hx(req.name), str(len(extras))] + [hx(e) for e in extras] + st
    toks += ["S", hx(str(req.marker))] if req.marker is not None else ["N"]
    return toks


def opt_req_tokens(req: Any) -> Optional[List[str]]:
    if req is None:
        return ["N"]
    t = req_tokens(req)
    return None if t is None else ["S"] + t


class TokReader:
    def __init__(self, toks: List[str]) -> None:
        self.t = toks
        self.i = 0

    def next(self) -> str:
        x = self.t[self.i]
        self.i += 1
        return x

    def req(self) -> dict:
        name = unhx(self.next())
        extras = [unhx(self.next()) for _ in range(int(self.next()))]
        cls = [canon_clause([self.next(), self.next(), self.next()]) for _ in range(int(self.next()))]
        marker = unhx(self.next()) if self.next() == "S" else None
        return {"name": name, "extras": sorted(set(extras)), "spec": sorted(set(cls)), "marker": marker}


def obs_req(req: Any) -> dict:
    cls = []
    for sp in req.specifier:
        t = clause_tokens(sp)
        cls.append(canon_clause(t) if t else ("?", "?", str(sp)))
    return {"name": req.name, "extras": sorted(set(req.extras)), "spec": sorted(set(cls)),
            "marker": str(req.marker) if req.marker is not None else None}


# ---- generators -------------------------------------------------------------------------

def gen_version(rng: random.Random, allow_local: bool = True, small: bool = False) -> str:
    n = rng.choice([1, 2, 2, 3, 3, 4])
    comps = [0, 1, 1, 2, 2, 3, 10] if not small else [0, 1, 2]
    rel = [rng.choice(comps) for _ in range(n)]
    s = ".".join(map(str, rel))
    if rng.random() < 0.08:
        s = "1!" + s
    r = rng.random()
    if r < 0.25:
        s += rng.choice(["a", "b", "rc"]) + str(rng.choice([0, 1, 2]))
    if rng.random() < 0.15:
        s += ".post" + str(rng.choice([0, 1, 2]))
    if rng.random() < 0.15:
        s += ".dev" + str(rng.choice([0, 1, 2]))
    if allow_local and rng.random() < 0.08:
        s += "+" + rng.choice(["abc", "1", "abc.1", "2.x", "ubuntu"])
    return s


def gen_clause(rng: random.Random) -> str:
    op = rng.choice(["==", "==", "!=", "<", "<=", ">", ">=", "~=", "==*", "!=*"])
    if op in ("==*", "!=*"):
        n = rng.choice([1, 2, 3])
        rel = ".".join(str(rng.choice([0, 1, 2, 3])) for _ in range(n))
        if rng.random() < 0.05:
            rel = "1!" + rel
        return op[:2] + rel + ".*"
    if op == "~=":
        while True:
            v = gen_version(rng, allow_local=False)
            if len(Version(v).release) >= 2:
                return op + v
    v = gen_version(rng, allow_local=op in ("==", "!="))
    return op + v


# ---- Coq literals (for the in-Coq re-evaluation of a sample) ----------------------------

def coq_N(n: Any) -> str:
    return f"{int(n)}%N"


def coq_version_tok(t: str) -> str:
    e, r, p, po, d, l = t.split(":")
    pre = "None" if p == "-" else "(Some ({}, {}))".format({"a": "PA", "b": "PB", "c": "PRC"}[p[0]], coq_N(p[1:]))
    opt = lambda x: "None" if x == "-" else f"(Some {coq_N(x)})"
    if l == "-":
        loc = "[]"
    else:
        from common import coq_string
        loc = "[" + "; ".join(("LNum " + coq_N(x[1:])) if x[0] == "n" else ("LStr " + coq_string(unhx(x[1:]))) for x in l.split(".")) + "]"
    rel = "[" + "; ".join(coq_N(x) for x in r.split(".")) + "]"
    return f"(mkV {coq_N(e)} {rel} {pre} {opt(po)} {opt(d)} {loc})"


def coq_clause_toks(toks: List[str]) -> str:
    op = {"eq": "OEq", "ne": "ONe", "lt": "OLt", "le": "OLe", "gt": "OGt", "ge": "OGe", "cp": "OCompat"}[toks[0]]
    return f"(mkC {op} {coq_version_tok(toks[2])} {'true' if toks[1] == '1' else 'false'})"

"""C15 - The download cache never serves a damaged file (DESIGN.md section 4)."""
from __future__ import annotations

import concurrent.futures
import hashlib
import io
import json
import logging
import os
import shutil
import subprocess
import sys
import zipfile
from pathlib import Path
from typing import Any, Dict, List, Optional, Tuple

import common
from common import Ctx, run_model

ID = "C15"
PROPS = ["props/C15.v"]
EXTRACTS = ["C15"]
THEOREMS = [
    "C15_reuse_only_if_digest",
    "C15_reuse_if_digest",
    "C15_no_digest_never_reused",
    "C15_stale_without_digest_replaced",
    "C15_mismatch_never_kept",
    "C15_partial_file_replaced",
    "C15_undecodable_fresh_removed",
    "C15_extraction_error_leaves_no_fresh_file",
    "C15_used_file_verified_or_fresh",
    "C15_failed_transfer_fails_run",
    "C15_error_status_fails_run",
    "C15_fresh_transfer_unverified_refuted",
    "C15_fresh_transfer_verified_full_statement_refuted",
    "C15_page_retry_within_budget",
    "C15_page_retry_exhausted",
    "C15_page_error_never_parsed",
    "C15_is_5xx_spec",
    "C15_user_dir_never_deleted",
    "C15_tmp_removed_all_exits_given",
    "C15_tmp_removed_all_exits",
    "C15_cli_exits_table",
    "C15_run_first_failure",
    "C15_cli_covered_failures_exit_1",
    "C15_cli_traceback_pairs_table",
    "C15_cli_unusable_repository_is_diagnostic",
    "C15_bzl_user_dir_never_deleted",
    "C15_bzl_tmp_removed_all_exits",
    "C15_scan_touches_only_candidate_files",
    "C15_honest_transfer_heals",
    "C15_user_dir_never_deleted_given",
    "C15_gen_download_shape",
    "C15_multi_only_no_candidate_is_skipped",
    "C15_multi_page_exhausted_fails_run",
    "C15_multi_failed_transfer_fails_run",
]
RULE = ("histories = (initial wheel directory, candidate list with advertised digests, server fault script): per file the "
        "directory holds nothing / the advertised file / a crash prefix of it (every prefix length for one wheel per run) / "
        "foreign or bit-flipped content; the digest fragment is correct / absent / wrong / upper-cased / empty / doubled; the "
        "server answers each request with the file, a truncated or bit-flipped body, an error page with 4xx/5xx status, a "
        "stream that breaks after k bytes, or a connection error. The real _do_download, PyPIRepository.resolve_candidate and "
        "Repository.do_get_candidate run against a fake requests session (real requests.Response objects) and a real "
        "directory; the extracted Coq model runs on the same history; result, exception class, directory contents, "
        "requests seen and unused responses are compared. Index-page status sequences (5xx runs around the retry budget) "
        "against _scan_page_links. Command-line exits: subprocess runs of compile_main / compile_requirements with TMPDIR "
        "census vs the CliFlow model. Non-trivial = a file was present before the call or a fault was injected; distinct = "
        "distinct canonical history.")
TRUSTED_BASE = [
    "T1 harness/tr_c15.py: statement order, try/except/finally extent, delete-flag constants of compile_main and compile_requirements; retry bounds of _scan_page_links; shape facts of _do_download/resolve_candidate/do_get_candidate -> gen/C15Consts.v",
    "T2 harness/c15.py: generators, fake session (requests.Response with scripted status/body, urllib3 ProtocolError for broken streams), directory census, canonicalisation",
    "sha is abstract in every theorem; for extraction/T2 it is instantiated with toy_sha (polynomial hash) and the harness checks that toy_sha is collision-free on the contents of each case, so digest comparisons agree with hashlib.sha256",
    "meta (extract_metadata's verdict Readable/MetadataError/other exception on given bytes under a given file name) is abstract in every theorem; for T2 it is a finite table filled by calling the real extract_metadata on a scratch copy of each content",
    "crash model: a killed run leaves a prefix of the byte sequence it was writing under the final file name (open(..,'wb') + sequential writes); the OS file system, real HTTP and kill -9 are not executed",
    "modelled, not verified: req_compile/repos/pypi.py, repository.py do_get_candidate, cmdline.py compile_main, private/compiler.py",
]
ASSUMPTIONS = [
    "the candidate list handed to the scan model is already in sort_candidates order (version descending, wheel before sdist); filtering and sorting are C03/C07",
    "each simulated run is one process: FAILED_BUILDS and the lru_cache of _scan_page_links start empty",
    "exceptions raised inside an except clause of compile_main (the asserts) and signals are outside the model",
    "candidate file names are flat names (no path separators)",
    "candidates with equal sort keys are tried in listing order (sorted(reverse=True) is stable); the end-to-end listings keep such ties in the order the model is given",
    "the prerelease fallback of do_get_candidate (second pass with prereleases allowed) is outside the model: generated versions are final releases",
]
LEVEL_TEXT = ("34 theorems proved in Coq over Gallina models of _do_download/resolve_candidate/do_get_candidate/_scan_page_links "
              "(all directories, crash prefixes, fault scripts, candidate lists; sha and the metadata verdict abstract) and of the "
              "exit paths of compile_main/compile_requirements (all stage-failure scripts, over facts regenerated from the source): "
              "reuse iff digest equal, every mismatching/partial file is replaced, a fresh file that cannot be read (any failure) is "
              "removed, a failed transfer (connection error, broken stream, error status) fails the run and never yields another "
              "version, what the scan uses is digest-verified or was transferred in this run with a non-error status, page 5xx retry "
              "budget; for both front ends the temporary wheel directory is gone after EVERY exit and a user directory is never "
              "deleted; for compile_main every failure the handler table covers is a diagnostic with exit status 1; refuted with a "
              "replayed witness: a fresh transfer is not compared with the advertised digest.")
LEVEL_NOTE = ("Trusted: Coq kernel, extraction, OCaml driver, T1 translator, T2 harness with fake session; sha/meta instantiations "
              "(toy hash, oracle table); kill -9 crash points are modelled as prefixes, not executed.")
TECHNIQUE = "Rocq proof over Gallina models (finite-map lemmas, induction over candidate lists/fault scripts/statement lists) + T1 generated facts + extraction-based differential correspondence with scripted fake sessions and subprocess TMPDIR census"

BASE_URL = "http://idx.invalid/simple/foo/"
INDEX_URL = "http://idx.invalid/simple"
PAGE_URL = INDEX_URL + "/foo/"
INDEX_A, INDEX_B = "http://idx-a.invalid/simple", "http://mirror-b.invalid/simple"
ERROR_PAGE = b"<html><head><title>503 Service Unavailable</title></head><body>try later</body></html>"
NOTFOUND_PAGE = b"<html><body><h1>404 Not Found</h1></body></html>"


def bhx(b: bytes) -> str:
    return b.hex() if b else "-"


def shx(s: str) -> str:
    return bhx(s.encode("utf-8"))


def toy_sha(b: bytes) -> str:
    h = 7
    for c in b:
        h = (h * 131 + c + 1) % 4294967291
    return f"{h}x{len(b)}"


def mkwheel(name: str, ver: str, deflate: bool = False, reqs: Tuple[str, ...] = (), pad: int = 0) -> bytes:
    b = io.BytesIO()
    with zipfile.ZipFile(b, "w", zipfile.ZIP_DEFLATED if deflate else zipfile.ZIP_STORED) as z:
        for nm, data in ((f"{name}/__init__.py", "x = 1\n" * (1 + pad)),
                         (f"{name}-{ver}.dist-info/METADATA",
                          f"Metadata-Version: 2.1\nName: {name}\nVersion: {ver}\n" + "".join(f"Requires-Dist: {r}\n" for r in reqs)
                          + ("Requires-Dist: bar\n" * 30 if deflate else "")),
                         (f"{name}-{ver}.dist-info/WHEEL", "Wheel-Version: 1.0\nTag: py3-none-any\n")):
            zi = zipfile.ZipInfo(nm, date_time=(2020, 1, 1, 0, 0, 0))
            zi.compress_type = zipfile.ZIP_DEFLATED if deflate else zipfile.ZIP_STORED
            z.writestr(zi, data)
    return b.getvalue()


# ----------------------------------------------------------------------------------------
# fake HTTP session producing real requests.Response objects


class _BrokenRaw:
    def __init__(self, sent: bytes) -> None:
        self.sent = sent

    def stream(self, chunk: Any = 1, *args: Any, **kwargs: Any):     # (amt, decode_content=...) as urllib3 spells it
        import urllib3
        chunk = chunk if isinstance(chunk, int) and chunk > 0 else max(len(self.sent), 1)
        for i in range(0, len(self.sent), chunk):
            yield self.sent[i:i + chunk]
        raise urllib3.exceptions.ProtocolError("Connection broken: IncompleteRead", None)

    def release_conn(self, *args: Any, **kwargs: Any) -> None:
        pass

    def close(self, *args: Any, **kwargs: Any) -> None:
        pass


class FakeSession(common.FakeSessionBase):
    """One scripted response per request, in request order.  Specs:
       ("B", status, body)  complete response      ("K", status, sent)  stream breaks after `sent`
       ("F",)               connection error       script exhausted -> connection error"""

    def __init__(self, script: List[Tuple], page_script: Optional[List[Tuple]] = None,
                 page_scripts: Optional[Dict[str, List[Tuple]]] = None) -> None:
        self.script = list(script)
        self.page_script = None if page_script is None else list(page_script)
        self.page_scripts = {k: list(v) for k, v in (page_scripts or {}).items()}
        self.seen: List[str] = []
        self.page_seen = 0
        self.pages_seen: Dict[str, int] = {}

    def get(self, url: str, *a: Any, **kw: Any):     # stream=, timeout=, headers= ...: all the same here
        import requests
        script = self.script
        if url in self.page_scripts:
            self.pages_seen[url] = self.pages_seen.get(url, 0) + 1
            script = self.page_scripts[url]
        elif self.page_script is not None and url == PAGE_URL:
            self.page_seen += 1
            script = self.page_script
        else:
            self.seen.append(url)
        if not script:
            raise requests.exceptions.ConnectionError("script exhausted")
        spec = script.pop(0)
        if spec[0] == "F":
            raise requests.exceptions.ConnectionError("refused")
        r = requests.Response()
        r.status_code = spec[1]
        r.url = url
        r.reason = "scripted"
        if spec[0] == "B":
            r._content = spec[2]
            r._content_consumed = True
        else:
            r.raw = _BrokenRaw(spec[2])
        return r

    def close(self, *a: Any, **kw: Any) -> None:
        pass

    # hashable/equal by identity: it is an lru_cache key of _scan_page_links


def _imports():
    logging.disable(logging.CRITICAL)
    import warnings
    warnings.simplefilter("ignore")
    import req_compile.repos.pypi as P
    import req_compile.errors as E
    import req_compile.metadata.source as MS
    import req_compile.metadata as M
    import requests
    import time as _time
    import types
    # no real back-off sleeps in the harness process; everything else of the time module stays what it is
    P.time = types.SimpleNamespace(**dict({k: getattr(_time, k) for k in dir(_time) if not k.startswith("__")},
                                          sleep=lambda *a, **k: None))
    return P, E, MS, M, requests


def fresh_process_state(P, MS) -> None:
    MS.FAILED_BUILDS.clear()
    P._scan_page_links.cache_clear()


def exn_class(P, E, requests, ex: BaseException, filename_none: bool = False) -> str:
    if isinstance(ex, E.MetadataError):
        return "MetadataError"
    if isinstance(ex, E.NoCandidateException):
        return "NoCandidate"
    if isinstance(ex, requests.exceptions.ChunkedEncodingError):
        return "ChunkedEncodingError"
    if isinstance(ex, requests.exceptions.ConnectionError):
        return "ConnectionError"
    if isinstance(ex, requests.exceptions.HTTPError):
        return "HTTPError"
    if isinstance(ex, ValueError) and filename_none:
        return "ValueError"
    return "OtherError"


# ----------------------------------------------------------------------------------------
# meta oracle: the verdict of the real extract_metadata on (file name, content)


class MetaOracle:
    def __init__(self, ctx: Ctx, M, E, MS) -> None:
        self.dir = ctx.tmpdir() / "meta-oracle"
        self.dir.mkdir(exist_ok=True)
        self.cache: Dict[Tuple[str, bytes], str] = {}
        self.M, self.E, self.MS = M, E, MS

    def verdict(self, fname: str, content: bytes) -> str:
        key = (fname, content)
        if key in self.cache:
            return self.cache[key]
        p = self.dir / fname
        p.write_bytes(content)
        self.MS.FAILED_BUILDS.clear()
        try:
            self.M.extract_metadata(str(p))
            v = "R"
        except self.E.MetadataError:
            v = "M"
        except Exception:
            v = "O"
        finally:
            try:
                p.unlink()
            except OSError:
                pass
        self.MS.FAILED_BUILDS.clear()
        self.cache[key] = v
        return v


# ----------------------------------------------------------------------------------------
# case generation (histories)

WHEEL_CACHE: Dict[Tuple[str, Any], bytes] = {}


def true_content(fname: str, deflate: Any) -> bytes:
    """deflate: False (stored, ~0.4 KB), True (deflated), "big" (stored, ~9 KB: more than two 4 KB blocks)"""
    key = (fname, deflate)
    if key not in WHEEL_CACHE:
        if fname.endswith(".whl"):
            ver = fname.split("-")[1]
            WHEEL_CACHE[key] = mkwheel("foo", ver, deflate=(deflate is True), pad=(1500 if deflate == "big" else 0))
        else:
            WHEEL_CACHE[key] = b"\x1f\x8b-not-a-real-sdist-" + fname.encode()
    return WHEEL_CACHE[key]


def flip(b: bytes, i: int) -> bytes:
    if not b:
        return b"\x55"
    i %= len(b)
    return b[:i] + bytes([b[i] ^ 0x55]) + b[i + 1:]


def gen_digest_kind(rng, malformed: bool) -> str:
    if malformed:
        return rng.choice(["upper", "empty", "double", "md5", "wrong", "garbage"])
    return rng.choice(["ok"] * 7 + ["none", "none", "wrong"])


def resources(fname: str, kind: str, content: bytes, other: bytes) -> Tuple[str, str]:
    """(resource for the real code [sha256], resource for the model [toy_sha])"""
    real, toy = hashlib.sha256(content).hexdigest(), toy_sha(content)
    oreal, otoy = hashlib.sha256(other).hexdigest(), toy_sha(other)
    if kind == "ok":
        return fname + "#sha256=" + real, fname + "#sha256=" + toy
    if kind == "none":
        return fname, fname
    if kind == "wrong":
        return fname + "#sha256=" + oreal, fname + "#sha256=" + otoy
    if kind == "upper":
        return fname + "#sha256=" + real.upper(), fname + "#sha256=" + toy.upper()
    if kind == "empty":
        return fname + "#sha256=", fname + "#sha256="
    if kind == "double":
        return fname + "#sha256=" + oreal + "#sha256=" + real, fname + "#sha256=" + otoy + "#sha256=" + toy
    if kind == "md5":
        return fname + "#md5=" + real[:32], fname + "#md5=" + real[:32]
    if kind == "garbage":
        return fname + "#sha256=" + real + "&egg=foo", fname + "#sha256=" + toy + "&egg=foo"
    raise ValueError(kind)


def gen_seed(rng, fname: str, content: bytes, other: bytes, malformed: bool) -> Tuple[str, Optional[bytes]]:
    r = rng.random()
    if r < 0.30:
        return "absent", None
    if r < 0.50:
        return "exact", content
    if r < 0.75:
        k = rng.choice([0, 1, len(content) - 1, rng.randrange(len(content) + 1), rng.randrange(len(content) + 1)])
        return "prefix", content[:max(0, k)]
    if r < 0.85:
        return "flipped", flip(content, rng.randrange(max(1, len(content))))
    if r < 0.93:
        return "foreign", other
    return "page", ERROR_PAGE


def gen_response(rng, content: bytes, other: bytes, malformed: bool) -> Tuple[str, Tuple]:
    r = rng.random()
    if r < (0.35 if not malformed else 0.1):
        return "good", ("B", 200, content)
    if r < 0.47:
        return "errorpage", ("B", rng.choice([500, 502, 503, 504, 599]), ERROR_PAGE)
    if r < 0.53:
        return "notfound", ("B", rng.choice([404, 403, 410]), NOTFOUND_PAGE)
    if r < 0.63:
        return "truncated", ("B", 200, content[:rng.randrange(len(content) + 1)])
    if r < 0.78:
        return "flipped", ("B", 200, flip(content, rng.randrange(max(1, len(content)))))
    if r < 0.84:
        return "foreign", ("B", 200, other)
    if r < 0.92:
        return "break", ("K", rng.choice([200, 200, 503]), content[:rng.randrange(len(content) + 1)])
    if r < 0.96:
        return "good5xx", ("B", 503, content)     # the status is not looked at
    return "fail", ("F",)


def gen_history(rng, malformed: bool) -> Dict[str, Any]:
    nver = rng.choice([1, 2, 2, 3, 3, 4])
    versions = sorted(rng.sample(range(1, 7), nver), reverse=True)
    r0 = rng.random()
    deflate: Any = True if r0 < 0.42 else "big" if r0 < 0.50 else False
    cands = []
    for v in versions:
        files = [f"foo-{v}.0-py3-none-any.whl"]
        if rng.random() < 0.2:
            files.append(f"foo-{v}.0.tar.gz")
        for fn in files:
            cands.append({"file": fn, "ver": v, "sdist": not fn.endswith(".whl")})
    if rng.random() < 0.08:
        # a file of another project on the page (name check of do_get_candidate)
        v = rng.choice(versions)
        pos = [i for i, c in enumerate(cands) if c["ver"] == v and not c["sdist"]][0]
        cands.insert(pos, {"file": f"foo_bar-{v}.0-py3-none-any.whl", "ver": v, "sdist": False, "foreign_name": True})
    seeds: Dict[str, bytes] = {}
    script: List[Tuple] = []
    for c in cands:
        fn = c["file"]
        content = true_content(fn, deflate)
        other = true_content(f"foo-{(c['ver'] % 6) + 1}.0-py3-none-any.whl", deflate)
        c["digest"] = gen_digest_kind(rng, malformed)
        c["res_real"], c["res_toy"] = resources(fn, c["digest"], content, other)
        sk, sv = gen_seed(rng, fn, content, other, malformed)
        c["seed"] = sk
        if sv is not None:
            seeds[fn] = sv
        hit = (sk == "exact" and c["digest"] == "ok") or (sk == "foreign" and c["digest"] in ("wrong", "double"))
        if not hit:
            rk, rv = gen_response(rng, content, other, malformed)
            c["resp"] = rk
            script.append(rv)
        else:
            c["resp"] = "-"
    if rng.random() < 0.15 and script:
        script.pop()                                   # script shorter than the requests: connection error
    return {"cands": cands, "seeds": seeds, "script": script,
            "allow_sdist": rng.random() < 0.8, "maxdg": rng.choice([None, None, None, 1, 2, 3]), "deflate": deflate}


def gen_multi_history(rng) -> Dict[str, Any]:
    """Two indexes sharing one wheel directory and one session.  Index A is asked first and is where the faults
    are (page 5xx runs around the retry budget, file 5xx / broken transfers); B mostly carries other versions."""
    r0 = rng.random()
    deflate: Any = True if r0 < 0.4 else False
    va = sorted(rng.sample(range(2, 7), rng.choice([1, 2, 2, 3])), reverse=True)
    vb = sorted(rng.sample(range(1, 6), rng.choice([1, 1, 2])), reverse=True)
    cands: List[Dict[str, Any]] = []
    repos = []
    seeds: Dict[str, bytes] = {}
    script: List[Tuple] = []
    for k, (idx, versions) in enumerate(((INDEX_A, va), (INDEX_B, vb))):
        mine = []
        for v in versions:
            fn = f"foo-{v}.0-py3-none-any.whl"
            content = true_content(fn, deflate)
            other = true_content(f"foo-{(v % 6) + 1}.0-py3-none-any.whl", deflate)
            c: Dict[str, Any] = {"file": fn, "ver": v, "sdist": False}
            c["digest"] = gen_digest_kind(rng, False)
            rr, rt = resources(fn, c["digest"], content, other)
            base = idx + "/foo/"
            c["res_real"], c["res_toy"] = base + rr, base + rt          # absolute hrefs: the log tells the indexes apart
            if fn not in seeds and rng.random() < 0.35:
                sk, sv = gen_seed(rng, fn, content, other, False)
                if sv is not None:
                    seeds[fn] = sv
            sd = seeds.get(fn)
            c["seed"] = "absent" if sd is None else "exact" if sd == content else "other"
            hit = sd is not None and ((sd == content and c["digest"] == "ok") or (sd == other and c["digest"] == "wrong"))
            if not hit:
                if k == 0:
                    rk, rv = gen_response(rng, content, other, rng.random() < 0.5)
                else:
                    rk, rv = ("good", ("B", 200, content)) if rng.random() < 0.8 else gen_response(rng, content, other, False)
                c["resp"] = rk
                script.append(rv)
            else:
                c["resp"] = "-"
            mine.append(len(cands))
            cands.append(c)
        retries = rng.choice([0, 1, 3, 3]) if k == 0 else 3
        r = rng.random()
        if k == 1 or r < 0.45:
            pages: List[Any] = [200] if rng.random() < 0.9 else [404]
        elif r < 0.85:
            n5 = rng.randrange(0, retries + 3)
            pages = [rng.choice([500, 502, 503, 599]) for _ in range(n5)] + [rng.choice([200, 200, 404])]
        else:
            pages = [rng.choice([200, 404, 403, 503, "F"]) for _ in range(rng.randrange(0, 4))]
        repos.append({"retries": retries, "page_seq": pages, "cands": mine})
    return {"cands": cands, "repos": repos, "seeds": seeds, "script": script, "allow_sdist": True,
            "maxdg": rng.choice([None, None, 1, 2]), "deflate": deflate}


# ----------------------------------------------------------------------------------------
# running a history on the real code


def make_candidate(P, c: Dict[str, Any]):
    from req_compile.repos.repository import filename_to_candidate
    cand = filename_to_candidate((BASE_URL, c["res_real"]), c["file"])
    if cand is None:
        raise RuntimeError("filename_to_candidate rejected " + c["file"])
    return cand


def list_dir(d: Path) -> Dict[str, bytes]:
    return {p.name: p.read_bytes() for p in sorted(d.iterdir()) if p.is_file()}


def strip_base(urls: List[str]) -> List[str]:
    out = []
    for u in urls:
        out.append(u[len(BASE_URL):] if u.startswith(BASE_URL) else u)
    return out


def impl_run(ctx: Ctx, mods, h: Dict[str, Any], level: str, wd: Path) -> Dict[str, Any]:
    """level: 'L' (_do_download on the first candidate), 'R' (resolve_candidate), 'S' (do_get_candidate)"""
    P, E, MS, M, requests = mods
    import pkg_resources
    for p in wd.iterdir():
        if p.is_dir():
            shutil.rmtree(p)
        else:
            p.unlink()
    for fn, b in h["seeds"].items():
        (wd / fn).write_bytes(b)
    fresh_process_state(P, MS)
    repo = P.PyPIRepository(INDEX_URL, str(wd), retries=h.get("retries", 3))
    sess = FakeSession(h["script"], page_script_of(h) if level == "G" else None,
                       page_scripts=multi_page_scripts(h) if level == "M" else None)
    repo.session = sess
    res: Any
    try:
        if level == "M":
            from req_compile.repos.multi import PooledCandidateMultiRepository
            inner = []
            for k, (idx, r) in enumerate(zip((INDEX_A, INDEX_B), h["repos"])):
                pr = P.PyPIRepository(idx, str(wd), retries=r["retries"],
                                      index_type=P.IndexType.INDEX_URL if k == 0 else P.IndexType.EXTRA_INDEX_URL)
                pr.session = sess
                inner.append(pr)
            multi = PooledCandidateMultiRepository(*inner)
            dist, cached = multi.get_dist(pkg_resources.Requirement.parse("foo"), allow_source_dist=h["allow_sdist"],
                                          max_downgrade=h["maxdg"])
            res = ("OK", dist.candidate.filename, "1" if cached else "0")
        elif level == "G":
            dist, cached = repo.get_dist(pkg_resources.Requirement.parse("foo"), allow_source_dist=h["allow_sdist"],
                                         max_downgrade=h["maxdg"])
            res = ("OK", dist.candidate.filename, "1" if cached else "0")
        elif level == "L":
            c = h["cands"][0]
            out, cached = P._do_download(repo.logger, c["file"], (BASE_URL, c["res_real"]), sess, str(wd))
            res = ("OK", "1" if cached else "0")
        elif level == "R":
            dist, cached = repo.resolve_candidate(make_candidate(P, h["cands"][0]))
            res = ("OK", "1" if cached else "0")
        else:
            cl = [make_candidate(P, c) for c in h["cands"]]
            dist, cached = repo.do_get_candidate(pkg_resources.Requirement.parse("foo"), cl,
                                                 allow_source_dist=h["allow_sdist"], max_downgrade=h["maxdg"])
            res = ("OK", dist.candidate.filename, "1" if cached else "0")
    except Exception as ex:
        common.reraise_harness_fault(ex)     # the scripted session is the harness's: its own errors are no "OtherError" of the code
        res = ("EXN", exn_class(P, E, requests, ex))
    out = {"res": res, "dir": list_dir(wd), "log": strip_base(sess.seen), "rest": len(sess.script)}
    if level == "G":
        out["pages"] = sess.page_seen
    if level == "M":
        out["pages"] = [sess.pages_seen.get(idx + "/foo/", 0) for idx in (INDEX_A, INDEX_B)]
    return out


def multi_page_scripts(h: Dict[str, Any]) -> Dict[str, List[Tuple]]:
    out = {}
    for idx, r in zip((INDEX_A, INDEX_B), h["repos"]):
        cands = [h["cands"][i] for i in r["cands"]]
        out[idx + "/foo/"] = [("F",) if s == "F" else ("B", s, listing_html(h, cands) if s == 200 else ERROR_PAGE)
                              for s in r["page_seq"]]
    return out


def listing_html(h: Dict[str, Any], cands: Optional[List[Dict[str, Any]]] = None) -> bytes:
    # shuffled listing; files with equal sort keys (same version and type: the foreign-name wheel)
    # keep their relative order, because sorted(..., reverse=True) is stable (ties are C07/C20)
    h = h if cands is None else dict(h, cands=cands)
    n = len(h["cands"])
    slots = list(range(n))
    rnd = __import__("random").Random(len(h["script"]) * 7919 + n)
    rnd.shuffle(slots)
    order: List[Any] = [None] * n
    groups: Dict[Any, List[int]] = {}
    for i, c in enumerate(h["cands"]):
        groups.setdefault((c["ver"], c["sdist"]), []).append(i)
    for idxs in groups.values():
        for slot, i in zip(sorted(slots[i] for i in idxs), idxs):
            order[slot] = h["cands"][i]
    links = "".join(f'<a href="{c["res_real"]}">{c["file"]}</a><br/>\n' for c in order)
    return ("<!DOCTYPE html><html><body><h1>Links for foo</h1>" + links + "</body></html>").encode()


def page_script_of(h: Dict[str, Any]) -> List[Tuple]:
    return [("F",) if s == "F" else ("B", s, listing_html(h) if s == 200 else ERROR_PAGE) for s in h["page_seq"]]


def world_tokens(h: Dict[str, Any], metatab: List[Tuple[str, bytes, str]]) -> str:
    toks = [str(len(h["seeds"]))]
    for fn, b in h["seeds"].items():
        toks += [shx(fn), bhx(b)]
    toks.append(str(len(h["script"])))
    for r in h["script"]:
        if r[0] == "F":
            toks.append("F")
        else:
            toks += [r[0], str(r[1]), bhx(r[2])]
    toks.append(str(len(metatab)))
    for fn, b, v in metatab:
        toks += [shx(fn), bhx(b), v]
    return " ".join(toks)


def cand_tokens(c: Dict[str, Any]) -> str:
    return " ".join(["S", shx(c["file"]), shx(c["res_toy"]), str(c["ver"]), "1" if c["sdist"] else "0",
                     "0" if c.get("foreign_name") else "1"])


def model_line(h: Dict[str, Any], level: str, metatab) -> str:
    w = world_tokens(h, metatab)
    if level == "L":
        c = h["cands"][0]
        return f"L {w} {shx(c['file'])} {shx(c['res_toy'])}"
    if level == "R":
        return f"R {w} {cand_tokens(h['cands'][0])}"
    md = -1 if h["maxdg"] is None else h["maxdg"]
    if level == "M":
        reps = []
        for r in h["repos"]:
            cs = [h["cands"][i] for i in r["cands"]]
            reps.append("{} {} {} {} {}".format(r["retries"], len(r["page_seq"]), " ".join(str(x) for x in r["page_seq"]),
                                                len(cs), " ".join(cand_tokens(c) for c in cs)).replace("  ", " "))
        return "M {} {} {} {} {}".format("1" if h["allow_sdist"] else "0", md, w, len(reps), " ".join(reps))
    return "S {} {} {} {} {}".format("1" if h["allow_sdist"] else "0", md, w, len(h["cands"]),
                                     " ".join(cand_tokens(c) for c in h["cands"]))


def parse_model(ans: str, level: str, h: Dict[str, Any]) -> Dict[str, Any]:
    t = ans.split()
    i = 0
    if t[0] == "OK":
        if level == "S":
            res: Any = ("OK", bytes.fromhex(t[1]).decode() if t[1] not in ("N", "-") else None, t[2])
            i = 3
        else:
            res = ("OK", t[1])
            i = 2
    elif t[0] == "EXN":
        res = ("EXN", t[1])
        i = 2
    else:
        return {"res": ("?", ans[:200]), "dir": {}, "log": [], "rest": -1}
    assert t[i] == "DIR"
    n = int(t[i + 1])
    i += 2
    d = {}
    for _ in range(n):
        fn = bytes.fromhex(t[i]).decode()
        d[fn] = b"" if t[i + 1] == "-" else bytes.fromhex(t[i + 1])
        i += 2
    assert t[i] == "LOG"
    n = int(t[i + 1])
    i += 2
    toy2real = {c["res_toy"]: c["res_real"] for c in h["cands"]}
    log = []
    for _ in range(n):
        s = "" if t[i] == "-" else bytes.fromhex(t[i]).decode()
        log.append(toy2real.get(s, "?" + s))
        i += 1
    assert t[i] == "REST"
    return {"res": res, "dir": d, "log": log, "rest": int(t[i + 1])}


def canon(o: Dict[str, Any]) -> Dict[str, Any]:
    out = {"res": list(o["res"]), "dir": {k: hashlib.sha256(v).hexdigest()[:16] + ":" + str(len(v)) for k, v in sorted(o["dir"].items())},
           "log": list(o["log"]), "rest": o["rest"]}
    if "pages" in o:
        out["pages"] = o["pages"]
    return out


def meta_table(oracle: MetaOracle, h: Dict[str, Any]) -> List[Tuple[str, bytes, str]]:
    bodies = {r[2] for r in h["script"] if r[0] in ("B", "K")}
    tab = []
    for c in h["cands"]:
        fn = c["file"]
        conts = set(bodies)
        if fn in h["seeds"]:
            conts.add(h["seeds"][fn])
        for b in sorted(conts):
            v = oracle.verdict(fn, b)
            if v != "M":                      # MetadataError is the table's default
                tab.append((fn, b, v))
    return tab


def toy_ok(h: Dict[str, Any]) -> bool:
    conts = {r[2] for r in h["script"] if r[0] in ("B", "K")} | set(h["seeds"].values())
    for c in h["cands"]:
        conts.add(true_content(c["file"], h["deflate"]))
    return len({toy_sha(b) for b in conts}) == len(conts)


def history_summary(h: Dict[str, Any]) -> Dict[str, Any]:
    return {"cands": [{k: c[k] for k in ("file", "digest", "seed", "resp")} for c in h["cands"]],
            "script": [(r[0], r[1] if len(r) > 1 else None, len(r[2]) if len(r) > 2 else None) for r in h["script"]],
            "allow_sdist": h["allow_sdist"], "maxdg": h["maxdg"],
            **({"repos": [{"retries": r["retries"], "page_seq": r["page_seq"], "files": [h["cands"][i]["file"] for i in r["cands"]]}
                          for r in h["repos"]]} if "repos" in h else {})}


def history_to_json(h: Dict[str, Any]) -> Dict[str, Any]:
    j = {k: v for k, v in h.items() if not k.startswith("_")}
    j["seeds"] = {k: v.hex() for k, v in h["seeds"].items()}
    j["script"] = [[r[0]] + ([r[1], r[2].hex()] if len(r) > 1 else []) for r in h["script"]]
    return j


def history_from_json(j: Dict[str, Any]) -> Dict[str, Any]:
    h = dict(j)
    h["seeds"] = {k: bytes.fromhex(v) for k, v in j["seeds"].items()}
    h["script"] = [tuple([r[0]] + ([r[1], bytes.fromhex(r[2])] if len(r) > 1 else [])) for r in j["script"]]
    return h


def run_histories(ctx: Ctx, mods, oracle: MetaOracle, items: List[Tuple[Dict[str, Any], str, str]]) -> None:
    """items: (history, level, origin tag).  Runs impl + model, compares."""
    wd = ctx.tmpdir() / "wheeldir"
    wd.mkdir(exist_ok=True)
    lines, impls, kept = [], [], []
    g_items = [(h, tag) for h, level, tag in items if level == "G"]
    g_pages = run_model("C15", ["P {} {} {}".format(h["retries"], len(h["page_seq"]), " ".join(str(x) for x in h["page_seq"])).strip()
                                for h, tag in g_items]) if g_items else []
    g_page_of = {id(h): a for (h, tag), a in zip(g_items, g_pages)}
    for h, level, tag in items:
        if not toy_ok(h):
            ctx.count("skipped:toy-collision")
            continue
        tab = meta_table(oracle, h)
        impls.append(impl_run(ctx, mods, h, level, wd))
        if level == "G":
            # composition done here: the index page model decides what list the scan model gets
            pa = g_page_of[id(h)].split()
            h["_page"] = pa
            if pa[0] == "PARSED":
                used = h["page_seq"][int(pa[2]) - 1]
                hh = h if used == 200 else dict(h, cands=[])
                lines.append(model_line(hh, "S", tab))
            else:
                lines.append(model_line(dict(h, cands=[], script=h["script"]), "S", tab))
        else:
            lines.append(model_line(h, level, tab))
        kept.append((h, level, tag, tab))
    answers = run_model("C15", lines) if lines else []
    if len(answers) != len(lines):
        ctx.obligation_broken("model-runner:C15", f"{len(answers)} answers for {len(lines)} cases")
        return
    for (h, level, tag, tab), io_, ans, line in zip(kept, impls, answers, lines):
        pages_tail = None
        if level == "M" and " PAGES " in ans:
            ans, pages_tail = ans.split(" PAGES ")
        try:
            mo = parse_model(ans, "S" if level in ("G", "M") else level, h)
        except Exception as ex:
            mo = {"res": ("?", ans[:200]), "dir": {}, "log": [], "rest": -1}
        if pages_tail is not None:
            mo["pages"] = [0 if t == "-" else int(t) for t in pages_tail.split()]
        if level == "G":
            pa = h["_page"]
            mo["pages"] = int(pa[2])
            if pa[0] == "EXN":
                mo["res"] = ("EXN", pa[1])
        a, b = canon(io_), canon(mo)
        ctx.count(f"level:{level}")
        ctx.count(f"origin:{tag}")
        ctx.count("result:" + level + ":" + (a["res"][1] if a["res"][0] == "EXN" else "OK-cached" if a["res"][-1] == "1" else "OK-fresh"))
        first = h["cands"][0]
        for c in (h["cands"] if level == "S" else [first]):
            ctx.count("seed:" + c["seed"])
            ctx.count("digest:" + c["digest"])
            ctx.count("resp:" + c["resp"])
        nontriv = bool(h["seeds"]) or any(r[0] != "B" or r[1] != 200 for r in h["script"]) or any(c["resp"] not in ("good", "-") for c in h["cands"])
        key = (level, line)
        ctx.case(key=hashlib.sha1(line.encode()).hexdigest(), nontrivial=nontriv,
                 sample={"level": level, "history": history_summary(h), "impl": a, "model": b} if ctx.evaluations % 211 == 0 else None)
        if a != b:
            ctx.mismatch({"L": "do_download", "R": "resolve_candidate", "S": "candidate-scan", "G": "get_dist-end-to-end", "X": "real-crash", "M": "multi-repository-get_dist"}.get(level, level),
                         {"level": level, "history": history_to_json(h), "summary": history_summary(h)}, a, b)


# ----------------------------------------------------------------------------------------
# index page retry


def page_html(n: int) -> bytes:
    links = "".join(f'<a href="foo-{i}.0-py3-none-any.whl#sha256={"0" * 64}">foo-{i}.0-py3-none-any.whl</a>\n' for i in range(1, n + 1))
    return ("<html><body>" + links + "</body></html>").encode()


def run_pages(ctx: Ctx, mods) -> None:
    P, E, MS, M, requests = mods
    rng = ctx.rng
    default_retries = int(run_model("C15", ["T"])[0])
    import inspect
    impl_default = inspect.signature(P.PyPIRepository.__init__).parameters["retries"].default
    ctx.case(key=("default-retries",), nontrivial=True)
    if impl_default != default_retries:
        ctx.mismatch("default-retries", {}, impl_default, default_retries)
    cases = []
    for retries in range(0, 6):                       # every 5xx run length around every budget 0..5
        for k in range(0, retries + 3):
            for final in (200, 404, 403, 500):
                cases.append((retries, [rng.choice([500, 502, 503, 599]) for _ in range(k)] + [final]))
    for _ in range(ctx.n(150, 3000)):
        retries = rng.choice([0, 1, 2, 3, 3, 3, 5])
        n = rng.randrange(0, 8)
        seq: List[Any] = []
        for _ in range(n):
            r = rng.random()
            seq.append(rng.choice([500, 501, 502, 503, 504, 599]) if r < 0.6 else
                       rng.choice([200, 200, 404, 403, 400, 499, 600, 301, 204, 410]) if r < 0.93 else "F")
        cases.append((retries, seq))
    lines, impls = [], []
    for retries, seq in cases:
        fresh_process_state(P, MS)
        script = [("F",) if s == "F" else ("B", s, page_html(2) if s == 200 else ERROR_PAGE) for s in seq]
        sess = FakeSession(script)
        try:
            cands = P._scan_page_links(INDEX_URL, "foo", sess, retries)
            used = seq[len(sess.seen) - 1]
            obs = f"PARSED {used} {len(sess.seen)}"
            if (used == 200) != (len(cands) == 2):
                ctx.mismatch("page-parse-sanity", {"retries": retries, "seq": seq}, len(cands), "2 iff 200")
        except Exception as ex:
            common.reraise_harness_fault(ex)
            obs = f"EXN {exn_class(P, E, requests, ex)} {len(sess.seen)}"
        impls.append(obs)
        lines.append("P {} {} {}".format(retries, len(seq), " ".join(str(s) for s in seq)))
    answers = run_model("C15", lines)
    for (retries, seq), obs, ans in zip(cases, impls, answers):
        ctx.count("level:P")
        ctx.count("page:" + obs.split()[0] + (":" + obs.split()[1] if obs.startswith("EXN") else ""))
        ctx.case(key=("P", retries, tuple(seq)), nontrivial=any(isinstance(s, int) and 500 <= s < 600 for s in seq))
        if obs != ans:
            ctx.mismatch("page-retry", {"retries": retries, "statuses": seq}, obs, ans)


# ----------------------------------------------------------------------------------------
# command-line exits (subprocesses with a TMPDIR census)

CLI_SNIPPET = "import sys; sys.path.insert(0, {repo!r}); from req_compile.cmdline import compile_main; compile_main()"

BZL_SNIPPET = r"""
import sys, types, json, logging
sys.path.insert(0, {repo!r})
logging.disable(logging.CRITICAL)
py = types.ModuleType("python"); rf = types.ModuleType("python.runfiles")
class Runfiles:
    @staticmethod
    def Create(*a, **k): return None
rf.Runfiles = Runfiles; py.runfiles = rf
sys.modules["python"] = py; sys.modules["python.runfiles"] = rf
from pathlib import Path
import importlib.util
spec = importlib.util.spec_from_file_location("bzl_compiler", {repo!r} + "/private/compiler.py")
m = importlib.util.module_from_spec(spec); spec.loader.exec_module(m)
a = json.loads(sys.argv[1])
try:
    m.compile_requirements({{k: Path(v) for k, v in a["ins"].items()}}, Path(a["solution"]), upgrade=a["upgrade"],
                           constraints=({{k: Path(v) for k, v in a["constraints"].items()}} if a.get("constraints") else None),
                           no_index=a["no_index"], wheeldir=(Path(a["wheeldir"]) if a["wheeldir"] else None))
    print("RESULT Done")
except BaseException as ex:
    cat = ("ECompilation" if type(ex).__name__ == "CompilationError" else "EOSError" if isinstance(ex, OSError)
           else "EValueError" if isinstance(ex, ValueError) else "EOther")
    print("RESULT Uncaught " + cat)
"""


def cli_fixture(ctx: Ctx) -> Dict[str, Path]:
    root = ctx.tmpdir() / "cli"
    if root.exists():
        shutil.rmtree(root)
    links = root / "links"
    links2 = root / "links-zlib"
    work = root / "work"
    for d in (links, links2, work):
        d.mkdir(parents=True)
    (links / "foo-1.0-py3-none-any.whl").write_bytes(mkwheel("foo", "1.0"))
    (links / "wheel-0.40.0-py3-none-any.whl").write_bytes(mkwheel("wheel", "0.40.0"))
    (links / "bad-1.0-py3-none-any.whl").write_bytes(ERROR_PAGE)
    # a wheel whose METADATA member does not inflate (zlib.error: not a MetadataError)
    w = mkwheel("zz", "1.0", deflate=True)
    import zlib
    for i in range(len(w)):
        w2 = flip(w, i)
        try:
            z = zipfile.ZipFile(io.BytesIO(w2))
            z.read("zz-1.0.dist-info/METADATA")
        except zlib.error:
            (links2 / "zz-1.0-py3-none-any.whl").write_bytes(w2)
            break
        except Exception:
            continue
    (work / "ok.txt").write_text("foo\n")
    (work / "nocand.txt").write_text("nothere\n")
    (work / "badmeta.txt").write_text("bad\n")
    (work / "zz.txt").write_text("zz\n")
    (work / "syntax.txt").write_text("foo ===== what\n")
    (work / "bogus.txt").write_text("--bogus-option x\nfoo\n")
    (work / "unannotated.txt").write_text("foo==1.0\n")
    (work / "solution.txt").write_text("foo==1.0  # ok.txt\n")
    return {"root": root, "links": links, "links2": links2, "work": work}


def cli_scenarios(fx: Dict[str, Path]) -> List[Tuple[str, List[str], List[Tuple[str, str]]]]:
    L = ["--no-index", "--find-links", str(fx["links"])]
    return [
        ("success", ["ok.txt"] + L, []),
        ("no-candidate", ["nocand.txt"] + L, [("SCompile", "ENoCandidate")]),
        ("bad-metadata", ["badmeta.txt"] + L, [("SCompile", "EMetadata")]),
        ("other-exception-in-compile", ["zz.txt", "--no-index", "--find-links", str(fx["links2"])], [("SCompile", "EOther")]),
        ("bad-input-path", ["/nonexistent/c15/dir"] + L, [("SInputs", "EValueError")]),
        ("bad-input-syntax", ["syntax.txt"] + L, [("SInputs", "EValueError")]),
        ("bad-extra-parameter", ["bogus.txt"] + L, [("SExtraParams", "ESystemExit")]),
        ("bad-constraint-path", ["ok.txt", "-c", "/nonexistent/c15/cons"] + L, [("SConstraints", "EValueError")]),
        ("no-repository", ["ok.txt", "--no-index"], [("SBuildRepo", "EValueError")]),
        ("missing-find-links", ["ok.txt", "--no-index", "--find-links", "/nonexistent/c15/links"], [("SBuildRepo", "ERepoInit")]),
        ("missing-source-dir", ["ok.txt", "--no-index", "--source", "/nonexistent/c15/src"], [("SBuildRepo", "EValueError")]),
        ("unannotated-solution", ["ok.txt", "--no-index", "--solution", "unannotated.txt"], [("SBuildRepo", "ERepoInit")]),
        # requirements files carrying option lines ("@REQ:" = a per-case file; {optdir} = a directory with a
        # file of the user's in it, made before the run: it must survive whatever the option line means)
        ("reqfile-wheel-dir-success", ["@REQ:--wheel-dir {optdir}\nfoo"] + L, []),
        ("reqfile-wheel-dir-no-candidate", ["@REQ:--wheel-dir {optdir}\nnothere"] + L, [("SCompile", "ENoCandidate")]),
        ("reqfile-wheel-dir-bad-metadata", ["@REQ:--wheel-dir {optdir}\nbad"] + L, [("SCompile", "EMetadata")]),
        ("reqfile-wheel-dir-unusable-repo", ["@REQ:--wheel-dir {optdir}\nfoo", "--no-index", "--find-links", "ok.txt"],
         [("SBuildRepo", "EOSError")]),
        ("reqfile-find-links", ["@REQ:--find-links " + str(fx["links"]) + "\nfoo", "--no-index"], []),
        ("reqfile-index-url", ["@REQ:--index-url http://127.0.0.1:9/simple\nfoo"] + L, []),
        ("file-as-find-links", ["ok.txt", "--no-index", "--find-links", "ok.txt"], [("SBuildRepo", "EOSError")]),
        ("dir-as-solution", ["ok.txt", "--no-index", "--find-links", str(fx["links"]), "--solution", str(fx["links"])], [("SBuildRepo", "EOSError")]),
    ]


ECLS_PY = {"EValueError": "ValueError", "ERepoInit": "RepositoryInitializationError"}


def run_cli_case(fx: Dict[str, Path], name: str, argv: List[str], user: bool, idx: int) -> Dict[str, Any]:
    tmp = fx["root"] / f"tmp-{idx}"
    tmp.mkdir()
    userdir = fx["root"] / f"userwd-{idx}"
    args = list(argv)
    optdir = None
    if args and args[0].startswith("@REQ:"):
        optdir = fx["root"] / f"optdir-{idx}"
        optdir.mkdir()
        (optdir / "keep.txt").write_text("user data")
        reqfile = fx["work"] / f"case-{idx}.txt"
        reqfile.write_text(args[0][5:].replace("{optdir}", str(optdir)) + "\n")
        args[0] = reqfile.name
    if user:
        userdir.mkdir()
        (userdir / "keep.txt").write_text("user data")
        args += ["--wheel-dir", str(userdir)]
    env = dict(os.environ, TMPDIR=str(tmp), PYTHONDONTWRITEBYTECODE="1")
    p = subprocess.run([common.PY, "-W", "ignore", "-c", CLI_SNIPPET.format(repo=str(common.REPO))] + args,
                       cwd=fx["work"], env=env, stdin=subprocess.DEVNULL, stdout=subprocess.PIPE, stderr=subprocess.PIPE,
                       text=True, timeout=120)
    left = sorted(x.name for x in tmp.iterdir())
    tb = "Traceback (most recent call last)" in p.stderr
    last = ""
    for ln in reversed(p.stderr.strip().split("\n")):
        if ln and not ln.startswith(" "):
            last = ln
            break
    cls = last.split(":")[0].split(".")[-1] if tb else ""
    return {"rc": p.returncode, "traceback": tb, "class": cls, "tmp_left": len(left),
            "user_exists": (userdir.exists() and (userdir / "keep.txt").exists()) if user else None,
            "optdir_ok": None if optdir is None else (optdir / "keep.txt").exists() and sorted(x.name for x in optdir.iterdir()) == ["keep.txt"],
            "stderr_tail": p.stderr[-300:]}


def cli_expect(model_ans: str, user: bool) -> Dict[str, Any]:
    t = model_ans.split()
    removed = t[-1] == "1"
    if t[0] == "Done":
        rc, tb, cls = 0, False, ""
    elif t[0] == "Exit":
        rc, tb, cls = int(t[1]), False, ""
    elif t[1] == "ESystemExit":
        rc, tb, cls = 2, False, ""
    else:
        rc, tb, cls = 1, True, ECLS_PY.get(t[1], "*")
    return {"rc": rc, "traceback": tb, "class": cls, "removed": removed}


def cli_obs(o: Dict[str, Any], user: bool) -> Dict[str, Any]:
    removed = (not o["user_exists"]) if user else (o["tmp_left"] == 0)
    return {"rc": o["rc"], "traceback": o["traceback"], "class": o["class"], "removed": removed}


def run_cli(ctx: Ctx) -> None:
    fx = cli_fixture(ctx)
    scen = cli_scenarios(fx)
    jobs = []
    for name, argv, script in scen:
        for user in (False, True):
            jobs.append((name, argv, script, user))
    with concurrent.futures.ThreadPoolExecutor(max_workers=8) as ex:
        futs = [ex.submit(run_cli_case, fx, name, argv, user, i) for i, (name, argv, script, user) in enumerate(jobs)]
        results = [f.result() for f in futs]
    lines = ["C cli {} {} {}".format("1" if user else "0", len(script), " ".join(f"{s} {e}" for s, e in script)).strip()
             for (name, argv, script, user) in jobs]
    answers = run_model("C15", lines)
    for (name, argv, script, user), o, ans in zip(jobs, results, answers):
        exp = cli_expect(ans, user)
        obs = cli_obs(o, user)
        if exp["class"] == "*":
            obs = dict(obs, **{"class": "*"})
        # in user mode the temporary directory is never made: nothing may appear in TMPDIR
        ctx.count("level:CLI")
        ctx.count("cli:" + name + (":user" if user else ":tmp"))
        ctx.case(key=("CLI", name, user), nontrivial=bool(script),
                 sample={"scenario": name, "user_dir": user, "impl": obs, "model": exp} if name in ("no-repository",) else None)
        if obs != exp:
            ctx.mismatch("cli-exit", {"scenario": name, "argv": [a.replace(str(fx["root"]), "<fx>") for a in argv], "user_dir": user,
                                      "stderr": o["stderr_tail"]}, obs, exp)
        if user and o["tmp_left"] != 0:
            ctx.mismatch("cli-user-mode-tmp", {"scenario": name}, o["tmp_left"], 0)
        if o["optdir_ok"] is False:
            ctx.mismatch("cli-option-line-dir", {"scenario": name, "user_dir": user}, "directory named in the requirements file changed or gone", "untouched")
    run_bzl(ctx, fx)


def bzl_scenarios(fx: Dict[str, Path]) -> List[Tuple[str, Dict[str, Any], List[Tuple[str, str]]]]:
    w = fx["work"]
    (w / "bzl_ok.in").write_text(f"--find-links {fx['links']}\nfoo\n")
    (w / "bzl_nocand.in").write_text(f"--find-links {fx['links']}\nnothere\n")
    (w / "bzl_plain.in").write_text("foo\n")
    (w / "bzl_badline.in").write_text("foo ===== what\n")
    base = {"solution": str(w / "no-such-solution.txt"), "upgrade": True, "no_index": True}
    return [
        ("success", dict(base, ins={"ok": str(w / "bzl_ok.in")}), []),
        ("no-candidate", dict(base, ins={"nc": str(w / "bzl_nocand.in")}), [("SCompile", "ENoCandidate")]),
        ("no-repository", dict(base, ins={"p": str(w / "bzl_plain.in")}), [("SBuildRepo", "EValueError")]),
        # exits while the inputs are loaded (before the wheel directory is made on the unchanged tree)
        ("bad-requirement-line", dict(base, ins={"b": str(w / "bzl_badline.in")}), [("SInputs", "EValueError")]),
        ("missing-requirements-file", dict(base, ins={"m": str(w / "no-such-file.in")}), [("SInputs", "EOSError")]),
        ("bad-constraint-line", dict(base, ins={"ok": str(w / "bzl_ok.in")}, constraints={"c": str(w / "bzl_badline.in")}),
         [("SConstraints", "EValueError")]),
        ("missing-constraints-file", dict(base, ins={"ok": str(w / "bzl_ok.in")}, constraints={"c": str(w / "no-such-cons.txt")}),
         [("SConstraints", "EOSError")]),
    ]


def run_bzl_case(fx: Dict[str, Path], name: str, a: Dict[str, Any], user: bool, idx: int) -> Dict[str, Any]:
    tmp = fx["root"] / f"btmp-{idx}"
    tmp.mkdir()
    userdir = fx["root"] / f"buserwd-{idx}"
    a = dict(a, wheeldir=None)
    if user:
        userdir.mkdir()
        (userdir / "keep.txt").write_text("user data")
        a["wheeldir"] = str(userdir)
    env = dict(os.environ, TMPDIR=str(tmp), PYTHONDONTWRITEBYTECODE="1")
    p = subprocess.run([common.PY, "-W", "ignore", "-c", BZL_SNIPPET.format(repo=str(common.REPO)), json.dumps(a)],
                       cwd=fx["work"], env=env, stdin=subprocess.DEVNULL, stdout=subprocess.PIPE, stderr=subprocess.PIPE,
                       text=True, timeout=120)
    res = [ln for ln in p.stdout.split("\n") if ln.startswith("RESULT ")]
    return {"result": res[-1][7:] if res else "?" + p.stderr[-300:], "tmp_left": len(list(tmp.iterdir())),
            "user_exists": userdir.exists() if user else None}




def run_bzl(ctx: Ctx, fx: Dict[str, Path]) -> None:
    jobs = [(n, a, s, u) for (n, a, s) in bzl_scenarios(fx) for u in (False, True)]
    with concurrent.futures.ThreadPoolExecutor(max_workers=6) as ex:
        futs = [ex.submit(run_bzl_case, fx, n, a, u, i) for i, (n, a, s, u) in enumerate(jobs)]
        results = [f.result() for f in futs]
    lines = ["C bzl {} {} {}".format("1" if u else "0", len(s), " ".join(f"{x} {e}" for x, e in s)).strip() for (n, a, s, u) in jobs]
    answers = run_model("C15", lines)
    for (n, a, s, u), o, ans in zip(jobs, results, answers):
        t = ans.rsplit(" ", 1)
        exp = {"result": t[0], "removed": t[1] == "1"}
        obs = {"result": o["result"], "removed": (not o["user_exists"]) if u else (o["tmp_left"] == 0)}
        ctx.count("level:BZL")
        ctx.count("bzl:" + n + (":user" if u else ":tmp"))
        ctx.case(key=("BZL", n, u), nontrivial=True,
                 sample={"scenario": n, "user_dir": u, "impl": obs, "model": exp} if (n == "success") else None)
        if obs != exp:
            ctx.mismatch("bzl-exit", {"scenario": n, "user_dir": u}, obs, exp)
        if u and o["tmp_left"] != 0:
            ctx.mismatch("bzl-user-mode-tmp", {"scenario": n, "user_dir": u}, o["tmp_left"], 0)


# ----------------------------------------------------------------------------------------
# corpus / witnesses of the refuted theorems


def witness_error_page() -> Dict[str, Any]:
    f2, f1 = "foo-2.0-py3-none-any.whl", "foo-1.0-py3-none-any.whl"
    c2, c1 = true_content(f2, False), true_content(f1, False)
    cands = []
    for fn, v, c in ((f2, 2, c2), (f1, 1, c1)):
        rr, rt = resources(fn, "ok", c, c)
        cands.append({"file": fn, "ver": v, "sdist": False, "digest": "ok", "seed": "absent", "resp": "-", "res_real": rr, "res_toy": rt})
    cands[0]["resp"] = "errorpage"
    cands[1]["resp"] = "good"
    return {"cands": cands, "seeds": {}, "script": [("B", 503, ERROR_PAGE), ("B", 200, c1)], "allow_sdist": True, "maxdg": None, "deflate": False}


def witness_unverified() -> Dict[str, Any]:
    f2 = "foo-2.0-py3-none-any.whl"
    c2 = true_content(f2, False)
    alt = mkwheel("foo", "2.0", reqs=("evil",))
    rr, rt = resources(f2, "ok", c2, c2)
    return {"cands": [{"file": f2, "ver": 2, "sdist": False, "digest": "ok", "seed": "absent", "resp": "foreign", "res_real": rr, "res_toy": rt}],
            "seeds": {}, "script": [("B", 200, alt)], "allow_sdist": True, "maxdg": None, "deflate": False}


def witness_other_exception() -> Optional[Dict[str, Any]]:
    import zlib
    f2 = "foo-2.0-py3-none-any.whl"
    c2 = true_content(f2, True)
    for i in range(len(c2)):
        w2 = flip(c2, i)
        try:
            zipfile.ZipFile(io.BytesIO(w2)).read("foo-2.0.dist-info/METADATA")
        except zlib.error:
            rr, rt = resources(f2, "ok", c2, c2)
            return {"cands": [{"file": f2, "ver": 2, "sdist": False, "digest": "ok", "seed": "absent", "resp": "flipped", "res_real": rr, "res_toy": rt}],
                    "seeds": {}, "script": [("B", 200, w2)], "allow_sdist": True, "maxdg": None, "deflate": True}
        except Exception:
            continue
    return None


CRASH_CHILD = r"""
import sys, os, logging, signal
sys.path.insert(0, {harness!r})
import common
common.setup_repo_path()
import c15
P = c15._imports()[0]
fname, res, wd, blocks_before_kill, flush = sys.argv[1], sys.argv[2], sys.argv[3], int(sys.argv[4]), sys.argv[5] == "1"
content = c15.true_content(fname, "big")
class Resp(common.FakeResponseBase):
    status_code = 200
    def raise_for_status(self, *a, **k):
        pass
    def iter_content(self, n=4096, *a, **k):
        n = k.get("chunk_size", n) or 4096
        for i in range(0, len(content), n):
            if i // n == blocks_before_kill:
                if flush:
                    # let the buffered bytes reach the file first (what an OS-level flush race would do)
                    import gc
                    for o in gc.get_objects():
                        if hasattr(o, "flush") and getattr(o, "name", None) == os.path.join(wd, fname):
                            o.flush()
                os.kill(os.getpid(), signal.SIGKILL)
            yield content[i:i + n]
class Sess(common.FakeSessionBase):
    def get(self, url, *a, **kw):
        return Resp()
P._do_download(logging.getLogger("c15"), fname, (c15.BASE_URL, res), Sess(), wd)
"""


def real_crashes(ctx: Ctx, mods) -> List[Tuple[Dict[str, Any], str, str]]:
    """Kill a real process in the middle of _do_download's write loop; what is on disk afterwards must
    be a crash state of the model (a prefix of the served bytes under the final name); the next
    run starts from exactly that directory."""
    fn = "foo-4.0-py3-none-any.whl"
    c = true_content(fn, "big")
    rr, rt = resources(fn, "ok", c, c)
    out: List[Tuple[Dict[str, Any], str, str]] = []
    combos = [(0, False), (1, True), (2, False), (2, True)] if ctx.tier != "thorough" else [(b, f) for b in range(0, 3) for f in (False, True)]
    for blocks, flush in combos:
        d = ctx.tmpdir() / f"crash-{blocks}-{int(flush)}"
        d.mkdir(exist_ok=True)
        (d / "other-1.0-py3-none-any.whl").write_bytes(b"untouched")
        p = subprocess.run([common.PY, "-W", "ignore", "-c", CRASH_CHILD.format(harness=str(common.VERIF / "harness")),
                            fn, rr, str(d), str(blocks), "1" if flush else "0"],
                           env=dict(os.environ, VERIF_REPO=str(common.REPO)), stdout=subprocess.PIPE, stderr=subprocess.PIPE, timeout=120)
        ctx.count("real-crash:rc=" + str(p.returncode))
        left = list_dir(d)
        on_disk = left.get(fn)
        ctx.case(key=("real-crash", blocks, flush), nontrivial=True)
        if p.returncode != -9 or on_disk is None or not c.startswith(on_disk) or left.get("other-1.0-py3-none-any.whl") != b"untouched":
            ctx.mismatch("real-crash-state", {"blocks_before_kill": blocks, "flush": flush, "rc": p.returncode,
                                              "stderr": p.stderr.decode()[-300:]},
                         {"files": {k: len(v) for k, v in left.items()}}, "a prefix of the served bytes under the final name")
            continue
        ctx.count("real-crash:bytes-on-disk=" + str(len(on_disk)))
        h = {"cands": [{"file": fn, "ver": 4, "sdist": False, "digest": "ok", "seed": "prefix", "resp": "good", "res_real": rr, "res_toy": rt}],
             "seeds": {fn: on_disk, "other-1.0-py3-none-any.whl": b"untouched"}, "script": [("B", 200, c)],
             "allow_sdist": True, "maxdg": None, "deflate": "big"}
        out.append((h, "L", "real-crash"))
        out.append((h, "S", "real-crash"))
    return out


def crash_sweep(rng, deflate: bool, step: int) -> List[Dict[str, Any]]:
    """every crash prefix (0..len) of one wheel pre-seeded, correct digest advertised, server serves the file"""
    fn = "foo-3.0-py3-none-any.whl"
    c = true_content(fn, deflate)
    rr, rt = resources(fn, "ok", c, c)
    out = []
    ks = sorted(set(range(0, len(c) + 1, step)) | {k for k in (4095, 4096, 4097, 8191, 8192, 8193, len(c) - 1, len(c)) if 0 <= k <= len(c)})
    for k in ks:
        out.append({"cands": [{"file": fn, "ver": 3, "sdist": False, "digest": "ok", "seed": "prefix" if k < len(c) else "exact",
                               "resp": "good" if k < len(c) else "-", "res_real": rr, "res_toy": rt}],
                    "seeds": {fn: c[:k], "other-1.0-py3-none-any.whl": b"untouched"}, "script": [("B", 200, c)],
                    "allow_sdist": True, "maxdg": None, "deflate": deflate})
    return out


# ----------------------------------------------------------------------------------------


def translate(ctx: Ctx) -> Dict[str, str]:
    import tr_c15
    return {"gen/C15Consts.v": tr_c15.gen_c15_consts()}


def correspondence(ctx: Ctx) -> None:
    mods = _imports()
    P, E, MS, M, requests = mods
    rng = ctx.rng
    oracle = MetaOracle(ctx, M, E, MS)
    items: List[Tuple[Dict[str, Any], str, str]] = []
    # corpus first: witnesses of the refuted theorems (stored in corpus/C15) and hand-made histories
    for f in sorted((common.CORPUS / "C15").glob("*.json")) if (common.CORPUS / "C15").exists() else []:
        j = json.loads(f.read_text())
        if j.get("kind") == "scan":
            items.append((history_from_json(j["history"]), j.get("level", "S"), "corpus"))
    for w in (witness_error_page(), witness_unverified(), witness_other_exception()):
        if w is not None:
            for lv in ("S", "R"):
                items.append((w, lv, "witness"))
    # every crash prefix of one wheel (stored and deflated), do_download and resolve level
    for h in crash_sweep(rng, False, 1):
        items.append((h, "L", "crash-sweep"))
    for h in crash_sweep(rng, True, ctx.n(7, 1)):
        items.append((h, "R", "crash-sweep"))
    for h in crash_sweep(rng, "big", ctx.n(397, 41)):
        items.append((h, "L", "crash-sweep"))
    # generated histories: ~85 % structured, ~15 % malformed digests/fault-heavy
    for _ in range(ctx.n(500, 12000)):
        malformed = rng.random() < 0.15
        h = gen_history(rng, malformed)
        tag = "malformed" if malformed else "structured"
        items.append((h, "S", tag))
        r = rng.random()
        if r < 0.35:
            items.append((h, "L", tag))
        elif r < 0.7:
            items.append((h, "R", tag))
    # end to end through Repository.get_dist: index page (status sequence, shuffled listing) + files
    for _ in range(ctx.n(150, 3000)):
        malformed = rng.random() < 0.15
        h = gen_history(rng, malformed)
        h["retries"] = rng.choice([0, 1, 3, 3, 3])
        r = rng.random()
        if r < 0.6:
            h["page_seq"] = [200]
        elif r < 0.85:
            k = rng.randrange(0, h["retries"] + 3)
            h["page_seq"] = [rng.choice([500, 502, 503, 599]) for _ in range(k)] + [rng.choice([200, 200, 200, 404])]
        else:
            h["page_seq"] = [rng.choice([200, 404, 403, 500, 503, "F", 204]) for _ in range(rng.randrange(0, 5))]
        items.append((h, "G", "malformed" if malformed else "structured"))
    # two indexes behind one MultiRepository (--index-url A --extra-index-url B): faults on A, other versions on B
    for _ in range(ctx.n(150, 3000)):
        items.append((gen_multi_history(rng), "M", "two-indexes"))
    # real crash points: a child process is SIGKILLed while _do_download is writing
    items += real_crashes(ctx, mods)
    run_histories(ctx, mods, oracle, items)
    run_pages(ctx, mods)
    run_cli(ctx)
    coq_recheck(ctx, items)


def coq_recheck(ctx: Ctx, items) -> None:
    """a small sample re-evaluated inside Coq with vm_compute (do_download level, toy digests)"""
    sample = [h for (h, lv, tag) in items if lv == "L" and len(next(iter(h["seeds"].values()), b"")) < 400][: ctx.n(12, 60)]
    if not sample:
        return
    wd = ctx.tmpdir() / "wheeldir"
    mods = _imports()
    defs = []
    for i, h in enumerate(sample):
        io_ = impl_run(ctx, mods, h, "L", wd)
        c = h["cands"][0]

        # bytes >= 128 cannot go through coq_string (utf-8 re-encoding): build from a list of N
        def cb(b: bytes) -> str:
            return "(bs [" + ";".join(str(x) for x in b) + "]%N)"
        d = "[" + "; ".join(f"({common.coq_string(fn)}, {cb(b)})" for fn, b in h["seeds"].items()) + "]"
        sc = "[" + "; ".join("RFail" if r[0] == "F" else f"{'RBody' if r[0] == 'B' else 'RBreak'} {r[1]}%N {cb(r[2])}" for r in h["script"]) + "]"
        exp_dir = "[" + "; ".join(f"({common.coq_string(fn)}, {cb(b)})" for fn, b in sorted(io_["dir"].items())) + "]"
        res = io_["res"]
        exp_res = f"DOk {'true' if res[1] == '1' else 'false'}" if res[0] == "OK" else f"DExn {res[1]}"
        defs.append(f"(check (do_download toy_sha (w0 {d} {sc}) {common.coq_string(c['file'])} {common.coq_string(c['res_toy'])}) ({exp_res}) {exp_dir} {len(io_['log'])})")
    header = ("From Coq Require Import List String Ascii NArith Bool.\nFrom RC Require Import lib.PyStr lib.StrSort model.CliTypesC15 gen.C15Consts model.CacheC15.\n"
              "Import ListNotations.\nOpen Scope string_scope.\n"
              "Fixpoint bs (l : list N) : string := match l with [] => EmptyString | x :: r => String (ascii_of_N x) (bs r) end.\n"
              "Definition dres_eqb (a b : dres) : bool := match a, b with DOk x, DOk y => Bool.eqb x y | DExn x, DExn y => exn_eqb x y | _, _ => false end.\n"
              "Definition sub (a b : dir) : bool := forallb (fun p => match lookup b (fst p) with Some c => String.eqb c (snd p) | None => false end) a.\n"
              "Definition check (o : world * dres) (r : dres) (d : dir) (nlog : nat) : bool :=\n"
              "  dres_eqb (snd o) r && sub (wdir (fst o)) d && sub d (wdir (fst o)) && Nat.eqb (List.length (wlog (fst o))) nlog.\n")
    body = ["Definition results : list bool := [" + ";\n ".join(defs) + "].",
            "Eval vm_compute in (List.length (filter negb results))."]
    ok, out = common.coq_eval("c15_cases", header, body)
    ctx.extra["coq_recheck"] = {"cases": len(defs), "ok": ok}
    if not ok or "= 0" not in out:
        ctx.mismatch("coq-vm_compute-recheck", {"n": len(defs)}, "0 mismatches", out[-600:])


# ----------------------------------------------------------------------------------------
# independent oracle: the property statement on the implementation only (never calls the model)


def oracle_history(mods, wd: Path, h: Dict[str, Any]) -> Optional[str]:
    """Checks, on the real code, the parts of the statement that hold on the unchanged tree."""
    P, E, MS, M, requests = mods

    c = h["cands"][0]
    fn = c["file"]
    seed = h["seeds"].get(fn)
    real_res = c["res_real"]
    parts = real_res.split("#sha256=")
    adv = parts[1] if len(parts) > 1 else None
    o = impl_run(None, mods, h, "L", wd)
    cached = o["res"] == ("OK", "1")
    if cached:
        if seed is None or adv is None or hashlib.sha256(seed).hexdigest() != adv:
            return "a file was reused although its SHA-256 differs from the advertised digest (or none is advertised)"
        if o["log"]:
            return "reuse made a request"
    if seed is not None and adv is not None and hashlib.sha256(seed).hexdigest() == adv and not cached:
        return "a file with the advertised digest was not reused"
    if seed is not None and (adv is None or hashlib.sha256(seed).hexdigest() != adv):
        first = h["script"][0] if h["script"] else ("F",)
        now = o["dir"].get(fn)
        if len(o["log"]) != 1:
            return "a mismatching/partial file was not re-requested exactly once"
        if first[0] in ("B", "K") and not (400 <= first[1] < 600) and now != first[2]:
            return "a mismatching/partial file was not replaced by the bytes the server sent"
        if first[0] == "F" and now == seed and adv is not None:
            return "a mismatching file survived a failed re-download"
    # resolve level: undecodable fresh file
    o = impl_run(None, mods, h, "R", wd)
    if o["res"] in (("EXN", "MetadataError"), ("EXN", "OtherError")) and o["log"] and fn in o["dir"]:
        return "a freshly downloaded file whose metadata could not be read (" + o["res"][1] + ") was left in the wheel directory"
    # scan level: a transfer that broke with an exception must fail the run
    first = h["script"][0] if h["script"] else ("F",)
    top_requested = not (seed is not None and adv is not None and hashlib.sha256(seed).hexdigest() == adv)
    o = impl_run(None, mods, h, "S", wd)
    skipped = c["sdist"] and not h["allow_sdist"]
    if top_requested and not skipped and first[0] in ("F", "K") and o["res"][0] == "OK":
        return "the transfer of the best candidate broke, yet the run went on and returned " + str(o["res"][1])
    if top_requested and not skipped and first[0] in ("B", "K") and 400 <= first[1] < 600:
        if o["res"] != ("EXN", "HTTPError"):
            return f"the request for the best candidate's file was answered with status {first[1]}, yet the run ended with {o['res']}"
        if o["dir"].get(fn) == first[2] and seed != first[2]:
            return "an error page was saved as the candidate's file"
    if o["res"][0] == "OK":
        used = o["res"][1]
        cu = [x for x in h["cands"] if x["file"] == used][0]
        pu = cu["res_real"].split("#sha256=")
        au = pu[1] if len(pu) > 1 else None
        content = o["dir"].get(used)
        if content is None:
            return "the returned candidate's file is not in the wheel directory"
        if o["res"][2] == "1" and (au is None or hashlib.sha256(content).hexdigest() != au):
            return "the scan returned a cached file whose digest is not the advertised one"
        if o["res"][2] == "0" and not any(r[0] == "B" and r[2] == content and not (400 <= r[1] < 600) for r in h["script"]):
            return "the scan returned a fresh file that is not a body served with a non-error status in this run"
    return None


def oracle_multi(mods, wd: Path, h: Dict[str, Any]) -> Optional[str]:
    """Two indexes: a failed transfer on the FIRST one (5xx run longer than its retry budget on the page, or an
    error status / broken stream / connection error on the file of its best candidate) must fail the run; the
    tool must not come back with whatever the later index offers."""
    a = h["repos"][0]
    seq = a["page_seq"]
    k = 0
    while k < len(seq) and isinstance(seq[k], int) and 500 <= seq[k] < 600:
        k += 1
    o = impl_run(None, mods, h, "M", wd)
    if k > a["retries"]:
        if o["res"][0] == "OK":
            return (f"index A answered its page with {k} 5xx statuses (retry budget {a['retries']}), yet the run "
                    f"succeeded with {o['res'][1]} taken from the later index")
        return None
    if k < len(seq) and seq[k] == 200 and a["cands"]:
        c = h["cands"][a["cands"][0]]
        sd = h["seeds"].get(c["file"])
        parts = c["res_real"].split("#sha256=")
        adv = parts[1] if len(parts) > 1 else None
        hit = sd is not None and adv is not None and hashlib.sha256(sd).hexdigest() == adv
        first = h["script"][0] if h["script"] else ("F",)
        bad = first[0] in ("F", "K") or (first[0] == "B" and 400 <= first[1] < 600)
        if not hit and bad and o["res"][0] == "OK":
            return (f"the transfer of index A's best candidate {c['file']} failed ({first[0]} {first[1] if len(first) > 1 else ''}), "
                    f"yet the run succeeded with {o['res'][1]}")
    return None


def oracle_pages(mods) -> Optional[Dict[str, Any]]:
    P, E, MS, M, requests = mods
    for retries, k, code in [(r, k, c) for r in range(0, 5) for k in range(0, r + 3) for c in (500, 503, 599)]:
        if True:
            fresh_process_state(P, MS)
            seq = [code] * k + [200]
            sess = FakeSession([("B", s, page_html(2) if s == 200 else ERROR_PAGE) for s in seq])
            try:
                cands = P._scan_page_links(INDEX_URL, "foo", sess, retries)
                got = ("OK", len(cands), len(sess.seen))
            except requests.exceptions.HTTPError:
                got = ("HTTPError", 0, len(sess.seen))
            except Exception as ex:
                common.reraise_harness_fault(ex)
                got = (type(ex).__name__, 0, len(sess.seen))
            want = ("OK", 2, k + 1) if k <= retries else ("HTTPError", 0, retries + 1)
            if got != want:
                return {"kind": "page", "input": {"retries": retries, "statuses": seq},
                        "why": f"{k} 5xx answers with a budget of {retries} retries: got {got}, the statement requires {want}"}
    return None


# scenarios whose failure class the handlers of compile_main cover: diagnostic + exit status 1, no traceback
CLI_DIAGNOSTIC = ("no-candidate", "bad-metadata", "bad-input-path", "bad-input-syntax", "no-repository",
                  "missing-find-links", "missing-source-dir", "unannotated-solution", "file-as-find-links", "dir-as-solution",
                  "reqfile-wheel-dir-no-candidate", "reqfile-wheel-dir-bad-metadata", "reqfile-wheel-dir-unusable-repo")


def oracle_cli(ctx: Ctx, only: Optional[Tuple[str, bool]] = None) -> Optional[Dict[str, Any]]:
    fx = cli_fixture(ctx)
    i = 1000
    for name, argv, script in cli_scenarios(fx):
        for user in (False, True):
            if only is not None and only != (name, user):
                continue
            i += 1
            o = run_cli_case(fx, name, argv, user, i)
            if user and not o["user_exists"]:
                return {"kind": "cli", "input": {"scenario": name, "user_dir": True},
                        "why": "the wheel directory supplied with --wheel-dir was deleted"}
            if o["optdir_ok"] is False:
                return {"kind": "cli", "input": {"scenario": name, "user_dir": user, "argv": argv},
                        "why": "the directory named by a --wheel-dir line of the requirements file (a directory the user supplied) was deleted or emptied"}
            if o["tmp_left"] != 0:
                return {"kind": "cli", "input": {"scenario": name, "user_dir": user, "argv": argv},
                        "why": "a temporary wheel directory is still in TMPDIR after the run ended"}
            if name in CLI_DIAGNOSTIC and (o["rc"] != 1 or o["traceback"]):
                return {"kind": "cli", "input": {"scenario": name, "user_dir": user},
                        "why": f"the failure is not reported as a diagnostic with exit status 1 (rc={o['rc']}, traceback={o['traceback']})"}
    return None


def oracle_bzl(ctx: Ctx, only: Optional[Tuple[str, bool]] = None) -> Optional[Dict[str, Any]]:
    """private/compiler.py compile_requirements: whatever way it ends, nothing is left in TMPDIR and a
    wheeldir handed in by the caller still exists."""
    fx = cli_fixture(ctx)
    i = 3000
    for name, a, script in bzl_scenarios(fx):
        for user in (False, True):
            if only is not None and only != (name, user):
                continue
            i += 1
            o = run_bzl_case(fx, name, a, user, i)
            if user and not o["user_exists"]:
                return {"kind": "bzl", "input": {"scenario": name, "user_dir": True, "args": {k: v for k, v in a.items()}},
                        "why": "compile_requirements deleted the wheeldir supplied by the caller"}
            if o["tmp_left"] != 0:
                return {"kind": "bzl", "input": {"scenario": name, "user_dir": user, "args": {k: v for k, v in a.items()}},
                        "why": f"compile_requirements ended with {o['result']} and left {o['tmp_left']} entr(y/ies) in TMPDIR: the temporary wheel directory was not removed"}
    return None


def search(ctx: Ctx) -> Optional[Dict[str, Any]]:
    mods = _imports()
    wd = ctx.tmpdir() / "oracle-wheeldir"
    wd.mkdir(exist_ok=True)
    suspects: List[Dict[str, Any]] = []
    cli_first = None
    bzl_first = None
    for mm in ctx.mismatches:
        c = mm["case"]
        if isinstance(c, dict) and "history" in c:
            suspects.append(history_from_json(c["history"]))
        if mm["where"] in ("cli-exit", "cli-option-line-dir") and isinstance(c, dict):
            cli_first = (c["scenario"], c["user_dir"])
        if mm["where"] in ("bzl-exit", "bzl-user-mode-tmp") and isinstance(c, dict) and bzl_first is None:
            bzl_first = (c["scenario"], c["user_dir"])
    for h in suspects:
        if "repos" in h:
            why = oracle_multi(mods, wd, h)
            if why:
                return {"kind": "multi", "input": history_to_json(h), "why": why}
            continue
        why = oracle_history(mods, wd, h)
        if why:
            return {"kind": "history", "input": history_to_json(h), "why": why}
    if cli_first is not None:
        r = oracle_cli(ctx, cli_first)
        if r:
            return r
    if bzl_first is not None:
        r = oracle_bzl(ctx, bzl_first)
        if r:
            return r
    r = oracle_pages(mods)
    if r:
        return r
    r = oracle_cli(ctx)
    if r:
        return r
    r = oracle_bzl(ctx)
    if r:
        return r
    rng = ctx.rng
    for _ in range(ctx.n(400, 4000)):
        h = gen_multi_history(rng)
        why = oracle_multi(mods, wd, h)
        if why:
            return {"kind": "multi", "input": history_to_json(h), "why": why}
    for _ in range(ctx.n(1500, 15000)):
        h = gen_history(rng, rng.random() < 0.15)
        why = oracle_history(mods, wd, h)
        if why:
            return {"kind": "history", "input": history_to_json(h), "why": why}
    return None


def replay(ctx: Ctx, payload: Dict[str, Any]) -> bool:
    fi = payload.get("failing_input")
    if not fi:
        return False
    mods = _imports()
    if fi["kind"] == "history":
        wd = ctx.tmpdir() / "oracle-wheeldir"
        wd.mkdir(exist_ok=True)
        return oracle_history(mods, wd, history_from_json(fi["input"])) is not None
    if fi["kind"] == "multi":
        wd = ctx.tmpdir() / "oracle-wheeldir"
        wd.mkdir(exist_ok=True)
        return oracle_multi(mods, wd, history_from_json(fi["input"])) is not None
    if fi["kind"] == "page":
        return oracle_pages(mods) is not None
    if fi["kind"] == "cli":
        return oracle_cli(ctx, (fi["input"]["scenario"], fi["input"]["user_dir"])) is not None
    if fi["kind"] == "bzl":
        return oracle_bzl(ctx, (fi["input"]["scenario"], fi["input"]["user_dir"])) is not None
    return False


def replay_known(ctx: Ctx, entry: Dict[str, Any]) -> Optional[bool]:
    """Re-run exactly the stored input of a known finding on the real code; True = still reproduces."""
    mods = _imports()
    path = common.VERIF / entry["replay"]
    j = json.loads(path.read_text())
    kind = j["kind"]
    wd = ctx.tmpdir() / "known-wheeldir"
    wd.mkdir(exist_ok=True)
    if kind == "scan":
        h = history_from_json(j["history"])
        o = impl_run(ctx, mods, h, j.get("level", "S"), wd)
        exp = j["expect"]
        ok = list(o["res"]) == exp["res"] and sorted(o["dir"]) == exp["files"]
        return ok
    fx = cli_fixture(ctx)
    if kind == "cli":
        sc = {n: (a, s) for n, a, s in cli_scenarios(fx)}
        a, s = sc[j["scenario"]]
        o = run_cli_case(fx, j["scenario"], a, False, 2000)
        return o["tmp_left"] > 0
    if kind == "bzl":
        sc = {n: a for n, a, s in bzl_scenarios(fx)}
        o1 = run_bzl_case(fx, "success", sc["success"], False, 2001)
        o2 = run_bzl_case(fx, "success", sc["success"], True, 2002)
        return o1["tmp_left"] > 0 or o2["user_exists"] is False
    if kind == "bzl-early":
        sc = {n: a for n, a, s in bzl_scenarios(fx)}
        o = run_bzl_case(fx, j["scenario"], sc[j["scenario"]], False, 2003)
        return o["tmp_left"] > 0
    return None

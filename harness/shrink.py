"""Greedy shrinking of whole-compile cases (used off-line to minimise witnesses / corpus entries)."""
from __future__ import annotations

import copy
from typing import Any, Callable, Dict


def shrink(case: Dict[str, Any], pred: Callable[[Dict[str, Any]], bool], rounds: int = 6) -> Dict[str, Any]:
    cur = copy.deepcopy(case)
    for _ in range(rounds):
        changed = False
        for cand in variants(cur):
            try:
                ok = pred(cand)
            except Exception:
                ok = False
            if ok:
                cur = cand
                changed = True
                break
        if not changed:
            break
        # restart enumeration from the smaller case
        while True:
            progressed = False
            for cand in variants(cur):
                try:
                    ok = pred(cand)
                except Exception:
                    ok = False
                if ok:
                    cur = cand
                    progressed = True
                    break
            if not progressed:
                break
    return cur


def variants(c: Dict[str, Any]):
    # drop a project
    for p in list(c["universe"]):
        d = copy.deepcopy(c)
        del d["universe"][p]
        yield d
    # drop a candidate
    for p, cands in c["universe"].items():
        for i in range(len(cands)):
            if len(cands) > 1:
                d = copy.deepcopy(c)
                del d["universe"][p][i]
                yield d
    # drop a requirement of a candidate
    for p, cands in c["universe"].items():
        for i, (cn, v, reqs, *_rd) in enumerate(cands):
            for j in range(len(reqs)):
                d = copy.deepcopy(c)
                del d["universe"][p][i][2][j]
                yield d
    # drop an input file / an input requirement
    for i in range(len(c["inputs"])):
        if len(c["inputs"]) > 1:
            d = copy.deepcopy(c)
            del d["inputs"][i]
            yield d
        for j in range(len(c["inputs"][i][1])):
            if len(c["inputs"][i][1]) > 1:
                d = copy.deepcopy(c)
                del d["inputs"][i][1][j]
                yield d
    if c["constraints"] is not None:
        d = copy.deepcopy(c)
        d["constraints"] = None
        yield d
        for i in range(len(c["constraints"])):
            for j in range(len(c["constraints"][i][1])):
                if len(c["constraints"][i][1]) > 1:
                    d = copy.deepcopy(c)
                    del d["constraints"][i][1][j]
                    yield d
    # simplify requirement texts: drop marker, extras, specifier
    import re
    def simp(t: str):
        if ";" in t:
            yield t.split(";")[0].strip()
        m = re.match(r"^([A-Za-z]+)(\[[^\]]*\])?(.*)$", t.split(";")[0].strip())
        rest = (" ;" + t.split(";", 1)[1]) if ";" in t else ""
        if m:
            if m.group(2):
                yield m.group(1) + m.group(3) + rest
            if m.group(3):
                yield m.group(1) + (m.group(2) or "") + rest
                if "," in m.group(3):
                    for part in m.group(3).split(","):
                        yield m.group(1) + (m.group(2) or "") + part + rest
    for p, cands in c["universe"].items():
        for i, (cn, v, reqs, *_rd) in enumerate(cands):
            for j, t in enumerate(reqs):
                for t2 in simp(t):
                    d = copy.deepcopy(c)
                    d["universe"][p][i][2][j] = t2
                    yield d
            if not _rd[0]:
                d = copy.deepcopy(c)
                d["universe"][p][i][3] = True
                yield d
            if cn != p:
                d = copy.deepcopy(c)
                d["universe"][p][i][0] = p
                yield d
    for i, (n, reqs) in enumerate(c["inputs"]):
        for j, t in enumerate(reqs):
            for t2 in simp(t):
                d = copy.deepcopy(c)
                d["inputs"][i][1][j] = t2
                yield d
    for key, val in (("remove_constraints", False), ("allow_pre", False), ("max_downgrade", None)):
        if c[key] != val:
            d = copy.deepcopy(c)
            d[key] = val
            yield d

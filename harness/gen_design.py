"""DESIGN.md = DESIGN.template.md with Appendix A (theorems, findings) and section 8 (seeded changes) filled in.
Run: /venv/bin/python harness/gen_design.py"""
from __future__ import annotations

import glob
import json
import re
import sys
from pathlib import Path

sys.path.insert(0, str(Path(__file__).resolve().parent))
import common  # noqa: E402

V = common.VERIF


def appendix() -> str:
    kf = []
    for f in [V / "known_findings.json"] + sorted((V / "known_findings.d").glob("*.json")):
        kf += json.loads(Path(f).read_text())["findings"]
    out = []
    for i in range(1, 21):
        pid = f"C{i:02d}"
        text = common.strip_coq_comments((V / "coq" / "props" / f"{pid}.v").read_text())
        ths = re.findall(r"Print Assumptions\s+([\w']+)", text)
        out.append(f"**{pid}** — theorems ({len(ths)}): " + ", ".join(f"`{t}`" for t in ths))
        for e in kf:
            if e["property"] == pid:
                what = e["what"]
                what = what if len(what) < 260 else what[:257] + "..."
                tag = e["status"] + (f" in /repo {e['commit']}" if e.get("commit") else "")
                out.append(f"  - {tag} `{e['id']}`: {what}")
        out.append("")
    return "\n".join(out)


def seeded() -> str:
    rows = []
    summ = json.loads((V / "seeded" / "summary.json").read_text()) if (V / "seeded" / "summary.json").exists() else {}
    for f in sorted(glob.glob(str(V / "seeded" / "*" / "meta.json"))):
        m = json.loads(Path(f).read_text())
        if m["id"] in summ:
            m["breaks"], m["needs"] = summ[m["id"]]["breaks"], summ[m["id"]]["needs"]
            if summ[m["id"]].get("after"):
                m["result"] = (m.get("result", "") + " — " + summ[m["id"]]["after"])
        else:
            m["breaks"], m["needs"] = m.get("breaks", "")[:160], m.get("needs", "")[:120]
        rows.append(m)
    if not rows:
        return "(no seeded change has been evaluated yet)"
    out = ["| Seed | Property | Change | Needs | Caught by (quick) | Result |", "|---|---|---|---|---|---|"]
    for m in rows:
        out.append("| {id} | {prop} | {what} | {needs} | {by} | {res} |".format(
            id=m["id"], prop=m["property"], what=m["breaks"].replace("|", "/"), needs=m["needs"].replace("|", "/"),
            by=", ".join(m.get("caught_by", [])) or "—", res=m.get("result", "")))
    caught = sum(1 for m in rows if m.get("caught_by"))
    later = sum(1 for m in rows if not m.get("caught_by") and summ.get(m["id"], {}).get("after"))
    out.append("")
    out.append(f"{caught} of {len(rows)} kept seeded changes are reported by the quick check of the property they break in the recorded "
               f"evaluation; {later} more were missed at their first evaluation and are reported since the strengthening described in their row "
               f"(their patches no longer apply to, or are neutralised by, the repaired /repo, so the recorded run could not be repeated); "
               f"{len(rows) - caught - later} remain unreported.")
    return "\n".join(out)


def benign() -> str:
    rows = [json.loads(Path(f).read_text()) for f in sorted(glob.glob(str(V / "benign" / "*" / "meta.json")))]
    if not rows:
        return "(no harmless change has been evaluated yet)"
    summ = json.loads((V / "benign" / "summary.json").read_text()) if (V / "benign" / "summary.json").exists() else {}
    out = ["| Change | Property | What it does | Outcome of the quick check | Note |", "|---|---|---|---|---|"]
    n = {"PASS": 0, "NFIF": 0, "ALARM": 0, "ERROR": 0}
    for m in rows:
        cls = "; ".join(f"{c}: {r['class']}" for c, r in m.get("checks", {}).items())
        for r in m.get("checks", {}).values():
            n[r["class"]] = n.get(r["class"], 0) + 1
        s = summ.get(m["id"], {})
        out.append("| {id} | {p} | {w} | {c} | {note} |".format(id=m["id"], p=m["property"],
                   w=(s.get("what") or m.get("what", ""))[:200].replace("|", "/"), c=cls, note=s.get("note", "")))
    out.append("")
    first_alarm = sum(1 for m in rows if str(summ.get(m["id"], {}).get("note", "")).startswith("first evaluation: ALARM"))
    out.append(f"{len(rows)} harmless changes, outcome of the recorded (latest) evaluation: {n['PASS']} pass, {n['NFIF']} end as `VIOLATION … "
               f"no-failing-input-found` (the tie could not follow the rewrite and the search found nothing - the outcome the interface prescribes), "
               f"{n['ALARM']} name a concrete \"failing input\", {n['ERROR']} errors.  {first_alarm} of them had produced a concrete \"failing input\" "
               f"at their first evaluation - false alarms of the machinery, described in their rows, corrected, and re-evaluated.")
    return "\n".join(out)


def all_findings():
    out = []
    for f in [V / "known_findings.json"] + sorted((V / "known_findings.d").glob("*.json")):
        d = json.loads(f.read_text())
        out += d["findings"] if isinstance(d, dict) else d
    return out


def repairs() -> str:
    import subprocess
    log = subprocess.run(["git", "-C", "/repo", "log", "--reverse", "--grep", "^fix:", "--format=%h\t%s"], capture_output=True, text=True).stdout.strip().split("\n")
    by_commit = {}
    for e in all_findings():
        if e.get("status") == "fixed" and e.get("commit"):
            by_commit.setdefault(e["commit"][:7], set()).add(e["property"])
    legacy = {"ca4e69e": {"C18"}, "c54d5f0": {"C20"}, "147f414": {"C13"}, "8cae042": {"C15"}, "0267ed8": {"C15", "C09"}, "8ac3bda": {"C01", "C09"},
              "668e668": {"C07", "C17", "C10"}, "371114e": {"C01", "C02", "C08"}}
    rows = ["| Commit | Properties | Subject of the `fix:` commit |", "|---|---|---|"]
    for ln in log:
        if not ln.strip():
            continue
        h, subj = ln.split("\t", 1)
        props = sorted(by_commit.get(h[:7], set()) | legacy.get(h[:7], set()))
        rows.append(f"| `{h}` | {' '.join(props) or '—'} | {subj[5:].strip()} |")
    return "\n".join(rows)


def main() -> None:
    t = (V / "DESIGN.template.md").read_text()
    fs = all_findings()
    t = t.replace("@APPENDIX@", appendix()).replace("@SEEDED@", seeded()).replace("@REPAIRS@", repairs()).replace("@BENIGN@", benign())
    t = t.replace("@NKNOWN@", str(sum(1 for e in fs if e.get("status") == "known"))).replace("@NFIXED@", str(sum(1 for e in fs if e.get("status") == "fixed")))
    (V / "DESIGN.md").write_text(t)
    print("DESIGN.md written")


if __name__ == "__main__":
    main()

"""DESIGN.md = DESIGN.template.md with Appendix A (theorems, findings) and section 8 (seeded changes) filled in.
Run: /venv/bin/python harness/gen_design.py"""
from __future__ import annotations

import glob
import json
import re
import sys
from pathlib import Path

sys.path.insert(0, str(Path(__file__).resolve().parent))
import common  # noqa: E402

V = common.VERIF


def appendix() -> str:
    kf = []
    for f in [V / "known_findings.json"] + sorted((V / "known_findings.d").glob("*.json")):
        kf += json.loads(Path(f).read_text())["findings"]
    out = []
    for i in range(1, 21):
        pid = f"C{i:02d}"
        text = common.strip_coq_comments((V / "coq" / "props" / f"{pid}.v").read_text())
        ths = re.findall(r"Print Assumptions\s+([\w']+)", text)
        out.append(f"**{pid}** — theorems ({len(ths)}): " + ", ".join(f"`{t}`" for t in ths))
        for e in kf:
            if e["property"] == pid:
                what = e["what"]
                what = what if len(what) < 260 else what[:257] + "..."
                tag = e["status"] + (f" in /repo {e['commit']}" if e.get("commit") else "")
                out.append(f"  - {tag} `{e['id']}`: {what}")
        out.append("")
    return "\n".join(out)


def seeded() -> str:
    rows = []
    summ = json.loads((V / "seeded" / "summary.json").read_text()) if (V / "seeded" / "summary.json").exists() else {}
    for f in sorted(glob.glob(str(V / "seeded" / "*" / "meta.json"))):
        m = json.loads(Path(f).read_text())
        if m["id"] in summ:
            m["breaks"], m["needs"] = summ[m["id"]]["breaks"], summ[m["id"]]["needs"]
        else:
            m["breaks"], m["needs"] = m.get("breaks", "")[:160], m.get("needs", "")[:120]
        rows.append(m)
    if not rows:
        return "(no seeded change has been evaluated yet)"
    out = ["| Seed | Property | Change | Needs | Caught by (quick) | Result |", "|---|---|---|---|---|---|"]
    for m in rows:
        out.append("| {id} | {prop} | {what} | {needs} | {by} | {res} |".format(
            id=m["id"], prop=m["property"], what=m["breaks"].replace("|", "/"), needs=m["needs"].replace("|", "/"),
            by=", ".join(m.get("caught_by", [])) or "—", res=m.get("result", "")))
    caught = sum(1 for m in rows if m.get("caught_by"))
    out.append("")
    out.append(f"{caught} of {len(rows)} kept seeded changes are reported by the quick check of the property they break.")
    return "\n".join(out)


def main() -> None:
    t = (V / "DESIGN.template.md").read_text()
    t = t.replace("@APPENDIX@", appendix()).replace("@SEEDED@", seeded())
    (V / "DESIGN.md").write_text(t)
    print("DESIGN.md written")


if __name__ == "__main__":
    main()

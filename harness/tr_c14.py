"""T1 readers for C14 (fail-closed).

Technique: for every anchored function we compute a *skeleton* -- the function's AST with
every str/int literal replaced by a numbered hole K<i> and the docstring removed, unparsed
to text -- and the list of literals in traversal order.  The skeleton must equal the one
recorded here (any structural change of the anchored code = TranslateError = broken
obligation, after which the violation search looks for a concrete failing input); the
literals become Coq definitions in gen/ConstsC14.v, which the models and theorems use.
The OPS table is read as (key, comparison operator of the lambda body)."""
from __future__ import annotations

import ast
import copy
import re
from typing import Any, Dict, List, Tuple

import translate as T
from translate import TranslateError


def skeleton(fn: ast.AST) -> Tuple[str, List[Any]]:
    fn = copy.deepcopy(fn)
    consts: List[Any] = []
    body = getattr(fn, "body", None)
    if isinstance(body, list) and body and isinstance(body[0], ast.Expr) and isinstance(body[0].value, ast.Constant) \
            and isinstance(body[0].value.value, str):
        fn.body = body[1:]

    class Tr(ast.NodeTransformer):
        def visit_Constant(self, n: ast.Constant) -> ast.AST:
            if isinstance(n.value, (str, int)) and not isinstance(n.value, bool):
                consts.append(n.value)
                return ast.copy_location(ast.Name(id="K%d" % (len(consts) - 1), ctx=ast.Load()), n)
            return n

    fn = Tr().visit(fn)
    ast.fix_missing_locations(fn)
    return ast.unparse(fn), consts


SK: Dict[str, str] = {}

SK["filename_to_candidate"] = '''def filename_to_candidate(source: Any, filename: str) -> Optional[Candidate]:
    _, ext = os.path.splitext(filename)
    ext = ext.lower()
    if ext == K0:
        return None
    if ext == K1:
        return _wheel_filename_to_candidate(source, filename)
    if ext in (K2, K3, K4, K5, K6):
        if K7 in filename or K8 in filename or K9 in filename:
            return None
        return _tar_gz_filename_to_candidate(source, filename)
    return None'''

SK["_wheel_filename_to_candidate"] = '''def _wheel_filename_to_candidate(source: Any, filename: str) -> Optional[Candidate]:
    filename = os.path.basename(filename)
    data_parts = filename[:-K0].split(K1)
    if len(data_parts) < K2:
        logging.getLogger(K3).debug(K4, filename)
        return None
    has_build_tag = len(data_parts) == K5
    build_tag = K6
    if has_build_tag:
        build_tag = data_parts.pop(K7)
    name = data_parts[K8]
    abi = data_parts[K9]
    try:
        version = parse_version(data_parts[K10].replace(K11, K12))
    except Exception:
        return None
    plats = data_parts[K13].split(K14)
    requires_python = WheelVersionTags(tuple(data_parts[K15].split(K16)))
    return Candidate(name, filename, version, requires_python, abi if abi != K17 else None, plats, source, candidate_type=DistributionType.WHEEL, extra_sort_info=build_tag)'''

SK["_tar_gz_filename_to_candidate"] = '''def _tar_gz_filename_to_candidate(source: Tuple[str, str], filename: str) -> Candidate:
    name, version = parse_source_filename(os.path.basename(filename))
    if version is None:
        version = parse_version(K0)
    return Candidate(name, os.path.basename(filename), version, py_version=None, abi=None, plats=K1, link=source, candidate_type=DistributionType.SDIST)'''

SK["parse_source_filename"] = '''def parse_source_filename(full_filename: str) -> Tuple[str, Optional[packaging.version.Version]]:
    filename = full_filename
    for ext in (K0, K1, K2, K3):
        if filename.endswith(ext):
            filename = filename[:-len(ext)]
            break
    if full_filename == filename:
        return (full_filename, None)
    filename = filename.replace(K4, K5)
    dash_parts = filename.split(K6)
    version_start = None
    for idx, part in enumerate(dash_parts):
        if not part:
            continue
        if (idx != K7 and idx >= len(dash_parts) - K8) and (part[K9].isdigit() or (len(part) > K10 and part[K11].lower() == K12 and part[K13].isdigit())):
            if idx == len(dash_parts) - K14 and K15 in dash_parts[idx + K16] and (K17 not in part or re.sub(K18, K19, part)):
                continue
            version_start = idx
            break
    if version_start is None:
        return (os.path.basename(filename), None)
    if version_start == K20:
        raise ValueError(K21.format(full_filename))
    pkg_name = K22.join(dash_parts[:version_start])
    version_str = K23.join(dash_parts[version_start:]).replace(K24, K25)
    version_str, plus, local_label = version_str.partition(K26)
    version_parts = version_str.split(K27)
    for idx, part in enumerate(version_parts):
        if idx != K28 and (part.startswith(K29) or part.startswith(K30) or part.startswith(K31)):
            version_parts = version_parts[:idx]
            break
    try:
        version = utils.parse_version(K32.join(version_parts) + plus + local_label)
    except Exception:
        version = None
    return (pkg_name, version)'''

SK["check_python_compatibility"] = '''def check_python_compatibility(requires_python: str) -> bool:
    if requires_python is None:
        return True
    try:
        return all((_check_py_constraint(part) for part in requires_python.split(K0) if part.strip()))
    except ValueError:
        raise ValueError(K1.format(requires_python))'''

SK["_check_py_constraint"] = '''def _check_py_constraint(version_constraint: str) -> bool:
    ref_version = SYS_PY_VERSION
    version_part = re.split(K0, version_constraint)[-K1].strip()
    operator = version_constraint.replace(version_part, K2).strip()
    if version_part and (not operator):
        operator = K3
    dotted_parts = len(version_part.split(K4))
    if version_part.endswith(K5):
        version_part = version_part.replace(K6, K7)
        if dotted_parts == K8:
            ref_version = SYS_PY_MAJOR_MINOR
        elif dotted_parts == K9:
            ref_version = SYS_PY_MAJOR
    elif dotted_parts == K10:
        ref_version = SYS_PY_MAJOR_MINOR
    elif dotted_parts == K11:
        ref_version = SYS_PY_MAJOR_MINOR
        version_part += K12
    version = pkg_resources.parse_version(version_part)
    if operator == K13:
        major_num = int(str(version_part).split(K14, maxsplit=K15)[K16])
        equivalent_check = K17.format(version_part, major_num + K18)
        return check_python_compatibility(equivalent_check)
    try:
        return OPS[operator](ref_version, version)
    except KeyError:
        raise ValueError(K19.format(version_constraint))'''

SK["handle_starttag"] = '''def handle_starttag(self, tag: str, attrs: List[Tuple[str, Optional[str]]]) -> None:
    if tag == K0:
        self.active_link = None
        self.active_skip = False
        requires_python = None
        for attr in attrs:
            if attr[K1] == K2:
                self.active_link = (self.url, attr[K3])
            elif attr[K4] == K5 or attr[K6] == K7:
                requires_python = attr[K8]
        if requires_python:
            try:
                self.active_skip = not check_python_compatibility(requires_python)
            except ValueError:
                LOG.error(K9, requires_python, self.active_link)'''

SK["handle_endtag"] = '''def handle_endtag(self, tag: str) -> None:
    if tag == K0:
        self.active_link = None'''

SK["handle_data"] = '''def handle_data(self, data: str) -> None:
    if self.active_link is None or self.active_skip:
        return
    candidate = filename_to_candidate(self.active_link, data)
    if candidate is not None:
        self.dists.append(candidate)'''

SK["LinksHTMLParser.__init__"] = '''def __init__(self, url: str) -> None:
    super().__init__()
    self.url = url
    self.dists: List[Candidate] = []
    self.active_link: Optional[Tuple[str, Optional[str]]] = None
    self.active_skip = False
    warnings.filterwarnings(K0, category=pkg_resources.PkgResourcesDeprecationWarning)'''

SK["PyPIRepository.resolve_candidate"] = '''@overrides
def resolve_candidate(self, candidate: Candidate) -> Tuple[RequirementContainer, bool]:
    filename, cached = (None, True)
    try:
        if candidate.filename is None:
            raise ValueError(K0)
        filename, cached = _do_download(self.logger, candidate.filename, candidate.link, self.session, self.wheeldir)
        dist_info = extract_metadata(filename, origin=self)
        _, resource = candidate.link
        if K1 in resource:
            _, _, hash_pair = resource.partition(K2)
            dist_info.hash = hash_pair.replace(K3, K4)
        return (dist_info, cached)
    except CLEANUP_EXC:
        if not cached and filename is not None:
            try:
                os.remove(filename)
            except EnvironmentError:
                pass
        raise'''

SK["_find_all_links"] = '''def _find_all_links(self) -> None:
    if not os.path.exists(self.path):
        raise RepositoryInitializationError(FindLinksRepository, K0.format(self.path))
    for filename in os.listdir(self.path):
        full_path = os.path.join(self.path, filename)
        candidate = req_compile.repos.repository.filename_to_candidate((str(self.relative_path) if self.relative_path else self.path, os.path.join(self.relative_path or self.path, filename)), full_path)
        if candidate is not None:
            self.links.append(candidate)'''

SK["FindLinksRepository.resolve_candidate"] = '''@overrides
def resolve_candidate(self, candidate: Candidate) -> Tuple[RequirementContainer, bool]:
    if candidate.filename is None:
        raise ValueError(K0.format(candidate))
    filename = os.path.join(self.path, candidate.filename)
    hasher = sha256()
    dist_info = req_compile.metadata.extract_metadata(filename, origin=self)
    with open(filename, K1) as handle:
        while True:
            block = handle.read(K2)
            if not block:
                break
            hasher.update(block)
    dist_info.hash = K3 + hasher.hexdigest()
    return (dist_info, True)'''


SK["_do_download"] = '''def _do_download(logger: logging.Logger, filename: str, link: Tuple[str, str], session: requests.Session, wheeldir: str) -> Tuple[str, bool]:
    url, resource = link
    split_link = resource.split(K0)
    if len(split_link) > K1:
        sha = split_link[K2]
    else:
        sha = None
    output_file = os.path.join(wheeldir, filename)
    if REUSE_OUTER:
        hasher = sha256()
        with open(output_file, K3) as handle:
            while True:
                block = handle.read(K4)
                if not block:
                    break
                hasher.update(block)
        if REUSE_INNER:
            logger.info(K5, output_file)
            return (output_file, True)
        logger.debug(K6)
        os.remove(output_file)
    else:
        logger.debug(K7)
    full_link = urllib.parse.urljoin(url, resource)
    logger.info(K8, full_link, output_file)
    if session is None:
        session = requests
    response = session.get(full_link, stream=True)
    with open(output_file, K9) as handle:
        for block in response.iter_content(K10 * K11):
            handle.write(block)
    return (output_file, False)'''


# ---- comparing normalised with normalised (T1_NORMALIZE.md) --------------------------------------------------------

def _template(name: str) -> Tuple[ast.AST, List[int]]:
    """The recorded shape, normalised like the source (T.parse_src: no annotations / docstrings / effect-free log lines),
    with its holes renumbered in traversal order; returns (function, old hole number of every remaining hole)."""
    mod = T.parse_src(SK[name], filename=f"<recorded shape of {name}>")
    fns = [n for n in mod.body if isinstance(n, (ast.FunctionDef, ast.AsyncFunctionDef))]
    if len(fns) != 1:
        raise TranslateError(f"recorded shape of {name} is not one function")
    return fns[0], []


def _renumber(fn: ast.AST) -> Tuple[str, List[int]]:
    olds: List[int] = []

    class Rn(ast.NodeTransformer):
        def visit_Name(self, n: ast.Name) -> ast.AST:
            m = re.fullmatch(r"K(\d+)", n.id)
            if m:
                olds.append(int(m.group(1)))
                return ast.copy_location(ast.Name(id="K%d" % (len(olds) - 1), ctx=n.ctx), n)
            return n

    fn = Rn().visit(copy.deepcopy(fn))
    ast.fix_missing_locations(fn)
    return ast.unparse(fn), olds


# the state of LinksHTMLParser the Gallina model (model/IndexPageC14.v: pstate) transcribes
PARSER_STATE = {"url", "dists", "active_link", "active_skip"}
PARSER_METHODS = {"LinksHTMLParser.__init__", "handle_starttag", "handle_endtag", "handle_data"}
_PURE_METHODS = {"strip", "lstrip", "rstrip", "lower", "upper", "startswith", "endswith", "get"}


def _pure_test(e: ast.AST) -> bool:
    if T._pure(e):
        return True
    if isinstance(e, ast.UnaryOp) and isinstance(e.op, ast.Not):
        return _pure_test(e.operand)
    if isinstance(e, ast.BoolOp):
        return all(_pure_test(v) for v in e.values)
    if isinstance(e, ast.Call) and isinstance(e.func, ast.Attribute) and e.func.attr in _PURE_METHODS and not e.keywords:
        return _pure_test(e.func.value) and all(T._pure(a) for a in e.args)
    return False


def _self_attr_root(e: ast.AST) -> Any:
    """X for an expression rooted at self.X (self.X, self.X.y, self.X[i]); None otherwise"""
    while isinstance(e, (ast.Attribute, ast.Subscript)):
        if isinstance(e, ast.Attribute) and isinstance(e.value, ast.Name) and e.value.id == "self":
            return e.attr
        e = e.value
    return None


def _drop_unmodelled(fn: ast.AST) -> None:
    """Statements that cannot touch the modelled parser state: `pass`; assignments of effect-free values to attributes of self
    outside PARSER_STATE or to locals nothing else reads; method calls on such attributes with effect-free arguments
    (book-keeping lists); `if <effect-free test>:` around only such statements.  Then trailing parameters with a default that
    nothing uses any more.  (Anything writing url/dists/active_link/active_skip, calling into other code, raising or returning
    stays and must match the recorded shape.)"""
    needed: set = set()
    for _ in range(20):
        work = copy.deepcopy(fn)
        local_writes: List[str] = []

        def irrelevant(st: ast.stmt) -> bool:
            if isinstance(st, ast.Pass):
                return True
            if isinstance(st, ast.Assign) and _pure_test(st.value):
                names = []
                for t in st.targets:
                    root = _self_attr_root(t)
                    if root is not None and root not in PARSER_STATE:
                        continue
                    if isinstance(t, ast.Name) and t.id not in needed:
                        names.append(t.id)
                        continue
                    return False
                local_writes.extend(names)
                return True
            if isinstance(st, ast.Expr) and isinstance(st.value, ast.Call) and isinstance(st.value.func, ast.Attribute):
                f = st.value.func
                if f.attr in T.LOG_METHODS and ast.unparse(f.value) in ("LOG", "logger", "logging", "self.logger") \
                        and all(_pure_test(a) for a in st.value.args) and all(_pure_test(k.value) for k in st.value.keywords):
                    return True       # a log line whose arguments only apply str methods to effect-free values
                root = _self_attr_root(st.value.func.value)
                return root is not None and root not in PARSER_STATE and all(T._pure(a) for a in st.value.args) and not st.value.keywords
            if isinstance(st, ast.If) and _pure_test(st.test):
                return all(irrelevant(x) for x in st.body) and all(irrelevant(x) for x in st.orelse)
            return False

        def clean(body: List[ast.stmt]) -> List[ast.stmt]:
            out = []
            for st in body:
                before = len(local_writes)
                if not isinstance(st, ast.Pass) and irrelevant(st):
                    continue
                del local_writes[before:]
                for field in ("body", "orelse", "finalbody"):
                    b = getattr(st, field, None)
                    if isinstance(b, list) and b and isinstance(b[0], ast.stmt):
                        nb = [x for x in clean(b) if not isinstance(x, ast.Pass)]
                        setattr(st, field, nb if (nb or field != "body") else [ast.Pass()])
                for h in getattr(st, "handlers", []) or []:
                    h.body = [x for x in clean(h.body) if not isinstance(x, ast.Pass)] or [ast.Pass()]
                out.append(st)
            return out

        kept = [st for st in clean(list(work.body)) if not isinstance(st, ast.Pass)] or [ast.Pass()]
        used = {n.id for st in kept for n in ast.walk(st) if isinstance(n, ast.Name)}
        clash = {w for w in local_writes if w in used}
        if clash:                 # a dropped local is read by statements that stay: it is not droppable
            needed |= clash
            continue
        fn.body = kept
        a = fn.args
        while a.args and a.defaults and a.args[-1].arg not in used and not a.kwonlyargs and a.vararg is None and a.kwarg is None:
            a.args.pop()
            a.defaults.pop()
        return
    raise TranslateError("could not separate modelled from unmodelled statements")


def _match(rel: str, name: str, fn: ast.AST) -> List[Any]:
    """fn: the current (normalised) function, already adjusted by the caller.  Compares with the recorded shape and returns
    the literals indexed by the RECORDED hole numbers (None for holes that only occurred in log lines)."""
    tmpl, _ = _template(name)
    if name in PARSER_METHODS:
        _drop_unmodelled(fn)
        _drop_unmodelled(tmpl)
    text, consts = skeleton(fn)
    want, olds = _renumber(tmpl)
    if text.strip() != want.strip() or len(olds) != len(consts):
        import difflib
        d = "\n".join(list(difflib.unified_diff(want.strip().split("\n"), text.strip().split("\n"), "expected", "current", lineterm=""))[:40])
        raise TranslateError(f"{rel}:{name}: the code's shape changed, the Gallina model no longer transcribes it:\n{d}")
    out: List[Any] = [None] * (max(olds) + 1 if olds else 0)
    for new_i, old_i in enumerate(olds):
        out[old_i] = consts[new_i]
    total = len(re.findall(r"\bK\d+\b", SK[name]))
    out += [None] * max(0, total - len(out))
    return out


def _dl_cond(node: ast.expr) -> str:
    """The two tests of _do_download that decide whether a file in the wheel directory is reused,
    as a boolean expression over: a digest is advertised / the file exists / its digest matches."""
    if isinstance(node, ast.BoolOp) and isinstance(node.op, (ast.And, ast.Or)) and len(node.values) >= 2:
        c = "DAnd" if isinstance(node.op, ast.And) else "DOr"
        parts = [_dl_cond(v) for v in node.values]
        acc = parts[-1]
        for x in reversed(parts[:-1]):
            acc = f"({c} {x} {acc})"
        return acc
    if isinstance(node, ast.UnaryOp) and isinstance(node.op, ast.Not):
        return f"(DNot {_dl_cond(node.operand)})"
    u = ast.unparse(node)
    table = {"sha is not None": "DHasSha", "sha is None": "(DNot DHasSha)", "sha": "DHasSha",
             "os.path.exists(output_file)": "DExists", "os.path.isfile(output_file)": "DExists",
             "hasher.hexdigest() == sha": "DMatch", "sha == hasher.hexdigest()": "DMatch",
             "hasher.hexdigest() != sha": "(DNot DMatch)", "sha != hasher.hexdigest()": "(DNot DMatch)"}
    if u in table:
        return table[u]
    raise TranslateError(f"_do_download: unrecognised reuse condition `{u}`")


def read_do_download() -> Tuple[List[Any], str, str]:
    fn = copy.deepcopy(T.func(T.parse("req_compile/repos/pypi.py"), "_do_download"))
    ifs = [st for st in fn.body if isinstance(st, ast.If)]
    if len(ifs) != 3:
        raise TranslateError(f"_do_download: expected three top-level if statements, found {len(ifs)}")
    outer = ifs[1]
    inner = [st for st in outer.body if isinstance(st, ast.If)]
    if len(inner) != 1:
        raise TranslateError("_do_download: expected one if statement in the reuse branch")
    c_outer, c_inner = _dl_cond(outer.test), _dl_cond(inner[0].test)
    outer.test = ast.Name(id="REUSE_OUTER", ctx=ast.Load())
    inner[0].test = ast.Name(id="REUSE_INNER", ctx=ast.Load())
    # the error path of the transfer (C15's side) is not part of this model: a status check may be present
    fn.body = [st for st in fn.body if not (isinstance(st, ast.Expr) and ast.unparse(st) == "response.raise_for_status()")]
    consts = _match("req_compile/repos/pypi.py", "_do_download", fn)
    return consts, c_outer, c_inner


def _fn(mod: ast.AST, name: str) -> ast.AST:
    if "." in name:
        cls, meth = name.split(".")
        return T.func(T.klass(mod, cls), meth)
    return T.func(mod, name)


def read(rel: str, name: str) -> List[Any]:
    fn = copy.deepcopy(_fn(T.parse(rel), name))
    if name == "PyPIRepository.resolve_candidate":
        # which exceptions trigger the removal of a fresh download is C15's side: MetadataError or any Exception
        for node in ast.walk(fn):
            if isinstance(node, ast.ExceptHandler) and node.type is not None and ast.unparse(node.type) in ("MetadataError", "Exception") \
                    and any(isinstance(x, ast.Raise) and x.exc is None for x in node.body):
                node.type = ast.Name(id="CLEANUP_EXC", ctx=ast.Load())
    consts = _match(rel, name, fn)
    return consts


CMP = {ast.Lt: "Lt", ast.Gt: "Gt", ast.Eq: "Eq", ast.NotEq: "Ne", ast.GtE: "Ge", ast.LtE: "Le"}


def read_ops() -> List[Tuple[str, str]]:
    node = T.module_const(T.parse("req_compile/repos/pypi.py"), "OPS")
    if not isinstance(node, ast.Dict):
        raise TranslateError("OPS is not a dict literal")
    out = []
    for k, v in zip(node.keys, node.values):
        key = T.literal(k)
        if not isinstance(key, str):
            raise TranslateError("OPS key is not a string")
        if not (isinstance(v, ast.Lambda) and [a.arg for a in v.args.args] == ["x", "y"] and isinstance(v.body, ast.Compare)
                and len(v.body.ops) == 1 and isinstance(v.body.left, ast.Name) and v.body.left.id == "x"
                and isinstance(v.body.comparators[0], ast.Name) and v.body.comparators[0].id == "y"
                and type(v.body.ops[0]) in CMP):
            raise TranslateError("OPS value is not `lambda x, y: x <cmp> y`: " + ast.unparse(v))
        out.append((key, CMP[type(v.body.ops[0])]))
    if len({k for k, _ in out}) != len(out):
        raise TranslateError("duplicate OPS key")
    return out


def read_sys_consts() -> None:
    """SYS_PY_* are patched by the harness; pin how they are derived (three parse_version calls)."""
    mod = T.parse("req_compile/repos/pypi.py")
    want = {
        "SYS_PY_VERSION": "pkg_resources.parse_version(sys.version.split(' ', 1)[0].replace('+', ''))",
        "SYS_PY_MAJOR": "pkg_resources.parse_version('{}'.format(sys.version_info.major))",
        "SYS_PY_MAJOR_MINOR": "pkg_resources.parse_version('{}.{}'.format(sys.version_info.major, sys.version_info.minor))",
    }
    for k, w in want.items():
        got = ast.unparse(T.module_const(mod, k))
        if got != w:
            raise TranslateError(f"{k} is derived differently: {got}")


def read_page_base() -> str:
    """Which address does _scan_page_links hand to the page parser as the base of the page's links?  `response.url` (the
    address of the page that was served, after any redirect) -> PBResponseUrl; an expression that does not mention the
    response (the address that was asked for) -> PBAskedUrl; anything else is not understood."""
    fn = _fn(T.parse("req_compile/repos/pypi.py"), "_scan_page_links")
    resp = [n for n in ast.walk(fn) if isinstance(n, ast.Assign) and len(n.targets) == 1
            and isinstance(n.targets[0], ast.Name) and n.targets[0].id == "response"]
    _need(len(resp) == 1 and isinstance(resp[0].value, ast.Call) and isinstance(resp[0].value.func, ast.Attribute)
          and resp[0].value.func.attr == "get", "_scan_page_links: `response` is not assigned once from a .get(...) call")
    mk = [n for n in ast.walk(fn) if isinstance(n, ast.Call) and isinstance(n.func, ast.Name) and n.func.id == "LinksHTMLParser"]
    _need(len(mk) == 1 and len(mk[0].args) == 1 and not mk[0].keywords, "_scan_page_links: not exactly one LinksHTMLParser(<base>) call")
    asg = [n for n in ast.walk(fn) if isinstance(n, ast.Assign) and n.value is mk[0]]
    _need(len(asg) == 1 and isinstance(asg[0].targets[0], ast.Name), "_scan_page_links: the parser is not bound to a name")
    pname = asg[0].targets[0].id
    last = fn.body[-1]
    _need(isinstance(last, ast.Return) and last.value is not None and ast.unparse(last.value) == pname + ".dists",
          "_scan_page_links does not return the parser's dists")
    feeds = [n for n in ast.walk(fn) if isinstance(n, ast.Call) and ast.unparse(n.func) == pname + ".feed"]
    _need(len(feeds) == 1 and len(feeds[0].args) == 1 and ast.unparse(feeds[0].args[0]).startswith("response.content"),
          "_scan_page_links: the parser is not fed the response's content once")
    expr = mk[0].args[0]
    params = {a.arg for a in fn.args.args}
    for _ in range(4):      # a local name bound once stands for the expression it was bound to
        if not (isinstance(expr, ast.Name) and expr.id not in params and expr.id != "response"):
            break
        binds = [n for n in ast.walk(fn) if isinstance(n, ast.Assign) and len(n.targets) == 1
                 and isinstance(n.targets[0], ast.Name) and n.targets[0].id == expr.id]
        _need(len(binds) == 1, f"_scan_page_links: the link base {expr.id!r} is not bound exactly once")
        expr = binds[0].value
    base = ast.unparse(expr)
    if base == "response.url":
        return "PBResponseUrl"
    names = {n.id for n in ast.walk(expr) if isinstance(n, ast.Name)}
    local = {n.targets[0].id for n in ast.walk(fn) if isinstance(n, ast.Assign) and len(n.targets) == 1 and isinstance(n.targets[0], ast.Name)}
    _need("response" not in names and not ((names & local) - {"url"}),
          f"_scan_page_links: link base {base!r} is derived from the response or from locals in a way that is not understood")
    return "PBAskedUrl"


def _need(cond: bool, what: str) -> None:
    if not cond:
        raise TranslateError(what)


def _chr(s: Any, what: str) -> str:
    _need(isinstance(s, str) and len(s) == 1, f"{what}: expected a one-character string, got {s!r}")
    return T.coq_str(s) + "%char"


def _strs(xs: List[Any]) -> str:
    for x in xs:
        _need(isinstance(x, str), f"expected string literal, got {x!r}")
    return T.coq_list([T.coq_str(x) for x in xs])


def _nat(n: Any, what: str) -> str:
    _need(isinstance(n, int) and 0 <= n < 1000, f"{what}: expected a small natural, got {n!r}")
    return str(n) + "%nat"


def gen_consts() -> Tuple[str, Dict[str, Any]]:
    REPO_PY = "req_compile/repos/repository.py"
    PYPI = "req_compile/repos/pypi.py"
    info: Dict[str, Any] = {}
    out = [T.HEADER, "Open Scope string_scope.\n"]

    def d(name: str, typ: str, val: str) -> None:
        out.append(f"Definition {name} : {typ} := {val}.\n")

    # --- filename_to_candidate
    k = read(REPO_PY, "filename_to_candidate")
    d("egg_ext", "string", T.coq_str(k[0]))
    d("wheel_ext", "string", T.coq_str(k[1]))
    d("sdist_exts", "list string", _strs(k[2:7]))
    d("dumb_markers", "list string", _strs(k[7:10]))
    info["exts"] = {"egg": k[0], "wheel": k[1], "sdist": k[2:7], "dumb": k[7:10]}
    # --- wheel
    k = read(REPO_PY, "_wheel_filename_to_candidate")
    d("whl_strip", "nat", _nat(k[0], "filename[:-n]"))
    d("whl_sep", "ascii", _chr(k[1], "wheel separator"))
    d("whl_min_parts", "nat", _nat(k[2], "minimum parts"))
    d("whl_build_parts", "nat", _nat(k[5], "parts with build tag"))
    d("whl_no_build", "string", T.coq_str(k[6]))
    d("whl_build_idx", "nat", _nat(k[7], "pop index"))
    d("whl_name_idx", "nat", _nat(k[8], "name index"))
    d("whl_abi_idx", "nat", _nat(k[9], "abi index"))
    d("whl_ver_idx", "nat", _nat(k[10], "version index"))
    d("whl_ver_repl", "ascii * ascii", f"({_chr(k[11], 'replace')}, {_chr(k[12], 'replace')})")
    d("whl_plat_idx", "nat", _nat(k[13], "platform index"))
    d("whl_plat_sep", "ascii", _chr(k[14], "platform separator"))
    d("whl_py_idx", "nat", _nat(k[15], "python tag index"))
    d("whl_py_sep", "ascii", _chr(k[16], "python tag separator"))
    d("whl_abi_none", "string", T.coq_str(k[17]))
    # --- sdist
    k = read(REPO_PY, "_tar_gz_filename_to_candidate")
    d("missing_version", "string", T.coq_str(k[0]))
    d("sdist_plat", "string", T.coq_str(k[1]))
    info["missing_version"] = k[0]
    k = read("req_compile/filename.py", "parse_source_filename")
    d("src_exts", "list string", _strs(k[0:4]))
    _need((k[4], k[5]) == (k[24], k[25]), "the two underscore replacements differ")
    d("src_us_repl", "ascii * ascii", f"({_chr(k[4], 'replace')}, {_chr(k[5], 'replace')})")
    _need(k[6] == k[22] == k[23] and isinstance(k[6], str) and len(k[6]) == 1, "dash split/join separators differ")
    d("src_dash", "ascii", _chr(k[6], "dash"))
    _need(k[7] == 0 and k[9] == 0 and k[11] == 0 and k[10] == 1 and k[13] == 1 and k[16] == 1 and k[20] == 0 and k[28] == 0,
          "index constants of parse_source_filename changed")
    d("src_window", "nat", _nat(k[8], "window"))
    _need(isinstance(k[12], str) and len(k[12]) == 1 and k[12] == k[12].lower(), "v-prefix literal")
    d("src_vchar", "ascii", _chr(k[12], "v prefix"))
    d("src_lookahead", "nat", _nat(k[14], "lookahead position"))
    _need(k[15] == k[17] == k[27] == k[32] == ".", "dot literals of parse_source_filename changed")
    _need(k[18] == "[\\d.]+" and k[19] == "", "the digits-and-dots regex changed")
    d("src_local_sep", "ascii", _chr(k[26], "local version separator"))
    d("src_plat_prefixes", "list string", _strs(k[29:32]))
    info["src_exts"] = list(k[0:4])
    # --- requires-python
    k = read(PYPI, "check_python_compatibility")
    d("rp_comma", "ascii", _chr(k[0], "comma"))
    k = read(PYPI, "_check_py_constraint")
    m = re.fullmatch(r"\[([^\]\[\\^-]+)\]", k[0]) if isinstance(k[0], str) else None
    _need(m is not None, f"operator character class not of the form [chars]: {k[0]!r}")
    _need(k[1] == 1, "re.split(...)[-1] index changed")
    d("rp_op_chars", "string", T.coq_str(m.group(1)))
    _need(k[2] == "", "operator extraction replacement is not the empty string")
    d("rp_default_op", "string", T.coq_str(k[3]))
    d("rp_dot", "ascii", _chr(k[4], "dot"))
    d("rp_wild_suffix", "string", T.coq_str(k[5]))
    d("rp_wild_remove", "string", T.coq_str(k[6]))
    _need(k[7] == "", "wildcard replacement is not the empty string")
    # reference table: 0 = SYS_PY_VERSION, 1 = SYS_PY_MAJOR_MINOR, 2 = SYS_PY_MAJOR (names pinned by the skeleton)
    d("rp_wild_table", "list (nat * nat)", T.coq_list([f"({_nat(k[8], 'dotted')}, 1%nat)", f"({_nat(k[9], 'dotted')}, 2%nat)"]))
    d("rp_plain_table", "list (nat * (nat * string))",
      T.coq_list([f"({_nat(k[10], 'dotted')}, (1%nat, \"\"))", f"({_nat(k[11], 'dotted')}, (1%nat, {T.coq_str(k[12])}))"]))
    d("rp_compat_op", "string", T.coq_str(k[13]))
    _need(k[14] == "." and k[15] == 1 and k[16] == 0, "major extraction changed")
    fm = re.fullmatch(r"([^{}]*)\{\}([^{}]*)\{\}([^{}]*)", k[17]) if isinstance(k[17], str) else None
    _need(fm is not None, f"equivalent-check format is not of the form a{{}}b{{}}c: {k[17]!r}")
    d("rp_fmt", "string * string * string", "(" + ", ".join(T.coq_str(fm.group(i)) for i in (1, 2, 3)) + ")")
    _need(isinstance(k[18], int) and 0 <= k[18] < 100, "increment")
    d("rp_incr", "N", f"{k[18]}%N")
    ops = read_ops()
    d("rp_ops", "list (string * string)", T.coq_list([f"({T.coq_str(a)}, {T.coq_str(b)})" for a, b in ops]))
    read_sys_consts()
    info["ops"] = ops
    info["op_chars"] = m.group(1)
    # --- page
    k = read(PYPI, "handle_starttag")
    _need(k[1] == 0 and k[3] == 1 and k[4] == 0 and k[6] == 0 and k[8] == 1, "attribute tuple indexes changed")
    d("pg_anchor", "string", T.coq_str(k[0]))
    d("pg_href", "string", T.coq_str(k[2]))
    d("pg_requires_attrs", "list string", _strs([k[5], k[7]]))
    ke = read(PYPI, "handle_endtag")
    _need(ke[0] == k[0], "handle_endtag closes a different element than handle_starttag opens")
    read(PYPI, "handle_data")
    read(PYPI, "LinksHTMLParser.__init__")
    info["page"] = {"anchor": k[0], "href": k[2], "requires": [k[5], k[7]]}
    out.append("Inductive page_base := PBResponseUrl | PBAskedUrl.\n")
    d("pg_base", "page_base", read_page_base())
    # --- hash
    k = read(PYPI, "PyPIRepository.resolve_candidate")
    _need(k[1] == k[2], "the '#' tested and the '#' partitioned on differ")
    d("hash_sep", "ascii", _chr(k[1], "fragment separator"))
    d("hash_repl", "ascii * ascii", f"({_chr(k[3], 'replace')}, {_chr(k[4], 'replace')})")
    # --- download / reuse of a file already in the wheel directory
    k, c_outer, c_inner = read_do_download()
    _need(k[1] == 1 and k[2] == 1, "_do_download: the digest is no longer split_link[1] when len(split_link) > 1")
    d("dl_sha_sep", "string", T.coq_str(k[0]))
    _need(isinstance(k[0], str) and len(k[0]) > 0, "_do_download: empty digest separator")
    out.append("Inductive dl_cond := DHasSha | DExists | DMatch | DNot (c : dl_cond) | DAnd (a b : dl_cond) | DOr (a b : dl_cond).\n")
    d("dl_reuse_outer", "dl_cond", c_outer)
    d("dl_reuse_inner", "dl_cond", c_inner)
    info["dl"] = {"sha_sep": k[0], "outer": c_outer, "inner": c_inner}
    k = read("req_compile/repos/findlinks.py", "FindLinksRepository.resolve_candidate")
    d("fl_hash_prefix", "string", T.coq_str(k[3]))
    read("req_compile/repos/findlinks.py", "_find_all_links")
    info["fl_hash_prefix"] = k[3]
    return "".join(out), info

"""Evaluate HARMLESS changes produced by independent sub-agents (they never saw /verif): does a check raise a
false alarm?

usage: benign_eval.py <out-dir of one property, e.g. /tmp/seed/out5/C03> [--checks C03,C01]

For every patchN.diff + demoN.py: (1) confirm in a scratch worktree that the demo prints the same result lines
and exits 0 on HEAD and with the patch, and that the repo's test suite gives the same passes; (2) run the quick
check of the property against the patched tree (VERIF_REPO = scratch worktree); (3) classify
  PASS   - exit 0, no VIOLATION line (the tie followed the rewrite)
  NFIF   - VIOLATION ... no-failing-input-found (the tie broke, the search found nothing: the outcome the
           interface prescribes for a harmless rewrite that the translator / correspondence cannot follow)
  ALARM  - VIOLATION with a concrete failing input although the property holds: a false alarm to be corrected
and keep it as /verif/benign/<Cxx-bN>/ (patch.diff, demo.py, meta.json)."""
from __future__ import annotations

import json
import os
import re
import shutil
import subprocess
import sys
import time
from pathlib import Path

from seed_eval import PY, VERIF, extract_notes, sh, suite_passed


def main() -> None:
    out_dir = Path(sys.argv[1])
    pid = out_dir.name
    checks = [pid]
    if "--checks" in sys.argv:
        checks = sys.argv[sys.argv.index("--checks") + 1].split(",")
    wt = f"/tmp/wt-benign-{pid}"
    subprocess.run(["git", "-C", "/repo", "worktree", "remove", "--force", wt], capture_output=True)
    shutil.rmtree(wt, ignore_errors=True)
    subprocess.run(["git", "-C", "/repo", "worktree", "add", "--detach", wt, "HEAD"], check=True, capture_output=True)
    try:
        base_pass, base_failed = suite_passed(wt)
        for n in (1, 2, 3):
            patch, demo = out_dir / f"patch{n}.diff", out_dir / f"demo{n}.py"
            if not patch.exists() or not demo.exists():
                continue
            sid = f"{pid}-b{n}"
            meta = {"id": sid, "property": pid, "kind": "harmless", "ran": []}
            notes = (out_dir / "notes.md").read_text() if (out_dir / "notes.md").exists() else ""
            sh(["git", "checkout", "--", "."], cwd=wt)
            sh(["git", "clean", "-fdq"], cwd=wt)
            rc0, o0 = sh([PY, str(demo)], cwd=wt, timeout=900)
            rc, o = sh(["git", "apply", str(patch)], cwd=wt)
            if rc != 0:   # /repo has moved on since the change was written: try a three-way merge
                rc, o = sh(["git", "apply", "-3", str(patch)], cwd=wt)
                sh(["git", "reset", "-q"], cwd=wt)
            if rc != 0:
                print(sid, "patch does not apply:", o[:200])
                continue
            rc1, o1 = sh([PY, str(demo)], cwd=wt, timeout=900)
            p_pass, p_failed = suite_passed(wt)
            flaky = {"tests/test_repositories.py::test_sort_wheels_with_any"}
            same_suite = (set(p_failed) - flaky) == (set(base_failed) - flaky)
            scrub = lambda s: re.sub(r"/tmp/\S+|0x[0-9a-f]+|\d+\.\d+ ?s\b", "<x>", s)
            same_output = scrub(o0) == scrub(o1)
            meta["demo_on_head"], meta["demo_with_patch"], meta["demo_same_output"] = rc0, rc1, same_output
            meta["suite"] = {"head_passed": base_pass, "patched_passed": p_pass, "same_failures": same_suite,
                             "new_failures": sorted(set(p_failed) - set(base_failed) - flaky)}
            meta["ran"].append(f"cd <scratch worktree> && {PY} demo.py  (HEAD: rc {rc0}; patched: rc {rc1}; same output: {same_output})")
            meta["ran"].append("pytest baseline command on HEAD and on the patched worktree")
            confirmed = rc0 == 0 and rc1 == 0 and same_suite
            meta["confirmed_harmless_by_demo_and_suite"] = confirmed
            results = {}
            if confirmed:
                for c in checks:
                    env = dict(os.environ, VERIF_REPO=wt, VERIF_SEED="0")
                    t0 = time.time()
                    rcc, oc = sh([str(VERIF / "check"), c, "--tier", "quick"], cwd=str(VERIF), env=env, timeout=3000)
                    vl = [l for l in oc.split("\n") if l.startswith("VIOLATION")]
                    r = {"rc": rcc, "violation": vl[0] if vl else None, "wall_s": round(time.time() - t0, 1)}
                    if vl:
                        m = re.search(r"replay=(\S+)", vl[0])
                        if m and Path(m.group(1)).exists():
                            rp = json.loads(Path(m.group(1)).read_text())
                            r["broken"] = rp.get("broken")
                            fi = rp.get("failing_input")
                            r["failing_input_found"] = fi is not None
                            r["why"] = (fi or {}).get("why") if isinstance(fi, dict) else None
                            r["replay"] = rp
                    elif rcc != 0:
                        r["tail"] = oc[-1500:]
                    r["class"] = ("PASS" if rcc == 0 and not vl else
                                  "ALARM" if vl and r.get("failing_input_found") else
                                  "NFIF" if vl else "ERROR")
                    results[c] = r
                    meta["ran"].append(f"VERIF_REPO=<patched worktree> ./check {c} --tier quick -> rc {rcc}")
                for c in checks:
                    sh([str(VERIF / "check"), c, "--tier", "quick"], cwd=str(VERIF), env=dict(os.environ, VERIF_SEED="0"), timeout=3000)
            meta["checks"] = results
            meta["result"] = "not confirmed" if not confirmed else "; ".join(f"{c}: {r['class']}" for c, r in results.items())
            meta["what"], _ = extract_notes(notes, n)
            dest = VERIF / "benign" / sid
            if confirmed:
                dest.mkdir(parents=True, exist_ok=True)
                shutil.copy(patch, dest / "patch.diff")
                shutil.copy(demo, dest / "demo.py")
                (dest / "meta.json").write_text(json.dumps(meta, indent=1))
            print(sid, "confirmed" if confirmed else f"NOT confirmed (demo head rc={rc0}, patched rc={rc1}, suite same={same_suite})",
                  meta["result"], flush=True)
    finally:
        subprocess.run(["git", "-C", "/repo", "worktree", "remove", "--force", wt], capture_output=True)
        shutil.rmtree(wt, ignore_errors=True)


if __name__ == "__main__":
    main()
